"""C18 — visible line parts partition the data exactly
(mptplot/values/linepart_{linear,code,join}.c, mpt++/linepart.cpp, mpt++/polyline.cpp).
Case kinds: L/E/J/C (line parts, see harness/c18_linepart.cpp) and P/R/A/D/W (polyline::set, array::set(-1), apply_data without and
with part records, float wrappers)."""
import itertools, multiprocessing, os
from fractions import Fraction
import vcheck
from vcheck import DiffProperty

ALPHA_MAIN = ("1/0", "3/0", ["0/0", "1/0", "2/0", "3/0", "4/0"])          # range [1,3]; below, at-min, inside, at-max, above
ALPHA_FRAC = ("-3/2", "5/3", ["-7/2", "-3/2", "-1/4", "5/3", "3/0"])      # range [-1.5, 0.625], thirds/sevenths as fractions
ALPHA_DEGEN = ("2/0", "2/0", ["1/0", "2/0", "2/0", "2/0", "5/0"])         # min = max: at-min = inside = at-max
ALPHA_EMPTY = ("3/0", "1/0", ["0/0", "1/0", "2/0", "3/0", "4/0"])         # min > max: nothing is in range
ALPHA_NONE = ("N", "N", ["0/0", "1/0", "2/0", "3/0", "4/0"])              # no range at all


# ------------------------------------------------------------------ values
def val_of(tok):
    """'<num>/<exp>[*count]' -> (Fraction, count)"""
    cnt = 1
    if "*" in tok:
        tok, c = tok.split("*")
        cnt = int(c)
    num, e = tok.split("/")
    num, e = int(num), int(e)
    return (Fraction(num, 2 ** e) if e >= 0 else Fraction(num * 2 ** (-e))), cnt


def small_dyadic(tok):
    if tok == "N":
        return True
    v, _ = val_of(tok)
    return abs(v) < 65536 and (v * 65536).denominator == 1


def case_values(case):
    t = case.split()
    if t[0] == "L":
        return t[1:3], t[3:]
    if t[0] == "E":
        return t[2:4], t[4:9] + t[10:]
    if t[0] == "J":
        return [], []
    return [], t[1:]


def case_small(case):
    rg, vs = case_values(case)
    return all(small_dyadic(x) for x in rg + vs)


def count_points(toks):
    return sum(val_of(x)[1] for x in toks)


# ------------------------------------------------------------------ reading observations
def parse_group(txt, sep):
    """'r.u.c.t<sep>...<sep>=total' -> (parts, total) or (None, text) for STALL/FAULT/- """
    items = [x for x in txt.split(sep) if x != ""]
    if not items or not items[-1].startswith("="):
        return None, txt
    try:
        parts = [tuple(int(y) for y in x.split(".")) for x in items[:-1]]
        if any(len(p) != 4 for p in parts):
            return None, txt
        return parts, int(items[-1][1:])
    except ValueError:
        return None, txt


def parse_spec(txt, sep):
    """'<classes><sep>x<i>:<num>/<den>...' -> (classes, {i: Fraction})"""
    items = txt.split(sep)
    cl = "" if items[0] == "-" else items[0]
    xs = {}
    for x in items[1:]:
        i, q = x[1:].split(":")
        a, b = q.split("/")
        xs[int(i)] = Fraction(int(a, 0), int(b, 0))
    return cl, xs


def code_of(t):
    """the 16-bit encoding the specification asks for: floor(65536 t) clipped to the field"""
    return min(65535, (t * 65536).numerator // (t * 65536).denominator)


def check_parts(parts, total, cl, xs, small):
    """the property, read on one part list; returns None or a description of what is wrong"""
    n = len(cl)
    tol = 0 if small else 1
    if sum(p[0] for p in parts) != total:
        return "sum-of-raw-differs-from-reported-position"
    if total != n:
        return "consumed=%d-of-%d-points" % (total, n)
    cnt = [0] * (n + 2)
    pos = 0
    for k, (raw, usr, cut, trim) in enumerate(parts):
        if raw < 1:
            return "part%d-no-progress" % k
        if usr > 0:
            if pos + usr > n:
                return "part%d-draws-past-the-data" % k
            cnt[pos] += 1
            cnt[pos + usr] -= 1
            for i in range(pos + 1, pos + usr - 1):
                if cl[i] != "1" and not on_boundary(cl, xs, i, tol):
                    return "part%d-draws-through-out-of-range-point-%d" % (k, i)
            if cl[pos] == "1":
                if cut != 0:
                    return "part%d-cut=%d-at-in-range-start" % (k, cut)
            else:
                if usr < 2 or cl[pos + 1] != "1" or pos not in xs:
                    return "part%d-starts-at-out-of-range-point-%d-without-crossing" % (k, pos)
                want = code_of(xs[pos])
                if abs(cut - want) > tol:
                    return "part%d-cut=%d-want=%d(+-%d)" % (k, cut, want, tol)
            last = pos + usr - 1
            if cl[last] == "1":
                if trim != 0:
                    return "part%d-trim=%d-at-in-range-end" % (k, trim)
            else:
                if usr < 2 or cl[last - 1] != "1" or (last - 1) not in xs:
                    return "part%d-ends-at-out-of-range-point-%d-without-crossing" % (k, last)
                want = code_of(xs[last - 1])
                if abs(trim - want) > tol:
                    return "part%d-trim=%d-want=%d(+-%d)" % (k, trim, want, tol)
        elif cut != 0 or trim != 0:
            return "part%d-draws-nothing-but-cut/trim-set" % k
        pos += raw
    c = 0
    for i in range(n):
        c += cnt[i]
        if cl[i] == "1" and c != 1:
            return "in-range-point-%d-drawn-%d-times" % (i, c)
        if cl[i] == "0" and c != 0:
            return "interior-out-of-range-point-%d-drawn-%d-times" % (i, c)
    return None


def on_boundary(cl, xs, i, tol):
    """an out-of-range point whose crossing fraction towards every in-range neighbour has code 0 lies, at the
    precision of the 16-bit encoding, on the range boundary; only such a point may sit inside a drawn line
    (a join of two parts whose trim and cut codes are both 0 produces this)"""
    if cl[i] != "*":
        return False
    for j, seg in ((i - 1, i - 1), (i + 1, i)):
        if 0 <= j < len(cl) and cl[j] == "1":
            if seg not in xs or code_of(xs[seg]) > tol:
                return False
    return True


def groups_close(a, b, small):
    """mechanism comparison of two observations of the same kind: everything equal, cut/trim within the rule"""
    if a == b:
        return True
    if small:
        return False
    pa, ta = a
    pb, tb = b
    if pa is None or pb is None or ta != tb or len(pa) != len(pb):
        return False
    for x, y in zip(pa, pb):
        if x[0] != y[0] or x[1] != y[1] or abs(x[2] - y[2]) > 1 or abs(x[3] - y[3]) > 1:
            return False
    return True


GROUP_NAMES = ("direct-loop", "set+apply", "apply")


def compare_seq(i_txt, m_txt, s_txt, small, sep, gsep):
    """one sequence: returns (corr, spec), each None or (impl text, other text)"""
    corr = spec = None
    ig = i_txt.split(gsep)
    if i_txt != m_txt:
        mg = m_txt.split(gsep)
        if len(ig) != len(mg) or small:
            corr = (i_txt, m_txt)
        else:
            for a, b in zip(ig, mg):
                if not groups_close(parse_group(a, sep), parse_group(b, sep), small):
                    corr = (i_txt, m_txt)
                    break
    cl, xs = parse_spec(s_txt, sep)
    for name, g in zip(GROUP_NAMES, ig):
        parts, total = parse_group(g, sep)
        if parts is None:
            why = "%s:%s" % (name, (total or "no-output").strip().replace(" ", "_")[:40])
        else:
            why = check_parts(parts, total, cl, xs, small)
            why = why and "%s:%s" % (name, why)
        if why:
            spec = (why + "|" + g.strip().replace(" ", ","), "every-point-once;in-range-drawn-once;interior-not-drawn;cut/trim=code(crossing)|" + s_txt[:200].replace(" ", ","))
            break
    if len(ig) != 3 and spec is None:
        spec = ("observation-incomplete|" + i_txt[:100].replace(" ", ","), "three-part-lists")
    return corr, spec


def compare_case(args):
    case, it, mt, st = args
    r = {"corr": None, "spec": None, "I": it, "M": mt, "S": st}
    if it is None or mt is None or st is None:
        r["corr"] = (-1, "missing output", "I=%s M=%s S=%s" % (it is not None, mt is not None, st is not None))
        return r
    kind = case.split(None, 1)[0]
    if kind == "P":
        return compare_poly(case, it, mt, st)
    if kind == "R":
        return compare_represet(case, it, mt, st)
    if kind == "A":
        return compare_plain(case, it, mt, st)
    if kind == "D":
        return compare_dparts(case, it, mt, st)
    small = case_small(case)
    if kind == "L":
        c, s = compare_seq(" ".join(it), " ".join(mt), " ".join(st), small, " ", " | ")
        if c:
            j = next((k for k in range(max(len(it), len(mt))) if (it[k:k + 1] != mt[k:k + 1])), 0)
            r["corr"] = (j, c[0][:300], c[1][:300])
        if s:
            r["spec"] = (0, s[0][:400], s[1][:400])
        if len(it) > 40:
            r["I"], r["M"], r["S"] = it[:40], mt[:40], [x[:80] for x in st[:8]]
    elif kind == "E":
        n = max(len(it), len(mt), len(st))
        for j in range(n):
            a = it[j] if j < len(it) else "<none>"
            b = mt[j] if j < len(mt) else "<none>"
            s_ = st[j] if j < len(st) else None
            if a == "F" or s_ is None or b == "<none>":
                if r["corr"] is None and a != b:
                    r["corr"] = (j, a, b)
                if r["spec"] is None and a != "<none>":
                    r["spec"] = (j, "crash-or-missing-output|" + a, s_ or "<none>")
                break
            c, s = compare_seq(a, b, s_, small, ";", "|")
            if c and r["corr"] is None:
                r["corr"] = (j, c[0], c[1])
            if s and r["spec"] is None:
                r["spec"] = (j, s[0], s[1])
        if r["corr"] is None and r["spec"] is None:
            r["I"], r["M"], r["S"] = it[:4], mt[:4], st[:4]
    else:
        # J and C: plain token comparison; the specification leaves accept/refuse of a join to the code
        n = max(len(it), len(mt))
        for j in range(n):
            a = it[j] if j < len(it) else "<none>"
            b = mt[j] if j < len(mt) else "<none>"
            if a != b and not (kind == "C" and same_code_tok(a, b)) and not (kind == "W" and same_wrap_tok(a, b)):
                r["corr"] = (j, a, b)
                break
        n = max(len(it), len(st))
        for j in range(n):
            a = it[j] if j < len(it) else "<none>"
            b = st[j] if j < len(st) else "<none>"
            if a != b and not (kind == "C" and same_code_tok(a, b)) and not (kind == "W" and same_wrap_tok(a, b)):
                r["spec"] = (j, a, b)
                break
    return r


def same_code_tok(a, b):
    """'<code>:<num>/<den>' equal as numbers"""
    try:
        ca, qa = a.split(":")
        cb, qb = b.split(":")
        na, da = qa.split("/")
        nb, db = qb.split("/")
        return int(ca) == int(cb) and Fraction(int(na, 0), int(da, 0)) == Fraction(int(nb, 0), int(db, 0))
    except ValueError:
        return False


# ------------------------------------------------------------------ open defects: constant switches
# (seven patches of the first round are committed in /repo: their switches are True; the two new ones are proposed)
# Each switch names a proposed patch under /verif/docs.  False = the patch is NOT in /repo: the generator leaves out
# the cases that run into the defect (they are replayable: docs/C18_replay_*.json show VIOLATION on the unpatched
# tree).  Set a switch to True once the patch is committed; nothing else has to change (the Coq model already
# follows the patched code on these paths, see coq/C18/LinepartModel.v merge and coq/C18/PolylineModel.v).
PATCHED_SET_STALE = True            # docs/C18_set_stale_cut_trim.diff   linepart::array::set keeps old _cut/_trim: frames >= 2
PATCHED_MERGE_CUT_TRIM = True       # docs/C18_merge_cut_trim.diff       apply() of a further dimension onto parts of a dimension that has a range
PATCHED_SHORT_DIMENSION = True      # docs/C18_short_dimension.diff      (on top of merge_cut_trim) a later dimension with fewer values
PATCHED_SKIP_STORE = True           # docs/C18_polyline_skip_store.diff  polyline::set: a store without doubles behind the first and before a usable one
PATCHED_NO_FIRST_STORE = True       # docs/C18_polyline_no_first_store.diff  polyline::set on a USED polyline (frames >= 2) whose first store has no doubles
PATCHED_APPLY_DATA_NOPARTS = True   # docs/C18_apply_data_noparts.diff   apply_data without parts: several dimensions and > 65535 points or unequal lengths
PATCHED_APPLY_SHORT_PART = True     # docs/C18_apply_short_part.diff     (mptplot/values.h) a part with raw = 1 that draws 2 points: its points are
                                     #                                    not compared in GENERATED cases while False (always compared in replays)
PATCHED_MAXSIZE = True             # docs/C18_maxsize_all_stores.diff   (mpt++/value_store.cpp) maxsize() looks at the first store only: calls whose
                                     #                                    longest store of doubles is not the first one (or whose first has none)
PATCHED_APPLY_DATA_REMAINING = True # docs/C18_apply_data_remaining.diff (mpt++/polyline.cpp) apply_data with part records: a record that reaches
                                     #                                    behind the values a dimension has left (D cases)
STRICT = False                       # set while a replay file is run: no masking at all


# ------------------------------------------------------------------ polyline cases (P / A / W)
def split_on(toks, sep):
    out, cur = [], []
    for t in toks:
        if t == sep:
            out.append(cur)
            cur = []
        else:
            cur.append(t)
    out.append(cur)
    return out


def parse_dim(toks):
    """-> ('X',) | ('D', min tok, max tok, [value tokens])   (F = floats, Z = empty doubles: both without usable data)"""
    if not toks or toks[0] in ("X", "F"):
        return ("X",)
    if toks[0] == "Z":
        return ("D", "N", "N", [])
    return ("D", toks[0], toks[1], toks[2:])


def parse_frames(case):
    t = case.split()
    return [[parse_dim(d) for d in split_on(fr, "|") if d] for fr in split_on(t[1:], "&")]


def expand(vtoks):
    out = []
    for x in vtoks:
        v, c = val_of(x)
        out.extend([v] * c)
    return out


def usable(d):
    return d[0] == "D" and bool(d[3])


def has_in_out(d):
    """does the dimension leave its range somewhere (an in-range value followed by an out-of-range one)?"""
    if d[1] == "N":
        return False
    mn, mx = val_of(d[1])[0], val_of(d[2])[0]
    prev = None
    for x in d[3]:
        v, _ = val_of(x)
        cur = mn <= v <= mx
        if prev and not cur:
            return True
        prev = cur
    return False


def maxsize_patched(fr):
    """maxsize() as the name says: the number of values of the longest store of doubles at ANY position, -1 without one"""
    c = [count_points(d[3]) for d in fr if d[0] == "D"]
    return max(c) if c else -1


def maxsize_first(fr):
    """maxsize() of the unpatched code: the first store is tested size() times"""
    return count_points(fr[0][3]) if fr and fr[0][0] == "D" else -1


def maxsize_differs(fr):
    a, b = maxsize_first(fr), maxsize_patched(fr)
    return a != b and (a > 0 or b > 0)


def frame_static(fr):
    """(needs merge patch, unequal lengths, unusable store behind the first and before a usable one, first store unusable,
        any range)"""
    use = [d for d in fr[:3] if usable(d)]
    lens = [count_points(d[3]) for d in use]
    uneq = len(set(lens)) > 1
    ranged = [k for k, d in enumerate(use) if d[1] != "N"]
    # a further dimension onto parts that came from a range: the unpatched loop agrees with the patched one only when that
    # was the ONLY range, it is never left (no trim, no undrawn tail) and nothing behind it has a range
    merge = bool(ranged) and ranged[0] < len(use) - 1 and (len(ranged) > 1 or has_in_out(use[ranged[0]]))
    skip = False
    seen_bad = False
    for k, d in enumerate(fr):
        if not usable(d):
            seen_bad = seen_bad or k > 0
        elif seen_bad:
            skip = True
    nofirst = not fr or not usable(fr[0])
    return merge, uneq, skip, nofirst, bool(ranged), nofirst and bool(use)


def poly_static(case):
    """what the generator switches look at, over all frames of a P case"""
    frs = parse_frames(case)
    st = [frame_static(fr) for fr in frs]
    return {"frames": len(frs),
            "merge": any(x[0] for x in st), "uneq": any(x[1] for x in st), "skip": any(x[2] for x in st),
            "used-nofirst": any(x[3] for x in st[1:]),
            "nofirst-then-usable": any(x[5] for x in st),
            "maxsize": any(maxsize_differs(fr) for fr in frs),
            # set() again keeps old cut/trim fractions: harmless only while no earlier frame had a range
            "stale": any(x[4] for x in st[:-1])}


def poly_enabled(case):
    k = case.split(None, 1)[0]
    if k == "P":
        f = poly_static(case)
        if f["stale"] and not PATCHED_SET_STALE:
            return False
        if f["merge"] and not PATCHED_MERGE_CUT_TRIM:
            return False
        if f["uneq"] and not (PATCHED_SHORT_DIMENSION and PATCHED_MERGE_CUT_TRIM):
            return False
        if f["skip"] and not PATCHED_SKIP_STORE:
            return False
        if f["used-nofirst"] and not PATCHED_NO_FIRST_STORE:
            return False
        if f["nofirst-then-usable"] and PATCHED_SKIP_STORE and not PATCHED_NO_FIRST_STORE:
            return False        # skip_store alone lets such a call draw from set(-1); commit no_first_store with it
        if f["maxsize"] and not PATCHED_MAXSIZE:
            return False        # the longest store of doubles is not the first store
    elif k == "R":
        if not poly_enabled("P" + case[1:]):
            return False
        if any(frame_static(fr)[4] for fr in parse_frames(case)) and not PATCHED_SET_STALE:
            return False        # set(-1) re-uses records that carry fractions
    elif k == "A":
        t = case.split()
        fr = [parse_dim(d) for d in split_on(t[2:], "|") if d]
        lens = [count_points(d[3]) for d in fr if d[0] == "D" and d[3]]
        if len(lens) > 1 and (int(t[1]) > 65535 or len(set(lens + [int(t[1])])) > 1) and not PATCHED_APPLY_DATA_NOPARTS:
            return False
    elif k == "D":
        if dparts_behind(case) and not PATCHED_APPLY_DATA_REMAINING:
            return False        # a record that draws a point some dimension has no value for
    return True


def parse_dparts(case):
    """'D r.u.c.t ... : <dim> | <dim>' -> (parts, dims)"""
    t = case.split()
    k = t.index(":") if ":" in t else len(t)
    parts = [tuple(int(y) for y in x.split(".")) for x in t[1:k]]
    dims = [parse_dim(d) for d in split_on(t[k + 1:], "|") if d]
    return parts, dims


def dparts_behind(case):
    parts, dims = parse_dparts(case)
    lens = [count_points(d[3]) for d in dims[:3] if usable(d)]
    pos = 0
    for raw, usr, cut, trim in parts:
        if usr and any(pos + usr > n for n in lens):
            return True
        pos += raw
    return False


def q_of(txt):
    """'0x1.8p+1' (C %a) or '<num>/<den>' (model) -> Fraction; None for nan/inf"""
    try:
        if "/" in txt:
            a, b = txt.split("/")
            return Fraction(int(a, 0), int(b, 0))
        return Fraction(float.fromhex(txt))
    except (ValueError, OverflowError):
        return None


def parse_points(tok):
    """'n<k>,x:y[*c],...' -> list of runs (x, y, count) or None"""
    items = tok.split(",")
    if not items or not items[0].startswith("n"):
        return None
    runs = []
    try:
        n = int(items[0][1:])
        for it in items[1:]:
            c = 1
            if "*" in it:
                it, cc = it.split("*")
                c = int(cc)
            x, y = it.split(":")
            x, y = q_of(x), q_of(y)
            if runs and runs[-1][0] == x and runs[-1][1] == y and x is not None:
                runs[-1] = (x, y, runs[-1][2] + c)
            else:
                runs.append((x, y, c))
        if sum(r[2] for r in runs) != n:
            return None
    except ValueError:
        return None
    return runs


def runs_to_list(runs):
    out = []
    for x, y, c in runs:
        out.extend([(x, y)] * c)
    return out


def parse_parts_tok(tok):
    """'r.u.c.t,...,=total,u<lu>,r<lr>' -> (parts, total, lu, lr) or None"""
    items = [x for x in tok.split(",") if x]
    try:
        parts = []
        total = lu = lr = None
        for x in items:
            if x[0] == "=":
                total = int(x[1:])
            elif x[0] == "u":
                lu = int(x[1:])
            elif x[0] == "r":
                lr = int(x[1:])
            else:
                p = tuple(int(y) for y in x.split("."))
                if len(p) != 4:
                    return None
                parts.append(p)
        if total is None or lu is None or lr is None:
            return None
        return parts, total, lu, lr
    except ValueError:
        return None


def masked_points(parts):
    """indices of the points of parts the apply<> template (mptplot/values.h) leaves untouched: raw < 2 <= usr"""
    idx = set()
    off = 0
    for raw, usr, cut, trim in parts:
        if raw < 2 <= usr and (cut or trim):
            idx.update(range(off, off + usr))
        off += usr
    return idx


def dim_spec(stok, dim):
    """one S token of a dimension -> (classes, {segment: fraction})"""
    if stok == "X" or dim[0] == "X":
        return None
    return parse_spec(stok, ";")


def check_frame(fr, stoks, itoks, before):
    """the property, read on one polyline::set: returns None or a description of what is wrong
    (before = the observation of the same polyline before this call)"""
    if len(itoks) < 4 or "F" in itoks[:4]:
        return "crash-or-missing-output:" + ",".join(itoks[:4])[:60]
    ok, ptok, vtok, ittok = itoks[:4]
    want_n = maxsize_patched(fr)
    if want_n <= 0:
        # no store of doubles has a value: nothing to split, the call fails and changes nothing
        if ok != "set=0":
            return "set-succeeds-without-values-in-any-store"
        if [ptok, vtok, ittok] != before:
            return "failed-set-changed-the-polyline"
        return None
    pp = parse_parts_tok(ptok)
    runs = parse_points(vtok)
    if pp is None or runs is None or ok not in ("set=1", "set=0"):
        return "unreadable-output"
    ok = ok == "set=1"
    parts, total, lu, lr = pp
    pts = runs_to_list(runs)
    # the usable dimensions: doubles with at least one value, at most three
    dims = []
    for k, d in enumerate(fr[:3]):
        if d[0] == "D" and d[3] and k < len(stoks):
            cl, xs = dim_spec(stoks[k], d)
            dims.append((k, expand(d[3]), cl, xs))
    # every input point of every store is consumed exactly once: the parts cover as many points as the LONGEST store
    # of doubles has values (a point behind the end of a dimension is consumed and not drawn, see cls)
    if total != want_n:
        return "covered=%d-of-%d-points-of-the-longest-store" % (total, want_n)
    n = total
    if sum(p[0] for p in parts) != total or lr != total:
        return "sum-of-raw-differs-from-reported-total"
    if lu != sum(p[1] for p in parts) or lu != len(pts):
        return "points=%d-length_user=%d-sum-usr=%d" % (len(pts), lu, sum(p[1] for p in parts))
    if ok != (len(pts) > 0):
        return "result=%s-with-%d-points" % (ok, len(pts))

    def cls(i):
        c = "1"
        for _, vals, cl, _ in dims:
            if i >= len(vals) or cl[i] == "0":
                return "0"
            if cl[i] != "1":
                c = "*"
        return c

    def out_dims(i):
        return [d for d in dims if i < len(d[1]) and d[2][i] != "1"]

    def edge_code(o, v):
        """point o (not in range in every dimension) drawn next to v: (code wanted, why-not)"""
        seg = min(o, v)
        want = 0
        for _, vals, cl, xs in out_dims(o):
            if v >= len(vals) or cl[v] != "1" or seg not in xs:
                return None
            want = max(want, code_of(xs[seg]))
        return want

    def boundary_ok(i, lo, hi):
        for j in (i - 1, i + 1):
            if lo <= j < hi and cls(j) == "1":
                w = edge_code(i, j)
                if w is None or w > 0:
                    return False
        return cls(i) == "*"

    cnt = [0] * (n + 2)
    pos = off = 0
    mask = set() if (PATCHED_APPLY_SHORT_PART or STRICT) else masked_points(parts)
    for k, (raw, usr, cut, trim) in enumerate(parts):
        if raw < 1:
            return "part%d-no-progress" % k
        if usr == 0:
            if cut or trim:
                return "part%d-draws-nothing-but-cut/trim-set" % k
            pos += raw
            continue
        if pos + usr > n:
            return "part%d-draws-past-the-data" % k
        cnt[pos] += 1
        cnt[pos + usr] -= 1
        last = pos + usr - 1
        for i in range(pos + 1, last):
            if cls(i) != "1" and not boundary_ok(i, pos, pos + usr):
                return "part%d-draws-through-out-of-range-point-%d" % (k, i)
        if cls(pos) == "1":
            if cut:
                return "part%d-cut=%d-at-in-range-start" % (k, cut)
        else:
            w = edge_code(pos, pos + 1) if usr >= 2 else None
            if w is None:
                return "part%d-starts-at-out-of-range-point-%d-without-crossing" % (k, pos)
            if cut != w:
                return "part%d-cut=%d-want=%d" % (k, cut, w)
        if cls(last) == "1":
            if trim:
                return "part%d-trim=%d-at-in-range-end" % (k, trim)
        else:
            w = edge_code(last, last - 1) if usr >= 2 else None
            if w is None:
                return "part%d-ends-at-out-of-range-point-%d-without-crossing" % (k, last)
            if trim != w:
                return "part%d-trim=%d-want=%d" % (k, trim, w)
        # the points of this part: data verbatim, clipped ends on the line towards the neighbour
        for j in range(usr):
            if off + j in mask:
                continue
            i = pos + j
            x = y = Fraction(0)
            for dk, vals, _, _ in dims:
                if i >= len(vals):
                    continue
                v = vals[i]
                if j == 0 and cut:
                    v = vals[i] + Fraction(cut, 65536) * (vals[i + 1] - vals[i])
                elif j == usr - 1 and trim:
                    v = vals[i] + Fraction(trim, 65536) * (vals[i - 1] - vals[i])
                if dk in (0, 2):
                    x += v
                if dk in (1, 2):
                    y += v
            if pts[off + j] != (x, y):
                return "part%d-point%d-is-%s-want-%s" % (k, j, fmt_pt(pts[off + j]), fmt_pt((x, y)))
        pos += raw
        off += usr
    c = 0
    for i in range(n):
        c += cnt[i]
        if cls(i) == "1" and c != 1:
            return "in-range-point-%d-drawn-%d-times" % (i, c)
        if cls(i) == "0" and c != 0:
            return "interior-out-of-range-point-%d-drawn-%d-times" % (i, c)
    # the part iterator
    views = ittok.split(",")
    if views[0] != "it" or views[-1] != "E0+0":
        return "iterator-output-unreadable-or-end-iterator-not-empty:" + views[-1]
    views = views[1:-1]
    off = 0
    k = 0
    for raw, usr, cut, trim in parts:
        if off == len(pts):
            break
        want = "L%d+%d/P%d+%d" % (off, usr, off + (1 if cut else 0), usr - (1 if cut else 0) - (1 if trim else 0))
        if k >= len(views) or views[k] != want:
            return "iterator-part%d-is-%s-want-%s" % (k, views[k] if k < len(views) else "<none>", want)
        off += usr
        k += 1
    if k != len(views):
        return "iterator-yields-%d-parts-want-%d" % (len(views), k)
    return None


def fmt_pt(p):
    return "(%s;%s)" % tuple("nan" if v is None else ("%g" % float(v)) for v in p)


def points_equal(a, b, mask):
    ra, rb = parse_points(a), parse_points(b)
    if ra is None or rb is None:
        return False
    if ra == rb:
        return True
    la, lb = runs_to_list(ra), runs_to_list(rb)
    if len(la) != len(lb):
        return False
    return all(i in mask or x == y for i, (x, y) in enumerate(zip(la, lb)))


def compare_poly(case, it, mt, st):
    """P: four tokens per frame (result, parts, points, iterator); M must agree token by token (points as numbers),
    the property is read by check_frame"""
    r = {"corr": None, "spec": None, "I": it, "M": mt, "S": st}
    frames = parse_frames(case)
    sfr = split_on(st, "&")
    for f, fr in enumerate(frames):
        a = it[4 * f:4 * f + 4]
        b = mt[4 * f:4 * f + 4]
        if r["corr"] is None:
            pp = parse_parts_tok(a[1]) if len(a) > 1 else None
            mask = set() if (pp is None or PATCHED_APPLY_SHORT_PART or STRICT) else masked_points(pp[0])
            for j in range(4):
                x = a[j] if j < len(a) else "<none>"
                y = b[j] if j < len(b) else "<none>"
                if x != y and not (j == 2 and points_equal(x, y, mask)):
                    r["corr"] = (4 * f + j, x[:300], y[:300])
                    break
        if r["spec"] is None:
            before = it[4 * f - 3:4 * f] if f else ["=0,u0,r0", "n0", "it,E0+0"]
            why = check_frame(fr, sfr[f] if f < len(sfr) else [], a, before)
            if why:
                r["spec"] = (4 * f, ("frame%d:" % f) + why + "|" + ",".join(a)[:300],
                             "every-point-once;in-range-in-all-dimensions-drawn-once;interior-not-drawn;cut/trim=code(crossing);points=data|"
                             + ",".join(sfr[f] if f < len(sfr) else [])[:200])
    for k in ("I", "M", "S"):
        if r[k] and sum(len(x) for x in r[k]) > 4000:
            r[k] = [x[:200] for x in r[k][:8]]
    return r


def compare_represet(case, it, mt, st):
    """R: a P frame, then linepart::array::set(-1): the same number of points, all visible again, in chunks, no fractions"""
    r = compare_poly("P" + case[1:], it[:4], mt[:4], st)
    a = it[4] if len(it) > 4 else "<none>"
    b = mt[4] if len(mt) > 4 else "<none>"
    if r["corr"] is None and a != b:
        r["corr"] = (4, a[:300], b[:300])
    if r["spec"] is None:
        parts, total = parse_group(a, ",")
        pp = parse_parts_tok(it[1]) if len(it) > 1 else None
        why = None
        if parts is None or pp is None:
            why = "unreadable:" + a[:60]
        elif total != pp[1] or sum(p[0] for p in parts) != total:
            why = "set(-1)-covers-%d-points-want-%d" % (total, pp[1])
        elif any(p[0] != p[1] or p[2] or p[3] or not 1 <= p[0] <= 65533 for p in parts):
            why = "set(-1)-leaves-a-part-that-is-not-a-plain-chunk"
        if why:
            r["spec"] = (4, why + "|" + a[:200], "all-points-of-the-parts-visible-again;no-fractions")
    r["I"], r["M"] = it[:8], mt[:8]
    return r


def compare_plain(case, it, mt, st):
    """A: apply_data without part records: every one of the n points gets the value of every dimension that has one"""
    r = {"corr": None, "spec": None, "I": it, "M": mt, "S": st}
    t = case.split()
    n = int(t[1])
    fr = [parse_dim(d) for d in split_on(t[2:], "|") if d]
    for j in range(max(len(it), len(mt))):
        x = it[j] if j < len(it) else "<none>"
        y = mt[j] if j < len(mt) else "<none>"
        if x != y and not (j == 1 and points_equal(x, y, set())):
            r["corr"] = (j, x[:300], y[:300])
            break
    dims = [(k, expand(d[3])) for k, d in enumerate(fr[:3]) if d[0] == "D" and d[3]]
    want = []
    for i in range(n):
        x = sum((v[i] for k, v in dims if k in (0, 2) and i < len(v)), Fraction(0))
        y = sum((v[i] for k, v in dims if k in (1, 2) and i < len(v)), Fraction(0))
        want.append((x, y))
    runs = parse_points(it[1]) if len(it) > 1 else None
    if len(it) < 2 or it[0] != "proc=%d" % len(dims) or runs is None or runs_to_list(runs) != want:
        got = runs_to_list(runs) if runs else []
        bad = next((i for i in range(min(len(got), len(want))) if got[i] != want[i]), -1)
        r["spec"] = (0, "apply_data:%s,first-wrong-point=%d|%s" % (it[0] if it else "<none>", bad, ",".join(it)[:200]),
                     "proc=%d;every-point-gets-every-dimension-once" % len(dims))
    for k in ("I", "M", "S"):
        if r[k] and sum(len(x) for x in r[k]) > 4000:
            r[k] = [x[:200] for x in r[k][:8]]
    return r


def compare_dparts(case, it, mt, st):
    """D: apply_data with the part records of the case on sum(usr) points that start at (0,0).  Read from the property:
    drawn point j of a record at data position pos is point pos+j of every dimension; a dimension that has a value for it
    adds that value (the clipped value for a first/last point with a fraction, which needs the neighbour's value too);
    a dimension that has no value for it adds nothing - and nothing behind a store is read (a crash is token F)"""
    r = {"corr": None, "spec": None, "I": it, "M": mt, "S": st}
    parts, fr = parse_dparts(case)
    for j in range(max(len(it), len(mt))):
        x = it[j] if j < len(it) else "<none>"
        y = mt[j] if j < len(mt) else "<none>"
        if x != y and not (j == 1 and points_equal(x, y, set())):
            r["corr"] = (j, x[:300], y[:300])
            break
    dims = [(k, expand(d[3])) for k, d in enumerate(fr[:3]) if usable(d)]
    want = []
    pos = 0
    for raw, usr, cut, trim in parts:
        for j in range(usr):
            i = pos + j
            x = y = Fraction(0)
            for dk, vals in dims:
                n = len(vals)
                if i >= n:
                    continue
                v = vals[i]
                if j == 0 and cut:
                    if usr < 2 or i + 1 >= n:
                        continue
                    v = vals[i] + Fraction(cut, 65536) * (vals[i + 1] - vals[i])
                elif j == usr - 1 and trim and usr >= 2:
                    v = vals[i] + Fraction(trim, 65536) * (vals[i - 1] - vals[i])
                if dk in (0, 2):
                    x += v
                if dk in (1, 2):
                    y += v
            want.append((x, y))
        pos += raw
    runs = parse_points(it[1]) if len(it) > 1 else None
    if len(it) < 2 or "F" in it[:2] or it[0] != "proc=%d" % len(dims) or runs is None or runs_to_list(runs) != want:
        got = runs_to_list(runs) if runs else []
        bad = next((i for i in range(min(len(got), len(want))) if got[i] != want[i]), -1)
        r["spec"] = (0, "apply_data:%s,first-wrong-point=%d%s|%s" % (it[0] if it else "<none>", bad,
                                                                     ("=" + fmt_pt(got[bad]) + "-want-" + fmt_pt(want[bad])) if bad >= 0 else "",
                                                                     ",".join(it)[:200]),
                     "proc=%d;every-drawn-point-gets-the-value-of-every-dimension-that-has-one;no-read-behind-a-store" % len(dims))
    for k in ("I", "M", "S"):
        if r[k] and sum(len(x) for x in r[k]) > 4000:
            r[k] = [x[:200] for x in r[k][:8]]
    return r


def same_wrap_tok(a, b):
    """'<ok>.<cut>.<ok>.<trim>:<x>:<y>' equal with the two reals compared as numbers"""
    pa, pb = a.split(":"), b.split(":")
    return len(pa) == 3 and len(pb) == 3 and pa[0] == pb[0] and q_of(pa[1]) == q_of(pb[1]) and q_of(pa[2]) == q_of(pb[2])


# ------------------------------------------------------------------ the property
class C18(DiffProperty):
    pid = "C18"
    claimed = True
    coq_dir = "C18"
    extract_vo = "C18/Extract.vo"
    mlname = "c18_model"
    driver = "c18_driver.ml"
    harness_src = "c18_linepart.cpp"
    libs = ["mpt++", "mptplot", "mptcore"]
    harness_env = dict(vcheck.ASAN_ENV, ASAN_OPTIONS=vcheck.ASAN_ENV["ASAN_OPTIONS"] + ":symbolize=0")
    harness_args = ("60",)
    extra_harness_flags = ["-fno-sanitize=vptr"]     # see the comment in harness/c18_linepart.cpp
    rule = ("a case = a visible range (or none) + a sequence of values, all given as exact dyadic rationals num*2^-exp; the model "
            "computes on exact rationals, the code in binary64.  Observed per sequence: the part records raw.usr.cut.trim and the "
            "position reached, three times: (1) loop 'pos += raw' over mpt_linepart_linear, (2) linepart::array::set(n)+apply() "
            "(what polyline::set does), (3) linepart::array::apply() on an empty array.  COMPARISON RULE: raw, usr and positions "
            "must be equal; cut/trim codes must be EQUAL when every value and range bound has <= 16 fractional bits and "
            "magnitude < 2^16 (then numerator and denominator of the crossing fraction are exact in binary64, the exact quotient "
            "p/q has q < 2^33, so 65536*p/q is an integer - and then the correctly rounded division is exact - or at least 2^-33 "
            "away from one, more than the 2^-37 error of one rounded division: Coq lemma C18_code_agrees_small_dyadic), otherwise "
            "|delta code| <= 1.  The same rule is used between the code and the specification, whose codes are "
            "min(65535, floor(65536*t)) of the exact crossing fraction t.  Property-level reading of a part list (python, "
            "check_parts): sum of raw = n, every raw >= 1, every in-range point in [pos,pos+usr) of exactly one part, every "
            "out-of-range point without in-range neighbour in none, an out-of-range point is drawn only as first/last point of a "
            "part next to an in-range point and then cut/trim = code of the exact crossing fraction, else cut/trim = 0.  "
            "Generator: EXHAUSTIVE over the ordered alphabet {below, at-min, inside, at-max, above} = {0,1,2,3,4} against [1,3] "
            "for every length <= 8 (quick) / 10 (thorough); exhaustive to length 6 / 8 for four more alphabets (fractional "
            "bounds, min=max, min>max, no range); random dyadic sequences (equal neighbours, several ranges, 53-bit mantissas "
            "with exponents -40..40 for the |delta|<=1 regime); runs of 65533..65537 and 131070.. points around the per-part "
            "limit; pairs of parts for join around the 65535 sums; values for code/real.  A case is non-trivial when it has a "
            "range and at least one crossing or a run over the limit; distinct = distinct case text (an E case stands for "
            "5^depth sequences; the number of sequences of the run is appended below).  "
            "POLYLINE CASES (mpt++/polyline.cpp, the rest of mpt++/linepart.cpp): 'P <dim> | <dim> .. [& ..]' = polyline::set(transform, "
            "value stores) once per frame on ONE polyline, with the real layout::graph::transform3 (dimension 0 -> x, 1 -> y, 2 -> x and y, "
            "scale 1, per-dimension limit = the case's range) and real value_store objects (doubles; X = no data, F = floats, Z = empty; "
            "the unused capacity behind every store is ASan-poisoned); observed per frame: the result, the part records + the library's "
            "length_user/length_raw, the point array (every coordinate, run-length coded) and what the part iterator yields "
            "(begin/end/++/*/line()/points() as offset+length, and the end iterator).  'R' = P followed by linepart::array::set(-1); "
            "'A n ..' = apply_data() without part records; 'D r.u.c.t .. : dims' = apply_data() WITH the part records of the case (exact-size "
            "copy; the records need not fit the stores) on sum(usr) points that start at (0,0); "
            "'W' = linepart::set_cut/set_trim/cut()/trim() on values exact in binary32.  "
            "All polyline values lie on the small dyadic grid, so every coordinate must be EQUAL to the model's exact rational.  "
            "Property-level reading of a frame (python check_frame): a point is in range when it is in range in EVERY usable dimension, "
            "never to be drawn when some dimension has no value for it or has it and both neighbours outside; sum raw = n = the number of "
            "values of the LONGEST store of doubles, whatever its position ('consumes every input point exactly once' read for every "
            "dimension: a value no part covers is not consumed; the usable dimensions are the stores of doubles with >= 1 value among the "
            "first three); every raw >= 1; in-range points drawn exactly once, never-points not at all; an "
            "out-of-range point only as first/last point of a part, and then in every dimension in which it is outside its neighbour in "
            "the part is inside and cut/trim = the largest code of these crossings; parts that draw nothing carry no fractions; "
            "number of points = sum usr = length_user; every point = the data value (sum over the dimensions that feed the axis), a "
            "clipped end = the point at fraction code/65536 of its segment; the iterator's lines tile the points in part order and "
            "points() is the line without clipped ends (no size_t underflow); when no store of doubles has a value the call fails "
            "and leaves the polyline unchanged.  Reading of a D case (python compare_dparts): drawn point j of a record at data "
            "position pos is point pos+j of every dimension; a dimension that has a value for it adds that value (the clipped value "
            "for a first/last point with a fraction when the neighbour's value exists too), a dimension without a value for it adds "
            "nothing, nothing behind a store is read (crash = token F); records are well formed (raw >= 1, usr <= raw+1, fractions "
            "only with usr >= 2).  Generated: exhaustive five-class sequences to length 5 (quick) / 7 for one dimension, "
            "exhaustive {below,inside,above}^2 pairs to length 3 / 4 for two ranged dimensions, exhaustive ranged last dimension to "
            "length 4 / 6, runs around 65533/65535/131070 points, random frames (1-3 dimensions, ranges anywhere, unequal lengths, "
            "unusable stores, set() again on a used polyline), every pair of store lengths 0..3 over {outside, inside}^n for two ranged "
            "dimensions and 0..5 for plain ones (the longer store first and second, a first store without doubles, a longer store "
            "behind the three dimensions), D cases with records that fit, end exactly with, or reach behind 1-4 stores.  CASES LEFT OUT until the patches under docs/ are committed are selected "
            "by the constant switches PATCHED_* at the top of this file (a pure function of the case text; see docs/notes_C18.md); "
            "while PATCHED_APPLY_SHORT_PART is False the points of a part with raw = 1 that draws 2 points are not compared in "
            "generated cases (replay files are always compared in full)")
    modelled = ("mptplot/values/linepart_linear.c, linepart_code.c, linepart_join.c; mpt++/linepart.cpp: linepart::array::set (0, < 0, > 0), "
                "linepart::array::apply (empty array and the merge loop over existing parts, any number of dimensions), set_cut/set_trim; "
                "mpt++/polyline.cpp: polyline::set, apply_data (with and without part records), the part iterator and part::line/points; "
                "mpt++/value_store.cpp maxsize (AS PATCHED by docs/C18_maxsize_all_stores.diff: the longest store of doubles; the code in /repo "
                "tests the first store only); the template apply<point<double>,double> of mptplot/values.h and "
                "transform3::apply for linear axes with scale 1 - all transcribed in coq/C18/LinepartModel.v and PolylineModel.v over exact "
                "rationals; uint16 fields are written mod 2^16, size_t lengths mod 2^64.  The model follows the code AS PATCHED by the seven "
                "diffs docs/C18_*.diff on the paths the generator keeps disabled until they are committed (merge loop for a further "
                "dimension after a ranged one / with fewer values, set() on re-used records, polyline::set behind an unusable store or "
                "without a first store, apply_data without parts for several dimensions, apply<> for a part with raw = 1) - these seven are "
                "committed in /repo - and by the two proposed ones docs/C18_maxsize_all_stores.diff (maxsize advances through the stores) and "
                "docs/C18_apply_data_remaining.diff (apply_data compares a record with the values that are LEFT of a dimension and clears "
                "the trim of the copy it cuts short); on every path "
                "that is run against the unpatched tree patched and unpatched code agree.  Not modelled: binary64 rounding (compared by "
                "the rule; polyline cases are exact), NaN/infinite inputs, logarithmic axes (transform3::part with TransformLg, apply_log), "
                "axis offset/scale other than 0/1, allocation failures")
    trusted = ["harness/c18_linepart.cpp copies every sequence into an exact-size heap block, calls the real functions and prints the "
               "records it reads back from the linepart structs / the linepart::array; for the L/E cases a transform subclass whose part() "
               "calls mpt_linepart_linear with the case's range stands in for layout::graph::transform3; the P/R/A cases use the real "
               "layout::graph::transform3 (mpt++/transform.cpp, not modelled beyond part() = mpt_linepart_linear with the limit and "
               "apply() = the values.h template) and real value_store / typed_array objects (mpt++/array.cpp, C04/C05)",
               "props/c18.py check_parts / check_frame are the executable reading of the specification on the implementation's part "
               "list and point array (Coq counterparts: parts_ok/draw_count in LinepartSpec.v, drawn_values/views_of in PolylineSpec.v)",
               "IEEE-754 binary64 division of the host is correctly rounded (hypothesis of C18_code_agrees_small_dyadic)"]
    level_text = ("proof: Coq theorems over exact rationals, for EVERY value sequence (any length, induction over the driver loop "
                  "with fuel |data| whose sufficiency is proved) and every range (also min=max, min>max, none): C18_progress (a call "
                  "on >= 1 values consumes between 1 and min(len,65535) values and never reads outside), "
                  "C18_consumes_each_point_once (the loop 'pos += raw' ends and the raw counts sum to n), C18_in_range_drawn_once, "
                  "C18_out_of_range_interior_not_drawn, C18_parts_as_specified (every drawn out-of-range point is the clipped first or "
                  "last point of its part next to an in-range point), C18_cut_trim_precision (code = floor(65536 x) clipped to 65535 "
                  "for the exact crossing fraction x with o + x(v-o) = bound, |decode - x| <= 2^-16, else 0), "
                  "C18_code_is_clipped_floor, C18_join_preserves_totals, C18_join_draws_union, C18_set_apply_covers_all and "
                  "C18_set_apply_points (the same per-point statements for linepart::array::set+apply, the path polyline::set takes, "
                  "joins included), C18_code_agrees_small_dyadic (binary64 vs exact codes, rounding properties as hypotheses); for "
                  "mpt++/polyline.cpp and the rest of linepart.cpp: C18_further_dimension_covers (linepart::array::apply on ANY existing "
                  "part list with any amount of data ends, never reads outside the data and covers exactly the points covered before), "
                  "C18_further_dimension_points (for data that covers the records: it never adds visibility, drawn-once and in range "
                  "in the new dimension stays drawn once, interior out of range in it is not drawn), C18_polyline_two_dimensions and "
                  "C18_polyline_three_dimensions (the part list polyline::set computes from two / three stores: in range in all -> "
                  "drawn once, interior out of range in one -> not drawn), "
                  "C18_set_apply_parts (every part of set+apply, joins included: >= 1 point consumed, draws only existing points, a "
                  "part with a fraction draws >= 2 points, cut/trim = code of the crossing of its first/last segment), "
                  "C18_polyline_one_dimension (polyline::set with one store on any - also used - polyline: no read outside the data, "
                  "fails exactly when nothing is drawn, the point array is point for point the data value resp. the point at the "
                  "decoded fraction of the first/last segment), C18_polyline_clip_on_boundary (such a clipped point lies within 2^-16 "
                  "of the segment length of the range boundary), C18_polyline_iterator (the iterator ends, its lines tile the points "
                  "in part order, points() never underflows); for ANY list of stores (any number, usable or not, of unequal lengths) "
                  "C18_polyline_set_any_stores (polyline::set ends, never reads outside a store - merge loops and apply_data - , fails and "
                  "changes nothing exactly when no store of doubles has a value, else the parts cover exactly as many points as the "
                  "longest store of doubles has values and there is one point per drawn point) and C18_polyline_short_dimension (no point "
                  "behind the last value of any store among the three dimensions is drawn); for ANY part records "
                  "C18_apply_data_any_parts (apply_data never reads behind a store and keeps the number of points); the "
                  "model is tied to the code on every run by differential execution under ASan/UBSan (exhaustive over the 5-class "
                  "alphabet to length 8, random dyadic sequences, runs around 65535 points; polyline::set / apply_data / iterator on "
                  "real value stores with the real transform3, exhaustive to length 5 and random frames)")
    level_note = ("trusted: Coq kernel; hand transcription of linepart_linear/code/join.c, mpt++/linepart.cpp and mpt++/polyline.cpp (validated by "
                  "the correspondence run, not verified); extraction and OCaml driver; harness; python reading of part lists and points. "
                  "The theorems are about exact rational arithmetic; the C computes the two fractions in binary64 - the link is the "
                  "stated comparison rule (codes equal for small dyadic inputs, |delta| <= 1 otherwise) and "
                  "C18_code_agrees_small_dyadic, whose two rounding facts (relative error <= 2^-53, representable quotients exact) "
                  "are explicit hypotheses, not proved from an IEEE model.  NaN and infinities are outside the model.  "
                  "PARTIAL for several dimensions: proved for every part list and every amount of data are termination, memory safety "
                  "and coverage of a further dimension (C18_further_dimension_covers); the per-point drawing statements are proved for "
                  "one dimension and for a second and third one that have at least as many values (C18_further_dimension_points, "
                  "C18_polyline_two_dimensions, C18_polyline_three_dimensions); only CHECKED (python check_frame against the "
                  "implementation, model compared token by token) are: the per-point statements (drawn once / not drawn) below the end of a "
                  "dimension with fewer values (proved for it: termination, memory safety, coverage, nothing drawn behind its end), the "
                  "fraction of a crossing in "
                  "two dimensions (largest of the two codes), the points of polyline::set for more than one store, apply_data without "
                  "part records, the VALUES apply_data adds for records that do not fit the stores.  The polyline theorems are about the model, "
                  "which follows nine patches docs/C18_*.diff where the code as found violates the property; seven are committed in /repo "
                  "(switches True), TWO ARE OPEN (switches PATCHED_MAXSIZE, PATCHED_APPLY_DATA_REMAINING = False, their cases are left out "
                  "of the generated run and of the corpus until the patches are committed): maxsize() in mpt++/value_store.cpp never "
                  "advances through the stores, so polyline::set sizes the parts from the FIRST store only - a longer later store is "
                  "cut to the first one's length (its further values are never consumed), a first store without doubles makes the call "
                  "fail although other dimensions have values (replays docs/C18_replay_maxsize_all_stores{,_b}.json); apply_data with "
                  "part records compares each record with the WHOLE length of a dimension instead of what is left of it and reads "
                  "behind the store, and the copy it cuts short keeps the trim fraction (replays "
                  "docs/C18_replay_apply_data_remaining{,_b}.json; not reachable through polyline::set, whose records fit every "
                  "dimension, but apply_data is a public function with that guard).  The seven committed ones were: (stale fractions "
                  "after set() on a used polyline; wrong/missing trim and fractions on undrawn parts when a second dimension is applied "
                  "after a ranged one; reads behind a shorter dimension; stores behind an unusable one never applied; a call without "
                  "first store redraws the old points at the origin; apply_data without parts loses its count after the first "
                  "dimension; apply<> leaves a 2-point part with raw = 1 at the origin); replays docs/C18_replay_*.json reproduce each "
                  "as VIOLATION on a tree without its patch.  On every path the generator runs while a switch is False patched and "
                  "unpatched code agree.  All 23 theorems are closed under the global context.")
    technique = "Coq proof (per-part invariant, induction over the driver loop) + differential correspondence check with a stated rounding rule"
    assumptions = ["binary64 division/subtraction are correctly rounded (IEEE-754), no excess precision",
                   "inputs are finite doubles (no NaN/infinity)"]
    quick_exh = 8
    thorough_exh = 10

    # ---- evaluation in chunks, comparison in parallel
    def evaluate(self, cases, workdir, tagsuffix=""):
        hx = vcheck.build_harness(self.harness_src, self.libs, extra=self.extra_harness_flags)
        mx = vcheck.build_model(self.mlname, self.driver, self.extract_vo)
        res, errs = [], []
        CH = 1500
        pool = multiprocessing.Pool(min(16, vcheck.NPROC)) if len(cases) > 64 else None
        try:
            for c0 in range(0, len(cases), CH):
                chunk = cases[c0:c0 + CH]
                ided = ["c%d %s" % (i, c) for i, c in enumerate(chunk)]
                sh = min(vcheck.NPROC, max(1, len(chunk) // 8))
                I, e1 = vcheck.run_cases(hx, ided, workdir, "impl" + tagsuffix, env=self.harness_env, args=self.harness_args, shards=sh)
                M, e2 = vcheck.run_cases(mx, ided, workdir, "model" + tagsuffix, shards=sh)
                errs += e1 + e2
                args = [(c, I.get("I", {}).get("c%d" % i), M.get("M", {}).get("c%d" % i), M.get("S", {}).get("c%d" % i))
                        for i, c in enumerate(chunk)]
                res += pool.map(compare_case, args, chunksize=8) if pool else [compare_case(a) for a in args]
        finally:
            if pool:
                pool.close()
        return res, errs

    def compare(self, case, it, mt, st):
        return compare_case((case, it, mt, st))

    def corpus(self):
        # regression cases of a defect whose patch is not committed yet wait behind the same constant switch as the generated ones
        return [c for c in DiffProperty.corpus(self) if poly_enabled(c)]

    # ---- case structure / statistics
    def classify(self, case):
        t = case.split()
        cl = set()
        if t[0] == "E":
            cl.add("exhaustive-depth-%s-len-%d" % (t[1], int(t[1]) + count_points(t[10:])))
            if t[2] != "N":
                cl.add("range")
        elif t[0] == "L":
            n = count_points(t[3:])
            if t[1] != "N":
                rg = (val_of(t[1])[0], val_of(t[2])[0])
                if rg[0] > rg[1]:
                    cl.add("min>max")
                elif rg[0] == rg[1]:
                    cl.add("min=max")
                if n <= 200:
                    vs = [val_of(x)[0] for x in t[3:] for _ in range(val_of(x)[1])]
                    ins = [rg[0] <= v <= rg[1] for v in vs]
                    if any(a != b for a, b in zip(ins, ins[1:])):
                        cl.add("crossing")
                    if any(a == b for a, b in zip(vs, vs[1:])):
                        cl.add("equal-neighbours")
                else:
                    cl.add("crossing?")
            else:
                cl.add("no-range")
            if n > 65535:
                cl.add("over-part-limit")
            elif n >= 65533:
                cl.add("at-part-limit")
            if not case_small(case):
                cl.add("rounding-regime(|d|<=1)")
            if cl == {"no-range"} or not cl:
                cl = set() if n < 2 else {"plain"}
        elif t[0] == "J":
            cl.add("join")
        elif t[0] == "C":
            cl.add("code/real")
        elif t[0] == "P":
            f = poly_static(case)
            frs = parse_frames(case)
            nd = max([len([d for d in fr if d[0] == "D" and d[3]]) for fr in frs] + [0])
            cl.add("polyline-%d-dim" % nd)
            if f["frames"] > 1:
                cl.add("polyline-set-again")
            if f["merge"]:
                cl.add("polyline-range-then-further-dimension")
            elif nd > 1 and any(frame_static(fr)[4] for fr in frs):
                cl.add("polyline-range-and-plain-dimensions")
            if f["uneq"]:
                cl.add("polyline-unequal-lengths")
            if f["maxsize"]:
                cl.add("polyline-longest-store-not-first")
            if f["skip"] or f["used-nofirst"] or any(not usable(d) for fr in frs for d in fr):
                cl.add("polyline-unusable-store")
            if max([count_points(d[3]) for fr in frs for d in fr if d[0] == "D"] + [0]) >= 65533:
                cl.add("polyline-at-part-limit")
        elif t[0] == "R":
            cl.add("array-set(-1)")
        elif t[0] == "A":
            cl.add("apply_data-without-parts")
        elif t[0] == "D":
            cl.add("apply_data-with-parts")
            if dparts_behind(case):
                cl.add("apply_data-part-behind-the-data")
        elif t[0] == "W":
            cl.add("set_cut/set_trim")
        return cl

    def sequences(self, cases):
        n = 0
        for c in cases:
            t = c.split(None, 2)
            n += 5 ** int(t[1]) if t[0] == "E" else 1
        return n

    # ---- shrinking
    def e_to_l(self, case, idx):
        t = case.split()
        depth, mn, mx, alpha, pre = int(t[1]), t[2], t[3], t[4:9], t[10:]
        w = []
        for _ in range(depth):
            w.append(alpha[idx % 5])
            idx //= 5
        return " ".join(["L", mn, mx] + pre + w[::-1])

    def shrink(self, case, kind, workdir, budget=14):
        if case.startswith("E"):
            res, _ = self.evaluate([case], workdir, tagsuffix="_fo")
            r = res[0][kind]
            if r is None or r[0] < 0:
                return case
            case = self.e_to_l(case, r[0])
        return DiffProperty.shrink(self, case, kind, workdir, budget)

    def shrink_candidates(self, case):
        t = case.split()
        if t[0] == "L":
            hdr, vs = t[:3], t[3:]
            for k in range(len(vs)):
                yield " ".join(hdr + vs[:k] + vs[k + 1:])
                if "*" in vs[k]:
                    b, c = vs[k].split("*")
                    c = int(c)
                    for c2 in (c // 2, c - 1, 65536, 65535, 65534, 65533):
                        if 1 <= c2 < c:
                            yield " ".join(hdr + vs[:k] + ["%s*%d" % (b, c2)] + vs[k + 1:])
            if len(vs) > 4:
                yield " ".join(hdr + vs[:len(vs) // 2])
                yield " ".join(hdr + vs[len(vs) // 2:])
            if hdr[1] != "N":
                # move every value to a small integer grid with the same order relative to the range
                mn, mx = val_of(hdr[1])[0], val_of(hdr[2])[0]
                if mn < mx:
                    def sym(x):
                        v, c = val_of(x)
                        s = "0/0" if v < mn else "1/0" if v == mn else "2/0" if v < mx else "3/0" if v == mx else "4/0"
                        return s if c == 1 else "%s*%d" % (s, c)
                    yield " ".join(["L", "1/0", "3/0"] + [sym(x) for x in vs])
        elif t[0] == "J":
            ps = [t[1 + 8 * i: 9 + 8 * i] for i in range((len(t) - 1) // 8)]
            if len(ps) > 1:
                for p in ps:
                    yield " ".join(["J"] + p)
            for k in range(len(ps)):
                yield " ".join(["J"] + [x for p in ps[:k] + ps[k + 1:] for x in p])
        elif t[0] in ("C", "W"):
            for k in range(1, len(t)):
                yield " ".join(t[:k] + t[k + 1:])
        elif t[0] == "P":
            frs = split_on(t[1:], "&")
            if len(frs) > 1:
                for k in range(len(frs)):
                    yield "P " + " & ".join(" ".join(f) for f in frs[:k] + frs[k + 1:])
            for fi, f in enumerate(frs):
                dims = [d for d in split_on(f, "|") if d]

                def put(nd):
                    nf = " | ".join(" ".join(d) for d in nd)
                    return "P " + " & ".join([" ".join(x) for x in frs[:fi]] + [nf] + [" ".join(x) for x in frs[fi + 1:]])
                if len(dims) > 1:
                    for k in range(len(dims)):
                        yield put(dims[:k] + dims[k + 1:])
                # drop the same point from every dimension / shorten runs / drop the range of one dimension
                hd = [2 if d[0] not in ("X", "Z", "F") else 1 for d in dims]
                nv = max(len(d) - h for d, h in zip(dims, hd))
                for k in range(nv):
                    yield put([d[:h] + d[h:][:k] + d[h:][k + 1:] for d, h in zip(dims, hd)])
                for k in range(nv):
                    nd = []
                    ch = False
                    for d, h in zip(dims, hd):
                        vs = d[h:]
                        if k < len(vs) and "*" in vs[k]:
                            b, c = vs[k].split("*")
                            c = int(c)
                            c2 = 65533 if c > 65534 else c // 2
                            if c2 >= 1:
                                vs = vs[:k] + ["%s*%d" % (b, c2)] + vs[k + 1:]
                                ch = True
                        nd.append(d[:h] + vs)
                    if ch:
                        yield put(nd)
                for k, d in enumerate(dims):
                    if hd[k] == 2 and d[0] != "N":
                        yield put(dims[:k] + [["N", "N"] + d[2:]] + dims[k + 1:])
        elif t[0] == "D":
            k = t.index(":") if ":" in t else len(t)
            ps, rest = t[1:k], t[k + 1:]
            dims = [d for d in split_on(rest, "|") if d]

            def putd(ps2, nd):
                return " ".join(["D"] + ps2 + [":"] + " | ".join(" ".join(d) for d in nd).split())
            for i in range(len(ps)):
                yield putd(ps[:i] + ps[i + 1:], dims)
            if len(dims) > 1:
                for i in range(len(dims)):
                    yield putd(ps, dims[:i] + dims[i + 1:])
            for i, d in enumerate(dims):
                h = 2 if d[0] not in ("X", "Z", "F") else 1
                if len(d) > h:
                    yield putd(ps, dims[:i] + [d[:-1]] + dims[i + 1:])
                    if "*" in d[-1]:
                        b, c = d[-1].split("*")
                        yield putd(ps, dims[:i] + [d[:-1] + ["%s*%d" % (b, max(1, int(c) // 2))]] + dims[i + 1:])
            for i, x in enumerate(ps):
                f = x.split(".")
                if f[2] != "0" or f[3] != "0":
                    yield putd(ps[:i] + [".".join(f[:2] + ["0", "0"])] + ps[i + 1:], dims)
        elif t[0] == "A":
            n = int(t[1])
            for n2 in (n // 2, n - 1, 65536, 65535):
                if 1 <= n2 < n:
                    yield " ".join(["A", str(n2)] + [("%s*%d" % (x.split("*")[0], min(int(x.split("*")[1]), n2)) if "*" in x else x) for x in t[2:]])

    # ---- generator
    def exhaustive(self, alpha, maxlen, depth):
        mn, mx, syms = alpha
        out = []
        for n in range(0, maxlen + 1):
            d = min(depth, n)
            for pre in itertools.product(syms, repeat=n - d):
                out.append(" ".join(["E", str(d), mn, mx] + syms + ["|"] + list(pre)))
        return out

    def rand_value(self, rng, mode):
        if mode == "grid":
            return "%d/0" % rng.randrange(-2, 8)
        if mode == "small":        # <= 16 fractional bits, magnitude < 2^16: codes must be equal
            e = rng.choice([0, 1, 2, 4, 8, 15, 16])
            return "%d/%d" % (rng.randrange(-(1 << (15 + e)), 1 << (15 + e)) if rng.random() < 0.3 else rng.randrange(-40, 40) * (1 << e) // rng.choice([1, 2, 3, 8]), e)
        # full doubles: 53-bit mantissa, moderate exponents
        m = rng.getrandbits(53) | (1 << 52)
        if rng.random() < 0.5:
            m = -m
        return "%d/%d" % (m, 52 - rng.randrange(-40, 41))

    def rand_seq(self, rng, mode, n):
        vs = []
        pool = [self.rand_value(rng, mode) for _ in range(rng.choice([2, 3, 5, 8, n + 1]))]
        while len(vs) < n:
            v = rng.choice(pool) if rng.random() < 0.7 else self.rand_value(rng, mode)
            k = rng.choice([1, 1, 1, 2, 3])       # equal neighbours
            vs += [v] * k
        vs = vs[:n]
        srt = sorted(set(vs), key=lambda x: val_of(x)[0])
        a, b = rng.choice(srt), rng.choice(srt)
        if a == b and len(srt) > 1 and rng.random() < 0.8:
            b = rng.choice([x for x in srt if x != a])
        r = rng.random()
        if r < 0.6:
            a, b = sorted([a, b], key=lambda x: val_of(x)[0])
        elif r < 0.7:
            b = a
        elif r < 0.8:
            a, b = self.rand_value(rng, mode), self.rand_value(rng, mode)
            if rng.random() < 0.8:
                a, b = sorted([a, b], key=lambda x: val_of(x)[0])
        elif r < 0.85:
            a = b = "N"
        return " ".join(["L", a, b] + vs)

    def long_runs(self, rng, tier):
        out = []
        IN, LO, HI = "2/0", "0/0", "4/0"
        hdr = ["L", "1/0", "3/0"]
        for n in (65533, 65534, 65535, 65536, 65537):
            out.append(" ".join(hdr + ["%s*%d" % (IN, n)]))                               # all visible
            out.append(" ".join(hdr + ["%s*%d" % (LO, n)]))                               # all invisible
            out.append(" ".join(["L", "N", "N", "%s*%d" % (IN, n)]))                      # no range
            out.append(" ".join(hdr + [LO, "%s*%d" % (IN, n - 1)]))                       # cut, then visible to the limit
            out.append(" ".join(hdr + ["%s*%d" % (IN, n - 1), HI]))                       # trim exactly at the end
            out.append(" ".join(hdr + ["%s*%d" % (IN, n - 2), HI, IN]))                   # trim, then a new part
            out.append(" ".join(hdr + ["%s*%d" % (IN, n - 2), HI, LO]))
            out.append(" ".join(hdr + ["%s*%d" % (LO, n - 1), IN, IN]))                   # invisible run up to the limit, then visible
            out.append(" ".join(hdr + [IN, "%s*%d" % (HI, n - 2), IN, HI]))
        for n in (131069, 131070, 131071):
            out.append(" ".join(hdr + ["%s*%d" % (IN, n), HI, IN]))
            out.append(" ".join(hdr + [LO, "%s*%d" % (IN, 65533), HI, "%s*%d" % (LO, n - 65535), IN]))
        k = 6 if tier == "quick" else 60
        for _ in range(k):
            a = rng.choice([65530, 65531, 65532, 65533, 65534, 65535, 65536])
            toks = [rng.choice([LO, IN, HI]) for _ in range(rng.randrange(0, 4))]
            toks += ["%s*%d" % (rng.choice([IN, IN, LO]), a)]
            toks += [rng.choice([LO, IN, HI, "1/0", "3/0"]) for _ in range(rng.randrange(0, 6))]
            if rng.random() < 0.3:
                toks += ["%s*%d" % (rng.choice([IN, LO]), rng.choice([65533, 65535]))] + [rng.choice([LO, IN, HI])]
            out.append(" ".join(hdr + toks))
        return out

    def join_cases(self, rng, tier):
        out = []
        edge = [0, 1, 2, 3, 32767, 32768, 65532, 65533, 65534, 65535]
        pairs = []
        for r1 in edge:
            for r2 in edge:
                for (u1, u2) in ((r1, r2), (r1, max(0, r2 - 1)), (max(0, r1 - 1), r2), (min(65535, r1 + 1), r2), (r1, min(65535, r2 + 1))):
                    for (t1, c2, t2) in ((0, 0, 0), (0, 0, 77), (5, 0, 0), (0, 9, 0), (0, 0, 65535)):
                        pairs.append([r1, u1, rng.choice([0, 0, 123]), t1, r2, u2, c2, t2])
        for _ in range(400 if tier == "quick" else 4000):
            r1, r2 = rng.choice(edge + [rng.randrange(65536)]), rng.choice(edge + [rng.randrange(65536)])
            pairs.append([r1, rng.choice([r1, r1, max(0, r1 - 1), min(65535, r1 + 1)]), rng.choice([0, 0, rng.randrange(65536)]),
                          rng.choice([0, 0, 0, rng.randrange(65536)]), r2, rng.choice([r2, r2, 0, min(65535, r2 + 1)]),
                          rng.choice([0, 0, 0, rng.randrange(65536)]), rng.choice([0, 0, rng.randrange(65536)])])
        for i in range(0, len(pairs), 50):
            out.append("J " + " ".join(str(x) for p in pairs[i:i + 50] for x in p))
        return out

    def code_cases(self, rng, tier):
        vs = ["0/0", "1/0", "1/1", "1/16", "1/17", "65535/16", "131071/17", "131069/17", "-1/0", "-1/60", "2/0", "65537/16", "3/1",
              "1/3", "1/60", "1/1000", "4503599627370495/52", "9007199254740991/53", "9007199254740992/53"]
        for _ in range(300 if tier == "quick" else 5000):
            e = rng.choice([8, 16, 17, 20, 30, 51, 52])      # num stays below 2^53: exactly representable
            vs.append("%d/%d" % (rng.randrange(-3, (1 << e) + 4) if rng.random() < 0.8 else rng.choice([0, 1, (1 << e) - 1, 1 << e, (1 << e) + 1]), e))
        return ["C " + " ".join(vs[i:i + 60]) for i in range(0, len(vs), 60)]

    # ---- polyline cases: every value and bound on the small dyadic grid (all arithmetic of the code is exact there)
    def poly_dim(self, rng, n, ranged, grid):
        vs = []
        pool = [self.rand_value(rng, grid) for _ in range(rng.choice([2, 3, 5, 8]))]
        while len(vs) < n:
            v = rng.choice(pool) if rng.random() < 0.7 else self.rand_value(rng, grid)
            vs += [v] * rng.choice([1, 1, 1, 2, 3])
        vs = vs[:n]
        if not ranged or not vs:
            return ["N", "N"] + vs
        srt = sorted(set(vs), key=lambda x: val_of(x)[0])
        a, b = rng.choice(srt), rng.choice(srt)
        r = rng.random()
        if r < 0.75:
            a, b = sorted([a, b], key=lambda x: val_of(x)[0])
        elif r < 0.85:
            a, b = self.rand_value(rng, grid), self.rand_value(rng, grid)
            a, b = sorted([a, b], key=lambda x: val_of(x)[0])
        return [a, b] + vs

    def poly_frame(self, rng, kind):
        """kind: 1 = one dimension; 'last' = only the last dimension has a range; 'multi' = ranges anywhere;
        'uneq' = lengths differ; 'skip' = unusable stores in between"""
        grid = rng.choice(["grid", "grid", "small"])
        n = rng.choice([1, 2, 3, 4, 5, 6, 8, 12, 20, 40])
        if kind == 1:
            return " ".join(self.poly_dim(rng, n, rng.random() < 0.9, grid))
        if kind == "plain":
            return " | ".join(" ".join(self.poly_dim(rng, n, False, grid)) for _ in range(rng.choice([1, 2, 3])))
        if kind == "enter":
            # one dimension with a range that is entered (cuts) but never left, the others without a range
            a = rng.randrange(0, n + 1)
            lo, hi = rng.choice([("0/0", "4/0"), ("4/0", "0/0"), ("0/0", "0/0")])
            vs = [rng.choice([lo, hi]) for _ in range(a)] + [rng.choice(["1/0", "2/0", "5/1", "3/0"]) for _ in range(n - a)]
            dims = [["1/0", "3/0"] + vs] + [self.poly_dim(rng, n, False, grid) for _ in range(rng.choice([1, 1, 2]))]
            if rng.random() < 0.5:
                dims = dims[1:2] + dims[:1] + dims[2:]
            return " | ".join(" ".join(d) for d in dims)
        nd = rng.choice([2, 2, 3])
        dims = []
        for d in range(nd):
            m = n
            if kind == "uneq" and rng.random() < 0.6:
                m = max(0, n + rng.choice([-3, -2, -1, -1, 1, 2]))
            rg = (d == nd - 1) if kind == "last" else rng.random() < 0.7
            dims.append(self.poly_dim(rng, m, rg, grid))
        if kind == "skip":
            k = rng.randrange(nd)
            dims.insert(k, rng.choice([["X"], ["X"], ["F", "1/0", "2/0"], ["Z"]]) if k else rng.choice([["X"], ["F", "1/0"]]))
            dims = dims[:4]
        return " | ".join(" ".join(d) for d in dims)

    def poly_cases(self, rng, tier):
        quick = tier == "quick"
        out = []
        # one dimension, exhaustive over the five classes (the L/E language at the level of the polyline)
        mn, mx, syms = ALPHA_MAIN
        for n in range(0, (5 if quick else 7) + 1):
            for w in itertools.product(syms, repeat=n):
                out.append(" ".join(["P", mn, mx] + list(w)))
        for al, top in ((ALPHA_FRAC, 4), (ALPHA_DEGEN, 3), (ALPHA_EMPTY, 3), (ALPHA_NONE, 3)):
            for n in range(1, top + 1):
                for w in itertools.product(al[2], repeat=n):
                    out.append(" ".join(["P", al[0], al[1]] + list(w)))
        # two dimensions, exhaustive: x in {below, inside, above} of [1,3], y the same, every pair sequence
        three = ["0/0", "2/0", "4/0"]
        pairs = list(itertools.product(three, three))
        for n in range(1, (3 if quick else 4) + 1):
            for w in itertools.product(pairs, repeat=n):
                out.append("P 1/0 3/0 %s | 1/0 3/0 %s" % (" ".join(p[0] for p in w), " ".join(p[1] for p in w)))
        # only the last dimension has a range (the path that needs no patch), exhaustive in y
        for n in range(1, (4 if quick else 6) + 1):
            for w in itertools.product(syms, repeat=n):
                out.append("P N N %s | %s %s %s" % (" ".join("%d/0" % (7 + i) for i in range(n)), mn, mx, " ".join(w)))
        # long runs around the chunk / part limits
        IN, LO, HI = "2/0", "0/0", "4/0"
        for n in (65533, 65534, 65535, 65536):
            out.append("P 1/0 3/0 %s*%d" % (IN, n))
            out.append("P 1/0 3/0 %s %s*%d %s" % (LO, IN, n - 2, HI))
            out.append("P 1/0 3/0 %s*%d %s %s" % (IN, n - 2, HI, IN))
            out.append("P 1/0 3/0 %s*%d %s*3 %s" % (IN, n - 4, LO, IN))
            out.append("P N N %s*%d | 1/0 3/0 %s*%d %s %s" % ("5/0", n, IN, n - 2, HI, IN))
            out.append("P 1/0 3/0 %s*%d %s %s | N N 1/0*%d" % (IN, n - 2, HI, IN, n))
            out.append("P 1/0 3/0 %s*%d %s*%d %s | 1/0 3/0 %s*%d" % (IN, n - 8, HI, 7, IN, IN, n))
            out.append("P 1/0 3/0 %s*%d %s*%d %s | N N 9/0*%d" % (IN, n - 8, HI, 7, IN, n))
        for n in (131066, 131070):
            out.append("P 1/0 3/0 %s %s*%d %s %s*%d %s" % (LO, IN, 65530, HI, IN, n - 65533, LO))
        # polyline::set again on a used polyline, unusable stores, unequal lengths, ranges anywhere
        nr = 1500 if quick else 30000
        for i in range(nr):
            kind = (1, "last", "multi", "uneq", "skip", "frames", "enter", "plainframes")[i % 8]
            if kind == "frames":
                fr = [self.poly_frame(rng, rng.choice([1, 1, "last", "multi"])) for _ in range(rng.choice([2, 2, 3]))]
                if rng.random() < 0.2:
                    fr.insert(rng.randrange(1, len(fr) + 1), rng.choice(["X", "Z", "X | N N 1/0 2/0", "F 1/0"]))
                out.append("P " + " & ".join(fr))
            elif kind == "plainframes":
                # set() again after frames without any range: the records it re-uses carry no fractions
                fr = [self.poly_frame(rng, "plain") for _ in range(rng.choice([1, 2]))] + [self.poly_frame(rng, rng.choice([1, "last", "enter"]))]
                out.append("P " + " & ".join(fr))
            else:
                out.append("P " + self.poly_frame(rng, kind))
        for n in range(1, 6):          # a range that is entered once, every position, with a plain second dimension
            for a in range(0, n + 1):
                for o in ("0/0", "4/0"):
                    out.append("P 1/0 3/0 %s | N N %s" % (" ".join([o] * a + ["2/0"] * (n - a)), " ".join("%d/0" % (9 + i) for i in range(n))))
        out += ["P N N 1/0 2/0 3/0 & X", "P N N 1/0 2/0 3/0 & X | N N 1/0 2/0", "P N N 1/0 2/0 3/0 & Z", "P N N 1/0 2/0 & N N 1/0 2/0 3/0 4/0 & 1/0 3/0 0/0 2/0 4/0",
                "P N N 5/0*70000 & 1/0 3/0 0/0 2/0 4/0"]
        out += ["P X", "P Z", "P 1/0 3/0", "P X | X", "P F 1/0 2/0", "P N N 1/0 | N N 2/0 | N N 3/0 | N N 4/0",
                "P 1/0 3/0 2/0 | 1/0 3/0 2/0 | 1/0 3/0 2/0 0/0", "P X | N N 1/0 2/0", "P Z | N N 1/0 2/0",
                "P 1/0 3/0 0/0 2/0 4/0 & 1/0 3/0 2/0 2/0 2/0", "P 1/0 3/0 0/0 2/0 4/0 & X | 1/0 3/0 2/0 2/0 2/0",
                "P 1/0 3/0 0/0 2/0 4/0 & Z | 1/0 3/0 2/0 2/0 2/0", "P 1/0 3/0 2/0*70000 & 1/0 3/0 2/0 4/0"]
        # stores of UNEQUAL length, every pair of lengths, the longer one first and second; a polyline from the second or the
        # third dimension alone; a store behind the dimensions of the transformation (it counts for the number of points only)
        two = ["0/0", "2/0"]
        for la in range(0, 4):
            for lb in range(0, 4):
                for wa in itertools.product(two, repeat=la):
                    for wb in itertools.product(two, repeat=lb):
                        out.append("P %s | %s" % (" ".join(["1/0", "3/0"] + list(wa)) if la else "Z", " ".join(["1/0", "3/0"] + list(wb)) if lb else "Z"))
        for la in range(0, 6):
            for lb in range(0, 6):
                if la != lb:
                    a = " ".join("%d/0" % (1 + i) for i in range(la))
                    b = " ".join("%d/0" % (11 + i) for i in range(lb))
                    out.append("P %s | %s" % ("N N " + a if la else "Z", "N N " + b if lb else "Z"))
                    out.append("P %s | %s" % ("0/0 4/0 " + a if la else "X", "12/0 14/0 " + b if lb else "X"))
                    out.append("P %s | X | %s" % ("N N " + a if la else "F 1/0", "11/0 13/0 " + b if lb else "Z"))
                    out.append("P N N 7/0 | %s | N N 8/0 9/0 | %s" % ("N N " + a if la else "X", "N N " + b if lb else "X"))
        for n in (65533, 65534, 65536):
            out.append("P N N 1/0*3 | 1/0 3/0 2/0*%d 4/0 2/0" % (n - 2))
            out.append("P 1/0 3/0 2/0*%d 4/0 2/0 | N N 1/0*3" % (n - 2))
            out.append("P X | 1/0 3/0 2/0*%d 4/0 2/0" % (n - 2))
        out += ["P X | X | X | N N 1/0 2/0", "P N N 1/0 | N N 2/0 | N N 3/0 | N N 4/0 5/0", "P X | N N 1/0 2/0 & N N 1/0 2/0 3/0 | X",
                "P N N 1/0 2/0 3/0 & X | 1/0 3/0 0/0 2/0 4/0 2/0", "P Z | Z | N N 1/0", "P F 1/0 2/0 3/0 | N N 1/0 2/0"]
        for _ in range(150 if quick else 3000):
            fr = self.poly_frame(rng, "uneq").split(" | ")
            r = rng.random()
            if r < 0.3:
                fr[0] = rng.choice(["X", "Z", "F 1/0 2/0"])
            elif r < 0.5:
                fr = (fr + ["N N 1/0", "X"])[:3] + [" ".join(self.poly_dim(rng, rng.choice([1, 3, 9, 45]), False, "grid"))]
            out.append("P " + " | ".join(fr))
        # apply_data WITH part records that need not fit the stores (a public function of values.h)
        out += ["D 3.3.0.0 3.3.0.0 : N N 1/0 2/0 3/0 4/0", "D 3.3.0.0 3.3.0.0 : N N 1/0 2/0 3/0 4/0 5/0 6/0", "D 3.3.0.0 3.3.0.0 : N N 1/0 2/0",
                "D 3.3.0.32768 : N N 1/0 2/0", "D 2.2.0.0 3.0.0.0 2.2.0.0 : N N 1/0 2/0 3/0 4/0 5/0 6/0", "D 4.1.0.0 2.2.0.0 : N N 1/0 2/0 3/0",
                "D 2.2.0.0 2.2.0.32768 : N N 1/0 2/0 3/0 | N N 1/0 2/0 3/0 4/0", "D 2.3.0.0 2.2.32768.0 : N N 1/0 2/0 3/0", "D : N N 1/0",
                "D 2.2.0.0 : X", "D 2.2.0.0 : Z | N N 1/0 2/0", "D 1.2.16384.49152 1.1.0.0 : N N 4/0 8/0",
                "D 65535.65535.0.0 65535.65535.0.0 : N N 1/0*131070", "D 65535.65535.0.0 65535.65535.0.0 : N N 1/0*65535 2/0*34465",
                "D 65535.65535.0.0 4.4.0.0 : N N 1/0*65535 2/0*2 | N N 3/0*65539", "D 65535.65535.0.0 65535.65535.0.32768 : N N 1/0*65534"]
        for _ in range(400 if quick else 8000):
            ps = []
            for _k in range(rng.choice([1, 1, 2, 3, 4, 6])):
                raw = rng.choice([1, 1, 2, 3, 4, 6])
                usr = rng.choice([raw, raw, raw, 0, raw + 1, rng.randrange(0, raw + 2)])
                cut = rng.choice([0, 0, 0, 32768, 1, 65535, 16384]) if usr >= 2 else 0
                trim = rng.choice([0, 0, 0, 32768, 1, 65535, 49152]) if usr >= 2 else 0
                ps.append("%d.%d.%d.%d" % (raw, usr, cut, trim))
            tot = sum(int(x.split(".")[0]) for x in ps)
            dims = []
            for _k in range(rng.choice([1, 1, 2, 3, 4])):
                m = rng.choice([tot, tot, tot + 1, tot + 2, max(1, tot - 1), max(1, tot - 2), max(1, tot // 2), 1, rng.randrange(1, tot + 4)])
                dims.append(" ".join(["N", "N"] + [self.rand_value(rng, "grid") for _v in range(m)]))
            if rng.random() < 0.15:
                dims.insert(rng.randrange(len(dims) + 1), rng.choice(["X", "Z", "F 1/0 2/0"]))
            out.append("D %s : %s" % (" ".join(ps), " | ".join(dims)))
        # linepart::array::set(-1) after a set
        for n in (1, 2, 65532, 65533, 65534, 131066, 131067):
            out.append("R N N 1/0*%d" % n)
            out.append("R 1/0 3/0 0/0 2/0*%d 4/0" % n)
        for _ in range(60 if quick else 600):
            out.append("R " + self.poly_frame(rng, rng.choice([1, "plain", "plain", "last", "enter"])))
        # apply_data without part records
        for n in (2, 5, 70000):
            out.append("A %d N N 1/0*%d" % (n, n // 2))
            out.append("A %d N N 1/0*%d" % (n, n + 3))
        for n in (0, 1, 2, 5, 65535, 65536, 70000, 131071):
            out.append("A %d N N 1/0*%d" % (n, max(n, 1)))
            out.append("A %d N N 1/0*%d | N N 2/0*%d" % (n, max(n, 1), max(n, 1)))
            out.append("A %d N N 1/0*%d | N N 2/0*%d | N N 3/0*%d" % (n, max(n, 1), max(n, 1), max(n, 1)))
            out.append("A %d N N 1/0*%d | X | N N 3/0*%d" % (n, max(n, 1), max(n // 2, 1)))
            out.append("A %d N N 1/0*%d | N N 2/0*%d" % (n, max(n // 2, 1), max(n, 1)))
        for _ in range(40 if quick else 400):
            n = rng.choice([1, 2, 3, 7, 20])
            out.append("A %d %s" % (n, " | ".join(" ".join(["N", "N"] + [self.rand_value(rng, "small") for _ in range(rng.choice([n, n, max(1, n - 2), n + 2]))])
                                                 for _ in range(rng.choice([1, 2, 3, 4])))))
        # the float wrappers of the record: values exact in binary32
        ws = ["0/0", "1/0", "1/1", "3/1", "-1/1", "1/16", "1/17", "65535/16", "65537/16", "16777215/24", "1/24", "3/2", "2/0"]
        for _ in range(100 if quick else 2000):
            e = rng.choice([4, 8, 16, 17, 20, 24])
            ws.append("%d/%d" % (rng.randrange(-2, (1 << e) + 3) if e <= 24 and rng.random() < 0.8 else rng.choice([0, 1, 1 << e]), e))
        ws = [w for w in ws if abs(val_of(w)[0].numerator).bit_length() <= 24]
        out += ["W " + " ".join(ws[i:i + 40]) for i in range(0, len(ws), 40)]
        return [c for c in out if poly_enabled(c)]

    def generate(self, rng, tier):
        quick = tier == "quick"
        cases = []
        n1 = self.quick_exh if quick else self.thorough_exh
        cases += self.exhaustive(ALPHA_MAIN, n1, 4 if quick else 5)
        n2 = 6 if quick else 8
        for al in (ALPHA_FRAC, ALPHA_DEGEN, ALPHA_EMPTY, ALPHA_NONE):
            cases += self.exhaustive(al, n2, 4)
        cases += self.long_runs(rng, tier)
        cases += self.join_cases(rng, tier)
        cases += self.code_cases(rng, tier)
        nr = 4000 if quick else 120000
        for i in range(nr):
            mode = ("grid", "small", "full")[i % 3]
            n = rng.choice([1, 2, 3, 5, 8, 12, 20, 40]) if i % 50 else rng.choice([100, 300])
            cases.append(self.rand_seq(rng, mode, n))
        cases += self.poly_cases(rng, tier)
        if not hasattr(self, "_rule0"):
            self._rule0 = self.rule
        self.rule = self._rule0 + " [this run: %d value sequences in %d generated cases]" % (self.sequences(cases), len(cases))
        return cases

    def run(self, tier, seed, replay=None):
        global STRICT
        STRICT = bool(replay)          # a replay file is compared without any masking
        return DiffProperty.run(self, tier, seed, replay=replay)


PROP = C18()
