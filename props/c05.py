"""C05 — managed elements in typed buffers are finalised exactly once
(mptcore/array/buffer_{set,cut,insert,alloc}.c, array_reserve.c, array_clone.c, mpt++/array.cpp, array.h)."""
import os
import vcheck
from vcheck import DiffProperty

ARITY = {"new": 4, "res": 3, "set": 5, "ins": 3, "cut": 3, "det": 2, "cln": 2, "rel": 1, "trim": 2, "skip": 2,
         "app": 2, "slen": 2, "cpy": 2, "mov": 2, "uins": 2, "ures": 2, "itest": 3, "rtest": 2}
NH = 3
END_OK = "end|live=0|leak=0"
# One switch per proposed patch under docs/ (the model is the code AS PATCHED; while a patch is not in the tree under
# test the cases that need it are not generated).  Set to True once the patch is committed in /repo.
PATCHED_SET_NOINIT_COPY = True   # docs/C05_set_noinit_copy.diff: mpt_buffer_set copies elements that have a finaliser but no
#                                   init function byte by byte (detach / reserve of a shared buffer, buffer::copy): finalised twice
PATCHED_DETACH_NOFINI = True     # docs/C05_detach_nofini.diff: detach of a private immutable buffer to fewer bytes than used,
#                                   traits without finaliser: all used bytes are copied into the smaller block (heap overflow)
PATCHED_REFARRAY_SIZE = True      # docs/C05_refarray_size.diff: reference_array<T> declares sizeof(T) as the size of its elements
#                                   (they are reference<T>, one pointer): for every T that is not pointer sized insert is refused,
#                                   resize finalises every (sizeof(T)/8)-th element only, elements stay alive after the last release
_SWITCHES = ("SET_NOINIT_COPY", "DETACH_NOFINI", "REFARRAY_SIZE")
# all patches are committed in /repo: constants, nothing at run time decides them
SHAPES = ("A", "F", "I")          # init+fini / fini only / init only (first letter of the case)
REQUIRE = ("ok: every constructor call creates a new element, every destructor call hits a live element exactly once, "
           "stored elements = live elements, nothing alive after the last release")


def cap_of(nbytes):
    """_size granted by _mpt_buffer_alloc for a request of nbytes"""
    return ((nbytes + 64 - 1) // 128 + 1) * 128 - 64


class Sim:
    """rough prediction of the buffers (element counts) used only to aim the generator"""

    def __init__(self, sz):
        self.sz = sz          # {'a': n, 'b': n}
        self.h = [None] * NH  # per handle: dict(kind, n, cap(bytes)) shared by reference

    def esz(self, k):
        return self.sz.get(k, 1)


LIBTYPES = [("id", 16), ("arr", 8), ("mref", 8), ("cfg", 32), ("cmd", 24)]


def gen_case(rng, cxx=True, fail=True, maxops=14, lib=None, shape="A", pair=False):
    """pair: the history starts with two (sometimes three) filled buffers of kind a and draws buffer::move / copy
    between DIFFERENT live handles more often (two buffers of the same traits that both hold elements are rare in
    a plain random history: handles are mostly empty or share one buffer after a clone)"""
    szs = rng.choice([(8, 16), (16, 24), (24, 8), (8, 24), (16, 8), (8, 8)])
    if lib:
        szs = (lib[1], rng.choice([8, 16, 24]))
        fail = False
    if shape == "F":
        fail = False              # no init function: the library never calls a constructor
    # cases kept out while a patch is not in the tree (see the switches above)
    nocopy_only = shape == "F" and not PATCHED_SET_NOINIT_COPY
    fmode = rng.choice(["share", "reserve"]) if nocopy_only else None
    no_imm = (shape == "I" and not PATCHED_DETACH_NOFINI) or fmode == "reserve"
    sz = {"a": szs[0], "b": szs[1], "r": 1}
    if fail and rng.random() < 0.5:
        n = rng.randrange(1, 14)
        p0 = rng.choice([0.1, 0.3, 0.6])
        script = "".join("0" if rng.random() < p0 else "1" for _ in range(n))
    else:
        script = "-"
    sim = Sim(sz)
    ops = []
    nops = rng.choice([1, 2, 3, 4, 6, 8, 10, maxops])

    def pick_h(need_buf=True):
        hs = [i for i in range(NH) if sim.h[i] is not None]
        if need_buf and hs and rng.random() < 0.92:
            return rng.choice(hs)
        return rng.randrange(NH)

    def elems(h):
        b = sim.h[h]
        return (b["n"], b["cap"] // sz[b["kind"]], sz[b["kind"]]) if b else (0, 8, sz["a"])

    def pos_bytes(h, around_cap=True):
        n, cap, s = elems(h)
        c = [0, 0, 1, n // 2, max(0, n - 1), n, n, n + 1, n + 2]
        if around_cap:
            c += [max(0, cap - 1), cap, cap + 1]
        p = rng.choice(c) * s
        if rng.random() < 0.04:
            p += rng.choice([1, 4, s // 2])
        return p

    def len_bytes(h, pos=0):
        n, cap, s = elems(h)
        room = max(0, cap - pos // s)
        c = [0, 1, 1, 2, 3, max(0, n - pos // s), room, room + 1, max(0, room - 1)]
        ln = rng.choice(c) * s
        if rng.random() < 0.04:
            ln += rng.choice([1, 4, s // 2])
        return ln

    if pair:
        for h in rng.sample(range(NH), rng.choice([2, 2, 3])):
            k = "a" if rng.random() < 0.9 else "b"
            nb = rng.choice([0, 0, 0, 160]) if not lib else 0
            f = rng.choice([0, 0, 0, 2])
            cap = cap_of(nb) // sz[k]
            n = rng.choice([0, 1, 1, 2, 3, cap // 2, max(0, cap - 1), cap])
            ops.append(["new", h, k, nb, f])
            if n:
                ops.append(["app", h, n * sz[k]])
            sim.h[h] = {"kind": k, "n": n, "cap": cap_of(nb)}
    for _ in range(nops):
        live = [i for i in range(NH) if sim.h[i] is not None]
        if not live or rng.random() < (0.04 if pair else 0.12):
            h = rng.randrange(NH)
            k = rng.choice(["a", "a", "a", "b", "r"])
            if rng.random() < 0.5 or fmode == "share":
                n = rng.choice([0, 1, 2, 3, 5, 8, 9, 20]) * sz[k]
                f = rng.choice([0, 0, 0, 0, 1, 2, 3])
                if no_imm:
                    f &= 2
                if fmode == "share":
                    f |= 2
                ops.append(["new", h, k, n, f])
                sim.h[h] = {"kind": k, "n": 0, "cap": cap_of(n)}
            else:
                n = rng.choice([0, 1, 2, 3, 5, 8, 9, 20]) * sz[k] + (rng.choice([1, 3]) if rng.random() < 0.1 else 0)
                ops.append(["res", h, k, n])
                old = sim.h[h]
                if old and old["kind"] == k and old["cap"] >= n:
                    pass
                else:
                    sim.h[h] = {"kind": k, "n": old["n"] if old and old["kind"] == k else 0, "cap": cap_of(n)}
            continue
        names = ["set", "set", "set", "ins", "ins", "cut", "cut", "det", "det", "cln", "cln", "rel", "res", "res"]
        if cxx:
            names += ["trim", "trim", "skip", "skip", "app", "slen", "slen", "cpy", "cpy", "mov"]
        if cxx and pair:
            names += ["mov"] * 6 + ["cpy"] * 5 + ["app", "app"]
        if cxx and not lib and script == "-":
            # C++ unique_array<T> on arrays of kind a (constructors of the template never fail)
            names += ["uins", "uins", "ures"]
        if lib and lib[0] == "cmd":
            # elements made by the harness carry a handler and cannot be copied: no buffer-to-buffer copies
            names = [x for x in names if x not in ("cln", "cpy")]
        if nocopy_only:
            # shared or immutable buffers carry BufferNoCopy ("share") or buffers are never shared ("reserve")
            names = [x for x in names if x not in (("cpy", "res") if fmode == "share" else ("cpy", "cln"))]
        o = rng.choice(names)
        h = pick_h()
        b = sim.h[h]
        k = b["kind"] if b else "a"
        if o == "set":
            ks = k if rng.random() < 0.9 else rng.choice(["a", "b", "r"])
            pos = pos_bytes(h)
            ln = len_bytes(h, pos)
            ops.append(["set", h, ks, pos, ln, "d" if nocopy_only else rng.choice(["c", "c", "d"])])
            if b and ks == k and (pos + ln) <= b["cap"]:
                b["n"] = max(b["n"], (pos + ln) // sz[k])
        elif o == "ins":
            pos = pos_bytes(h)
            ln = rng.choice([0, 1, 1, 2, 3]) * sz[k] + (1 if rng.random() < 0.04 else 0)
            ops.append(["ins", h, pos, ln])
            if b:
                tot = max(b["n"], pos // sz[k]) + ln // sz[k]
                if tot * sz[k] <= b["cap"]:
                    b["n"] = tot
        elif o == "cut":
            n, cap, s = elems(h)
            off = pos_bytes(h, False)
            ln = rng.choice([0, 0, 1, 1, 2, max(0, n - off // s), n, n + 1]) * s + (1 if rng.random() < 0.04 else 0)
            ops.append(["cut", h, off, ln])
            if b:
                if ln == 0:
                    b["n"] = min(b["n"], off // s) if off // s <= n else b["n"]
                elif off // s + ln // s <= n:
                    b["n"] = n - ln // s
        elif o == "det":
            n, cap, s = elems(h)
            ln = rng.choice([0, 1, max(0, n - 1), n, n + 1, cap, cap + 1, 2 * cap]) * s + (3 if rng.random() < 0.1 else 0)
            ops.append(["det", h, ln])
            if b:
                nb = dict(b)
                if ln > b["cap"]:
                    nb["cap"] = cap_of(ln)
                nb["n"] = min(n, max(ln // s, 0)) if ln // s < n else n
                sim.h[h] = nb
        elif o == "cln":
            g = rng.randrange(NH)
            ops.append(["cln", h, g])
            if sim.h[g] is not None and (b is None or b["kind"] == sim.h[g]["kind"]):
                sim.h[h] = sim.h[g]
        elif o == "rel":
            ops.append(["rel", h])
            sim.h[h] = None
        elif o == "res":
            kk = k if rng.random() < 0.75 else rng.choice(["a", "b", "r"])
            n, cap, s = elems(h)
            ln = rng.choice([0, 1, max(0, n - 1), n, n + 1, cap, cap + 1, 20]) * sz[kk] + (rng.choice([1, 3]) if rng.random() < 0.1 else 0)
            ops.append(["res", h, kk, ln])
            if b and kk == k:
                nb = dict(b)
                nb["cap"] = max(b["cap"], cap_of(ln))
                sim.h[h] = nb
            else:
                sim.h[h] = {"kind": kk, "n": 0, "cap": cap_of(ln)}
        elif o in ("trim", "skip"):
            n, cap, s = elems(h)
            ln = rng.choice([0, 1, 1, 2, max(0, n - 1), n, n + 1]) * s + (1 if rng.random() < 0.04 else 0)
            ops.append([o, h, ln])
            if b and ln // s <= n:
                b["n"] = n - ln // s
        elif o == "app":
            n, cap, s = elems(h)
            ln = rng.choice([0, 1, 1, 2, 3, max(0, cap - n), cap - n + 1]) * s + (1 if rng.random() < 0.04 else 0)
            ops.append(["app", h, ln])
            if b and n + ln // s <= cap:
                b["n"] = n + ln // s
        elif o == "slen":
            n, cap, s = elems(h)
            ln = rng.choice([0, 1, max(0, n - 1), n, n + 1, n + 2, n + 3, cap, cap + 1]) * s
            ops.append(["slen", h, ln])
            if b and ln // s <= cap:
                b["n"] = ln // s
        elif o == "uins":
            n, cap, s = elems(h)
            pos = rng.choice([0, 0, 1, n // 2, max(0, n - 1), n, n, n + 1, n + 3])
            ops.append(["uins", h, pos])
            if b and k == "a":
                b["n"] = max(n, pos) + 1
                b["cap"] = max(b["cap"], cap_of(b["n"] * s))
        elif o == "ures":
            n, cap, s = elems(h)
            nn = rng.choice([0, 1, max(0, n - 1), n, n + 1, n + 2, cap, cap + 1])
            ops.append(["ures", h, nn])
            if b and k == "a":
                b["n"] = nn
                b["cap"] = max(b["cap"], cap_of(nn * s))
        elif o in ("cpy", "mov"):
            g = rng.randrange(NH)
            others = [i for i in range(NH) if sim.h[i] is not None and sim.h[i] is not b]
            if pair and others and rng.random() < 0.85:
                g = rng.choice(others)
            ops.append([o, h, g])
            gb = sim.h[g]
            if b and gb and gb is not b and gb["kind"] == k and gb["n"] * sz[k] <= b["cap"]:
                b["n"] = gb["n"]
                if o == "mov":
                    gb["n"] = 0
    first = "L%s:%d" % lib if lib else "%s%d" % (shape, szs[0])
    return " ".join([first, "B%d" % szs[1], "s" + script] + [str(x) for o in ops for x in o])


def sweep_cases(tier="quick", shape="A"):
    """small-scope sweep: a filled buffer, optionally shared, then one operation at every element position"""
    out = []
    quick = tier == "quick"
    nocopy_only = shape == "F" and not PATCHED_SET_NOINIT_COPY
    sizes = (8, 16, 24)
    if quick and shape != "A":
        sizes = (8, 16) if shape == "F" else (16,)
    for s in sizes:
        other = {8: 16, 16: 24, 24: 8}[s]
        cap = 64 // s
        fills = range(0, cap + 1)
        if quick and s == 8:
            fills = (0, 1, 3, 7, 8)
        set_scripts = ("-", "0", "10", "100", "1100", "11010")
        if quick:
            set_scripts = ("-", "0", "10", "1100") if s == 8 else ("-", "0", "10", "100", "1100")
        few = ("-", "0", "10")
        four = ("-", "0", "10", "1110")
        if shape == "F":
            # no init function: the library calls no constructor, the script is never read
            set_scripts = few = four = ("-",)
        elif shape == "I" and quick:
            set_scripts = ("-", "10")
            few = four = ("-", "0")
        srcs = ("d",) if nocopy_only else ("c", "d")
        for n in fills:
            # elements of traits without init function are made by the caller: append + construct
            # (shared or immutable buffers of such elements carry BufferNoCopy while the patch is not in)
            fill = (["new", 0, "a", 0, 2 if nocopy_only else 0]
                    + (["app", 0, n * s] if shape == "F" else ["set", 0, "a", 0, n * s, "c"]))
            for sharedp in (0, 1):
                pre = fill + (["cln", 1, 0] if sharedp else [])
                tail = []
                for p in range(0, cap + 2):
                    for ln in range(0, cap + 2 - min(p, cap)):
                        for script in set_scripts:
                            for src in srcs:
                                tail.append((script, ["set", 0, "a", p * s, ln * s, src]))
                        tail.append(("-", ["cut", 0, p * s, ln * s]))
                        for script in few:
                            tail.append((script, ["ins", 0, p * s, ln * s]))
                for ln in range(0, cap + 2):
                    for script in four:
                        tail.append((script, ["det", 0, ln * s]))
                        tail.append((script, ["det", 0, (cap + 1 + ln) * s]))
                        tail.append((script, ["res", 0, "a", ln * s]))
                        tail.append((script, ["res", 0, "a", (cap + 1 + ln) * s]))
                        tail.append((script, ["slen", 0, ln * s]))
                    tail.append(("-", ["res", 0, "b", ln * other]))
                    tail.append(("-", ["res", 0, "r", ln]))
                    tail.append(("-", ["trim", 0, ln * s]))
                    tail.append(("-", ["skip", 0, ln * s]))
                    tail.append(("-", ["app", 0, ln * s]))
                    tail.append(("-", ["uins", 0, ln]))
                    tail.append(("-", ["ures", 0, ln]))
                    tail.append(("-", ["ures", 0, cap + 1 + ln]))
                for script, t in tail:
                    out.append(" ".join(["%s%d" % (shape, s), "B%d" % other, "s" + script] + [str(x) for x in pre + t]))
        # C++ unique_array<T> starting from the empty array (static dummy buffer)
        for a in range(0, cap + 3):
            for b2 in range(0, cap + 3):
                out.append("%s%d B%d s- uins 0 %d uins 0 %d ures 0 %d" % (shape, s, other, a, b2, a))
                out.append("%s%d B%d s- ures 0 %d uins 0 %d cln 1 0 uins 1 %d ures 0 %d" % (shape, s, other, a, b2, a, b2))
    if shape != "A":
        return out
    # item_array<T>::compact on library items: every pattern of empty / filled items
    for n in range(1, 5 if quick else 7):
        for names in (0, 1):
            ops = []
            for mask in range(0, 1 << n):
                ops += ["itest", mask, n, names]
            out.append(" ".join(["A8", "B16", "s-"] + [str(x) for x in ops]))
    return out


def pair_cases(tier="quick", shape="A"):
    """TWO buffers: buffer::move / buffer::copy from handle 1 into handle 0 in every fill combination (target empty /
    shorter / equal / longer than the source, source empty), elements made by the caller (append + construct), then one
    more operation on the target or on the source (whose stale bytes lie behind _used = 0 after a move) and the release
    of both; target or source shared with a third handle; blocks of 64 and 192 bytes (target too small); source of the
    other element type / raw; the buffer itself as source (same handle, clone)"""
    out = []
    quick = tier == "quick"
    for s in (8, 16, 24):
        other = {8: 16, 16: 24, 24: 8}[s]
        cap = 64 // s
        big = 192 // s
        hdr = ["%s%d" % (shape, s), "B%d" % other]
        fills = range(0, cap + 1)
        if quick and s == 8:
            fills = (0, 1, 3, 7, 8)

        def mk(h, k, n, nbytes=0, flags=0, es=s):
            return ["new", h, k, nbytes, flags] + (["app", h, n * es] if n else [])

        def emit(script, ops):
            out.append(" ".join(hdr + ["s" + script] + [str(x) for x in ops]))
        scripts = {"A": ("-", "0", "10", "110"), "F": ("-",), "I": ("-", "10")}[shape]
        posts = ([], ["trim", 0, s], ["skip", 0, s], ["app", 0, s], ["app", 1, s], ["slen", 1, 2 * s], ["ins", 1, s, s],
                 ["set", 1, "a", s, s, "d"], ["mov", 1, 0], ["cpy", 1, 0], ["mov", 0, 1], ["cpy", 0, 1], ["uins", 1, 1])
        for n0 in fills:
            for n1 in fills:
                pre = mk(0, "a", n0) + mk(1, "a", n1)
                for post in posts:
                    emit("-", pre + ["mov", 0, 1] + post)
                    for sc in scripts:
                        if sc == "-" or not post or post[0] in ("cpy", "slen"):
                            emit(sc, pre + ["cpy", 0, 1] + post)
                # target / source shared with a third handle, immutable, NoCopy
                for o in ("mov", "cpy"):
                    emit("-", pre + ["cln", 2, 0, o, 0, 1])
                    emit("-", pre + ["cln", 2, 1, o, 0, 1])
                    emit("-", pre + ["cln", 2, 1, o, 0, 1, "det", 2, n1 * s])
                    for f0, f1 in ((1, 0), (0, 1), (2, 2), (3, 3)):
                        emit("-", mk(0, "a", n0, 0, f0) + mk(1, "a", n1, 0, f1) + [o, 0, 1])
        # blocks of different capacity: target too small for the source / large target, small source
        for n0 in (0, 1, cap):
            for n1 in (0, 1, cap, cap + 1, big):
                for o in ("mov", "cpy"):
                    emit("-", mk(0, "a", n0) + mk(1, "a", n1, 160) + [o, 0, 1])
                    emit("-", mk(0, "a", n1, 160) + mk(1, "a", n0) + [o, 0, 1])
                    emit("-", mk(0, "a", n1, 160) + mk(1, "a", n0) + [o, 0, 1, o, 1, 0])
        # other element type / raw data on one side (refused: nothing may be finalised), raw to raw
        for n0 in (0, 1, cap):
            for n1 in (0, 1, 2):
                for o in ("mov", "cpy"):
                    emit("-", mk(0, "a", n0) + mk(1, "b", min(n1, 64 // other), es=other) + [o, 0, 1])
                    emit("-", mk(0, "b", min(n1, 64 // other), es=other) + mk(1, "a", n0) + [o, 0, 1])
                    emit("-", mk(0, "a", n0) + ["new", 1, "r", 0, 0, "set", 1, "r", 0, n1 * s, "d"] + [o, 0, 1])
                    emit("-", ["new", 0, "r", 0, 0, "set", 0, "r", 0, n1 * s, "d"] + mk(1, "a", n0) + [o, 0, 1])
                    emit("-", ["new", 0, "r", 0, 0, "set", 0, "r", 0, n1 * s, "d", "new", 1, "r", 0, 0,
                               "set", 1, "r", 0, n0 * s, "d"] + [o, 0, 1])
        # the buffer itself as source
        for n0 in (0, 1, cap):
            for o in ("mov", "cpy"):
                emit("-", mk(0, "a", n0) + [o, 0, 0])
                emit("-", mk(0, "a", n0) + ["cln", 1, 0, o, 0, 1])
                emit("-", mk(0, "a", n0) + [o, 0, 1] + mk(1, "a", 1) + [o, 1, 2])
    return out


def ref_cases(rng, tier="quick"):
    """mpt::reference_array<T> (rtest <sizeof T> <script>): directed scripts around the allocation steps of the block
    (64 bytes = 8 references, 192 = 24, 320 = 40, 448 = 56) and random scripts; object sizes other than 8 need
    docs/C05_refarray_size.diff"""
    sizes = (8, 16, 24) if PATCHED_REFARRAY_SIZE else (8,)
    out = []
    steps = (0, 1, 2, 7, 8, 9, 23, 24, 25, 39, 40, 41, 56, 57)
    for sz in sizes:
        scripts = []
        for n in steps:
            fill = ["i%d.%d" % (k, k + 1) for k in range(min(n, 60))]
            base = ",".join(fill)
            pre = base + "," if base else ""
            scripts.append(pre + "n")
            for m in (0, 1, n - 1, n, n + 1, 8, 24, 40, -1, -n, -n - 1):
                scripts.append(pre + "r%d,n" % m)
                scripts.append(pre + "v%d,n,r%d" % (m, max(0, m)))
            for p in (0, 1, n - 1, n, n + 1, n + 3, -1, -n, -n - 1, 8, 24, 40):
                scripts.append(pre + "i%d.99,n" % p)
                scripts.append(pre + "s%d.99,n,c99" % p)
            scripts.append(pre + "c,n,k,r0")
            scripts.append(pre + "c1,c%d,c77,k,n,r%d,i0.98" % (max(1, n), max(0, n - 1)))
            scripts.append(pre + "r%d,k,i%d.97,k,c" % (n + 5, n + 7))
            scripts.append(pre + "r0,i3.96,k,r1,r0")
        # first and last reference of a block that is filled by resize
        for n in (8, 24, 40, 56):
            for d in (-1, 0, 1):
                m = n + d
                scripts.append("r%d,s0.1,s%d.2,s-1.3,n,r%d,n" % (m, m - 1, m - 1))
                scripts.append("r%d,s0.1,s-1.2,i%d.3,n,c,r0" % (m, m))
        for sc in scripts:
            out.append("A8 B8 s- rtest %d %s" % (sz, sc))
    for _ in range(300 if tier == "quick" else 6000):
        sz = rng.choice(sizes)
        ln, nid, ops = 0, 1, []
        for _ in range(rng.choice([3, 5, 8, 12, 20, 40])):
            op = rng.choice("iiiiisssrrrvckkn")
            pos = rng.choice([0, 1, ln // 2, ln - 1, ln, ln + 1, ln + 3, -1, -ln, -ln - 1, 8, 24, 40, rng.randrange(-3, ln + 4)])
            if op in "is":
                if nid > 250:
                    continue
                ops.append("%s%d.%d" % (op, pos, nid)); nid += 1
                if op == "i":
                    q = pos + ln if pos < 0 else pos
                    if q >= 0: ln = max(ln, q) + 1
            elif op in "rv":
                n = rng.choice([0, 1, ln - 1, ln, ln + 1, 8, 9, 24, 25, 40, -1, -ln, -ln - 1])
                ops.append("%s%d" % (op, n))
                if op == "r" and n >= 0: ln = n
            elif op == "c":
                ops.append("c" if rng.random() < 0.4 else "c%d" % rng.randrange(1, max(2, nid)))
            else:
                ops.append(op)
            if ln > 120:
                ops.append("r3"); ln = 3
        out.append("A8 B8 s- rtest %d %s" % (sz, ",".join(ops)))
    return out


def stale_cases(tier="quick", shape="A"):
    """histories that leave STALE BYTES behind the used data and then grow over them: n elements, remove some (cut at the
    front / in the middle / at the end, trim, skip, set_length, resize: a memmove leaves a byte copy of the last moved
    element behind _used, a finaliser leaves a finalised pattern), then every operation that makes slots behind the used
    data part of the content at every position up to the capacity (insert strictly beyond the end, set beyond the end,
    set_length, resize, unique_array insert), then release"""
    out = []
    quick = tier == "quick"
    sizes = (8, 16, 24)
    if quick:
        sizes = (8, 16) if shape == "F" else (16,)
    for s in sizes:
        other = {8: 16, 16: 24, 24: 8}[s]
        cap = 64 // s
        fills = range(1, cap + 1)
        if quick and s == 8:
            fills = (1, 2, 3, 5, 8)
        for n in fills:
            fill = ["new", 0, "a", 0, 0] + (["app", 0, n * s] if shape == "F" else ["set", 0, "a", 0, n * s, "c"])
            shrinks = []
            for k in sorted(set([1, n] if quick else [1, 2, n])):
                if k > n:
                    continue
                shrinks += [["cut", 0, 0, k * s], ["skip", 0, k * s], ["trim", 0, k * s], ["slen", 0, (n - k) * s],
                            ["ures", 0, n - k], ["cut", 0, (n - k) * s, 0], ["cut", 0, (n - k) * s, k * s]]
                if n - k >= 2:
                    shrinks.append(["cut", 0, s, k * s])
            for sh in shrinks:
                left = n - (sh[-1] // s if sh[0] in ("cut", "skip", "trim") and sh[-1] else 0)
                if sh[0] == "slen":
                    left = sh[2] // s
                elif sh[0] == "ures":
                    left = sh[2]
                elif sh[0] == "cut" and sh[3] == 0:
                    left = sh[2] // s
                grows = []
                for p in range(left, (min(cap, left + 3) if quick else cap) + 1):
                    for ln in ((0, 1) if quick and shape != "F" else (0, 1, 2)):
                        if p + ln <= cap + 1 and (p > left or ln):
                            grows.append(["ins", 0, p * s, ln * s])
                            grows.append(["set", 0, "a", p * s, ln * s, "d"])
                    if p > left:
                        grows.append(["slen", 0, p * s])
                        grows.append(["ures", 0, p])
                        grows.append(["uins", 0, p])
                for g in grows:
                    out.append(" ".join(["%s%d" % (shape, s), "B%d" % other, "s-"] + [str(x) for x in fill + sh + g]))
                # two rounds: shrink, grow, shrink again, grow again
                out.append(" ".join(["%s%d" % (shape, s), "B%d" % other, "s-"]
                                    + [str(x) for x in fill + sh + ["ins", 0, (left + 1) * s, s] + ["cut", 0, 0, s]
                                       + ["slen", 0, min(cap, left + 3) * s]]))
    return out


def imm_cases(tier="quick", shape="A"):
    """BufferImmutable: a filled immutable buffer (private / shared), then every operation that looks at the flag (detach to
    every size, reserve, insert, set_length, unique_array insert / resize) at every element count"""
    out = []
    quick = tier == "quick"
    if shape == "I" and not PATCHED_DETACH_NOFINI:
        return out
    nocopy_only = shape == "F" and not PATCHED_SET_NOINIT_COPY
    for s in ((16,) if quick else (8, 16, 24)):
        other = {8: 16, 16: 24, 24: 8}[s]
        cap = 64 // s
        for flags in ((3,) if nocopy_only else (1, 3)):
            for n in range(0, cap + 1):
                fill = ["new", 0, "a", 0, flags] + (["app", 0, n * s] if shape == "F" else ["set", 0, "a", 0, n * s, "c"])
                for sharedp in (0, 1):
                    pre = fill + (["cln", 1, 0] if sharedp else [])
                    tail = []
                    for ln in range(0, cap + 3):
                        tail.append(["det", 0, ln * s])
                        tail.append(["res", 0, "a", ln * s])
                        tail.append(["slen", 0, ln * s])
                        tail.append(["uins", 0, ln])
                        tail.append(["ures", 0, ln])
                        tail.append(["ins", 0, ln * s, s])
                    tail.append(["det", 0, 20 * s])
                    tail.append(["res", 0, "b", other])
                    for t in tail:
                        if nocopy_only and t[0] == "res" and sharedp:
                            continue
                        out.append(" ".join(["%s%d" % (shape, s), "B%d" % other, "s-"] + [str(x) for x in pre + t + ["det", 0, s]]))
            # a block of 192 bytes, detached to sizes that get a smaller block (64 bytes)
            big = 192 // s
            for n in (big // 2 - 1, big // 2 + 1, big):
                fill = ["new", 0, "a", 160, flags] + (["app", 0, n * s] if shape == "F" else ["set", 0, "a", 0, n * s, "d"])
                for sharedp in (0, 1):
                    pre = fill + (["cln", 1, 0] if sharedp else [])
                    for t in (["det", 0, 0], ["det", 0, s], ["det", 0, 64], ["det", 0, 64 + s], ["det", 0, n * s],
                              ["ures", 0, 1], ["uins", 0, 0]):
                        out.append(" ".join(["%s%d" % (shape, s), "B%d" % other, "s-"] + [str(x) for x in pre + t]))
    return out


class C05(DiffProperty):
    pid = "C05"
    claimed = True
    coq_dir = "C05"
    extract_vo = "C05/Extract.vo"
    mlname = "c05_model"
    driver = "c05_driver.ml"
    harness_src = "c05_typed.cpp"
    harness_args = ("60",)
    libs = ["mptcore", "mpt++"]
    harness_env = dict(vcheck.ASAN_LEAK_ENV,
                       ASAN_OPTIONS=vcheck.ASAN_LEAK_ENV["ASAN_OPTIONS"] + ":symbolize=0"
                       # fresh heap memory is never zero (a zero slot is the empty element of traits without init)
                       + ":max_malloc_fill_size=1048576:malloc_fill_byte=190")
    extra_harness_flags = ["-fno-sanitize=vptr"]
    rule = ("a case = SHAPE of the two harness traits (A init+fini / F fini only, the shape of reference_array<T> / I init only) "
            "and their element sizes (8/16/24) or a library element type (identifier, array, metatype "
            "reference, config item, command) + script of failing constructor calls + a history over 3 handles of "
            "new(len,flags immutable/nocopy) / mpt_array_reserve(same type, other type, raw) / mpt_buffer_set(with and without source "
            "elements) / mpt_buffer_insert+construct / mpt_buffer_cut / vtable detach / mpt_array_clone (share) / release / C++ "
            "buffer::trim, skip, append, copy, move, content<T>::set_length, unique_array<T>::insert, resize / item_array::compact "
            "scenario; quick: small-scope sweep = every fill 0..capacity of a 64-byte buffer (8/16/24-byte elements; subset of fills "
            "for 8) x unshared/shared x one operation at EVERY element position and length inside, at the end of, behind the data "
            "and behind the buffer, each with 4-5 constructor-failure scripts, plus unique_array from the empty array and every "
            "empty/filled pattern of <= 4 items for compact, plus 2500 random histories (<= 14 ops, positions drawn around used "
            "and capacity, 4% misaligned) with harness traits and 830 with library element types; the same sweep for shape F "
            "(8/16-byte elements, elements made by the caller through append) and shape I (16-byte elements); STALE-BYTES "
            "histories for every shape = n elements, then every way to remove some (cut at the front / in the middle / at the end, "
            "cut ending exactly at the end of the data, skip, trim, set_length, resize: a memmove leaves a byte copy of the last "
            "moved element behind _used, a finaliser leaves a finalised pattern), then every operation that makes slots behind the "
            "used data content again (insert strictly beyond the end, set beyond the end, set_length, unique_array insert/resize) "
            "at the positions up to 3 behind the end, and a two-round shrink/grow; IMMUTABLE buffers (private/shared, 64 and 192 "
            "bytes) x every operation that looks at the flag x every size; 800 + 500 random histories of shapes F and I; "
            "TWO BUFFERS (pair_cases, every shape, element sizes 8/16/24): buffer::move and buffer::copy from handle 1 into "
            "handle 0 in EVERY fill combination of a 64-byte target and a 64-byte source (target empty / shorter / equal / "
            "longer than the source, source empty; elements made by the caller), followed by nothing or one more operation "
            "(trim, skip, append on the target; append, set_length, insert, set, unique_array insert on the emptied source "
            "whose stale element bytes lie behind _used; move / copy back or again), copy with 2-4 constructor-failure "
            "scripts, target or source shared with a third handle (then detached), immutable / NoCopy flags, blocks of 64 "
            "and 192 bytes (source larger than the target's block: refused), source of the other element type / raw data "
            "on either side / raw to raw (refused resp. plain), the buffer itself as source (same handle, clone); plus "
            "1500 random histories that start with two or three filled buffers and draw move / copy between different "
            "live handles with high weight (all shapes and library element types); "
            "thorough: full sweeps + 60000 + 20000 + 20000 + 20000 random histories (<= 25 ops); cases that need a patch of "
            "docs/C05_*.diff are left out while its PATCHED_ switch is off (shape F: source data for mpt_buffer_set, "
            "buffer::copy, shared or immutable buffers without BufferNoCopy; shape I: immutable buffers); the class template "
            "mpt::reference_array<T> itself (rtest <sizeof T> <script>: T = reference-counted object of 8 / 16 / 24 bytes, script "
            "of insert(pos, new T) / set(pos, new T) / resize / reserve / clear() / clear(object) / compact / count with "
            "positions and lengths at 0, 1, len-1, len, len+1, negative, and at the allocation steps of the block: 8, 24, 40, 56 "
            "references +-1; every step compared with a plain list of object ids, at the end every object deleted exactly "
            "once): 14 fills x 60 directed scripts + 300 random scripts; object sizes 16 / 24 need docs/C05_refarray_size.diff "
            "(PATCHED_REFARRAY_SIZE); a case is non-trivial "
            "when it runs at least one operation (all are); distinct = distinct case text")
    modelled = ("mptcore/array/buffer_set.c, buffer_cut.c, buffer_insert.c, buffer_alloc.c (alloc size, get_flags, addref, unref, detach), "
                "array_reserve.c, array_clone.c; mpt++/array.cpp buffer::trim/skip/append/copy/move (move = finaliser on "
                "every target element, memcpy of the source's element bytes = the same tokens, source _used = 0 without any "
                "call; copy = mpt_buffer_set(this, traits, 0, source elements) + trim of the rest); mptcore/array.h "
                "content<T>::set_length, unique_array<T>::reserve/insert/resize transcribed in coq/C05/TypedModel.v (byte offsets, "
                "element slots carrying tokens, ghost event log, constructor failure script), with the SHAPE of the content traits "
                "as a parameter (which branches run the init loop / the zero fill / the finaliser loops); mpt_buffer_set and the "
                "move path of detach AS PATCHED by docs/C05_set_noinit_copy.diff and docs/C05_detach_nofini.diff; "
                "unique_array<T>::reserve as of /repo 3c052e7/3169847. Element types of the library "
                "(array_traits.c, meta_reference_traits.c, config_item_traits.c, command_traits.c, identifier.c) and "
                "item_array<T>::compact are NOT modelled individually: they are driven through the same histories / a self-checking "
                "scenario with ASan + LeakSanitizer + reference counters as observers (events and tokens compared only for the "
                "harness traits). Not modelled: raw byte contents, compatible-but-different traits (same fini and size), traits "
                "with neither init nor fini (plain data: C04), malloc failure, mpt_array_set/mpt_array_slice/append/insert (C04), "
                "_mpt_buffer_map. mpt::reference_array<T> (insert / set / clear / count / compact over unique_array<reference<T>>, "
                "content traits with a finaliser only = shape F of the model) is compared with a plain-list specification INSIDE "
                "the harness (self-checking scenario rtest, reference counters + ASan + LeakSanitizer as observers), AS PATCHED by "
                "docs/C05_refarray_size.diff; its mechanism underneath (unique_array insert / resize / reserve on fini-only traits, "
                "buffer::trim, mpt_buffer_insert) is the modelled one")
    trusted = ["harness/c05_typed.cpp: traits whose init/fini log events and store magic+token in the element; state read back from "
               "the data area independently of the library; mpt++/array.cpp compiled into the harness with -fno-sanitize=vptr "
               "(buffers carry the C vtable)",
               "shape F: the all-zero pattern is the empty element (fini on it is silent); the harness takes note of every zero "
               "slot inside the used data right after the library call that produced it (it becomes element <next token>, event "
               "i<t>), the model logs the same at the memset; fresh heap memory is never zero (ASAN malloc_fill_byte). Shape I: "
               "nothing is printed when an element leaves the content; the abandon steps of the model are ghosts (not compared), "
               "the log is judged by monitor_nf (= the full monitor on the log completed by the abandon events, theorem "
               "C05_monitor_nofini_complete)",
               "the specification monitor of coq/C05/TypedSpec.v is run (extracted) on the log printed by the IMPLEMENTATION; "
               "ml/c05_driver.ml parses that log",
               "allocation header 64 bytes / page 128 bytes are constants of the driver (a change shows as a size difference)"]
    level_text = ("proof: Coq theorems C05_elements_exactly_once (every history over any number of handles, any positions/lengths, any "
                  "script of failing constructors, followed by the release of all handles: no step faults, no buffer is left, the event "
                  "log satisfies exactly_once - one Init per token, Fini only on a live element, copies only from live elements, never a "
                  "destructor or copy on non-element memory - and every initialised token is finalised), "
                  "C05_stored_is_live_at_every_point (after every prefix: live tokens = used element slots of the allocated buffers, each "
                  "once), C05_shared_copy_constructs (detach of a shared typed buffer logs exactly one Init-from per element, fresh "
                  "tokens, source untouched; traits with init function), C05_shared_noinit_refused (fini-only traits: detach of a shared "
                  "buffer with elements is refused and nothing changes, no bytes duplicated), C05_step_never_faults, "
                  "C05_monitor_sound, C05_monitor_nofini_complete, C05_move_finalises_target_takes_source (buffer::move "
                  "between two different typed buffers of the same traits after any history, any fill of both: exactly one "
                  "destructor call per element the target held, first to last, nothing else logged, the target then holds "
                  "the source's tokens, the source is empty, nothing else changes), C05_move_refused_changes_nothing (self "
                  "move, other traits, block too small: no event, no change), C05_copy_finalises_target_constructs_copies "
                  "(traits with init: destructor calls for the first n target elements, one copy construction per source "
                  "element in order with fresh tokens, destructor calls for the rest of the target; source untouched), "
                  "C05_copy_noinit_refused (fini-only traits, source with elements: refused, nothing changes) "
                  "- every theorem over an environment e holds for all three shapes of "
                  "the content traits (eshape e: init+fini, fini only with zero-filled gaps adopted as empty elements, init only "
                  "with ghost abandon steps); the model is tied to the code on every run by "
                  "differential execution of histories (events compared one by one, state read back, live set empty at the end) under "
                  "ASan/UBSan/LeakSanitizer, and the extracted monitor judges the log the implementation printed")
    level_note = ("trusted: Coq kernel; hand transcription of the C/C++ loops (validated by the correspondence run, not verified); "
                  "extraction and OCaml driver; harness. Theorems are closed under the global context. Library element types and "
                  "item_array::compact are covered at correspondence level only (sanitizers and counters as observers); "
                  "the theorem about shared copies assumes constructors that succeed and a type that allows copies; "
                  "compatible-but-different traits and traits with neither init nor fini are out of the model. "
                  "OPEN in /repo (found with the shapes F and I; the model is the code as patched, the switches PATCHED_SET_NOINIT_COPY / "
                  "PATCHED_DETACH_NOFINI in props/c05.py keep the triggering cases out until the patches are committed): "
                  "mpt_buffer_set copies elements that have a finaliser but no init function byte by byte - detach / "
                  "mpt_array_reserve of a shared or immutable buffer without BufferNoCopy and buffer::copy finalise every element "
                  "twice (docs/C05_set_noinit_copy.diff, docs/C05_replay_set_noinit_copy.json); detach of a private immutable buffer "
                  "to fewer bytes than used copies ALL used bytes into the smaller block when the traits have no finaliser - heap "
                  "overflow, also for arrays of plain typed data (docs/C05_detach_nofini.diff, docs/C05_replay_detach_nofini.json). "
                  "Coverage round 5: the class template reference_array<T> was executed by no check; driven now by the "
                  "self-checking scenario rtest (specification = plain list inside the harness, no Coq model of its own). "
                  "OPEN in /repo: reference_array<T> declares sizeof(T) as the size of its elements although they are "
                  "reference<T> (one pointer): for every T that is not pointer sized (mpt++ uses layout and cycle) insert is "
                  "always refused, resize finalises only every (sizeof(T)/8)-th reference and the others stay alive after the "
                  "last handle is gone (docs/C05_refarray_size.diff, docs/C05_replay_refarray_size.json, switch "
                  "PATCHED_REFARRAY_SIZE keeps object sizes 16 / 24 out until the patch is committed).")
    technique = ("Coq invariant proof over an event-logging heap model (closed forms of the byte-offset loops, frame lemma per operation, "
                 "fold over histories) + runtime monitor extracted from the Coq specification + differential correspondence check")
    assumptions = ["malloc succeeds", "element constructors/destructors of the harness traits have no effect besides the log and the element bytes",
                   "traits without init function: the all-zero byte pattern is a valid empty element whose finaliser does nothing "
                   "(mpt::reference<T> holding a null pointer)",
                   "allocation header of _mpt_buffer_alloc is 64 bytes, page 128 bytes (checked by the size observable)"]

    def corpus(self):
        """a corpus line `@SET_NOINIT_COPY <case>` is used only when all the named PATCHED_ switches are on"""
        out = []
        for line in DiffProperty.corpus(self):
            if line.startswith("@"):
                need, line = line[1:].split(None, 1)
                if not all(globals().get("PATCHED_" + n, False) for n in need.split(",")):
                    continue
            out.append(line)
        return out

    def split(self, case):
        t = case.split()
        hdr, rest = t[:3], t[3:]
        ops = []
        i = 0
        while i < len(rest):
            n = ARITY[rest[i]]
            ops.append(rest[i:i + n + 1])
            i += n + 1
        return hdr, ops

    def shrink_candidates(self, case):
        hdr, ops = self.split(case)
        for k in range(1, len(ops)):
            yield self.join(hdr, ops[:k])
        for k in range(len(ops)):
            yield self.join(hdr, ops[:k] + ops[k + 1:])
        for k, o in enumerate(ops):
            if o[0] == "rtest":
                parts = o[2].split(",")
                for j in range(len(parts)):
                    if len(parts) > 1:
                        yield self.join(hdr, ops[:k] + [o[:2] + [",".join(parts[:j] + parts[j + 1:])]] + ops[k + 1:])
        s = hdr[2][1:]
        if s != "-":
            yield self.join(hdr[:2] + ["s-"], ops)
            if len(s) > 1:
                yield self.join(hdr[:2] + ["s" + s[:-1]], ops)
                yield self.join(hdr[:2] + ["s" + s[1:]], ops)
        # smaller numbers
        for k, o in enumerate(ops):
            for j in range(2, len(o)):
                if o[j].isdigit() and int(o[j]) > 0 and o[0] not in ("cln", "cpy", "mov"):
                    v = int(o[j])
                    esz = int(hdr[0].split(":")[-1].lstrip("AFI"))
                    for nv in (0, v - esz, v // 2 // esz * esz):
                        if 0 <= nv < v and not (o[0] == "new" and j == 4):
                            o2 = o[:j] + [str(nv)] + o[j + 1:]
                            yield self.join(hdr, ops[:k] + [o2] + ops[k + 1:])

    def classify(self, case):
        hdr, ops = self.split(case)
        cl = set()
        for o in ops:
            cl.add("op:" + o[0])
        if hdr[2] != "s-" and "0" in hdr[2]:
            cl.add("failing-constructor")
        names = [o[0] for o in ops]
        if "cln" in names:
            cl.add("shared")
        if names.count("new") >= 2 and ("mov" in names or "cpy" in names):
            # buffer::move / copy with two buffers in play (fill combinations: pair_cases)
            cl.add("two-buffers:" + "+".join(n for n in ("mov", "cpy") if n in names))
        if len(ops) > 3:
            cl.add("history>3")
        cl.add(("libtype:" if hdr[0][0] == "L" else "size:") + hdr[0])
        cl.add("shape:" + {"A": "init+fini", "F": "fini-only", "I": "init-only", "L": "library-type"}[hdr[0][0]])
        if hdr[0][0] in "FI":
            # slots behind the used data become content again after something was removed
            grow = [i for i, n in enumerate(names) if n in ("ins", "set", "slen", "ures", "uins", "app")]
            shr = [i for i, n in enumerate(names) if n in ("cut", "skip", "trim", "slen", "ures")]
            if grow and shr and min(shr) < max(grow):
                cl.add("shrink-then-grow")
        return cl

    def generate(self, rng, tier):
        cases = []
        for sh in SHAPES:
            cases += sweep_cases(tier, sh) + stale_cases(tier, sh) + imm_cases(tier, sh) + pair_cases(tier, sh)
        n = 2500 if tier == "quick" else 60000
        mo = 14 if tier == "quick" else 25
        for i in range(n):
            cases.append(gen_case(rng, maxops=mo))
        for i in range(n // 3):
            cases.append(gen_case(rng, maxops=mo, lib=LIBTYPES[i % len(LIBTYPES)]))
        for i in range(800 if tier == "quick" else 20000):
            cases.append(gen_case(rng, maxops=mo, shape="F"))
        for i in range(500 if tier == "quick" else 20000):
            cases.append(gen_case(rng, maxops=mo, shape="I"))
        cases += ref_cases(rng, tier)
        # two or three filled buffers, buffer::move / copy between different handles (all shapes, library types)
        for i in range(1500 if tier == "quick" else 30000):
            kind = i % 6
            if kind < 3:
                cases.append(gen_case(rng, maxops=mo, shape=SHAPES[kind], pair=True))
            elif kind < 5:
                cases.append(gen_case(rng, maxops=mo, shape=SHAPES[kind - 3], pair=True, fail=False))
            else:
                cases.append(gen_case(rng, maxops=mo, lib=LIBTYPES[(i // 6) % len(LIBTYPES)], pair=True))
        return cases

    # -- two passes: the specification monitor judges the log the implementation printed
    def evaluate(self, cases, workdir, tagsuffix=""):
        hx = vcheck.build_harness(self.harness_src, self.libs, extra=self.extra_harness_flags)
        mx = vcheck.build_model(self.mlname, self.driver, self.extract_vo)
        ided = ["c%d %s" % (i, c) for i, c in enumerate(cases)]
        I, e1 = vcheck.run_cases(hx, ided, workdir, "impl" + tagsuffix, env=self.harness_env, args=self.harness_args)
        Itok = I.get("I", {})
        ided2 = ["c%d %s @@ %s" % (i, c, " ".join(Itok.get("c%d" % i, ["F"]))) for i, c in enumerate(cases)]
        M, e2 = vcheck.run_cases(mx, ided2, workdir, "model" + tagsuffix)
        res = []
        for i, c in enumerate(cases):
            k = "c%d" % i
            res.append(self.compare(c, Itok.get(k), M.get("M", {}).get(k), M.get("S", {}).get(k)))
        return res, e1 + e2

    def compare(self, case, it, mt, st):
        r = {"corr": None, "spec": None, "I": it, "M": mt, "S": st}
        if it is None or mt is None or st is None:
            r["corr"] = (-1, "missing output", "I=%s M=%s S=%s" % (it is not None, mt is not None, st is not None))
            return r
        for j in range(max(len(it), len(mt))):
            a = it[j] if j < len(it) else "<none>"
            b = mt[j] if j < len(mt) else "<none>"
            if a != b:
                r["corr"] = (j, a, b)
                break
        for j, v in enumerate(st):
            if v != "ok":
                a = it[j] if j < len(it) else "<none>"
                r["spec"] = (j, "%s  [%s]" % (a, v), REQUIRE)
                break
        return r


PROP = C05()
