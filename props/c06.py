"""C06 — type registry hands out unique, stable, correctly described types
(mptcore/types/type_traits.c, types.h, alias_typeid.c, type_int.c, message/msgvalfmt.c, mpt++/type_traits_wrap.cpp)."""
import os, re
import vcheck
from vcheck import DiffProperty

ARITY = {"ba": 1, "ga": 2, "ia": 1, "ma": 1, "baN": 2, "gaN": 2, "iaN": 2, "maN": 2, "lt": 1, "li": 1, "lm": 1,
         "ln": 2, "al": 2, "ti": 1, "tu": 1, "vs": 1, "vt": 1, "vc": 1, "sw": 0, "fin": 0,
         "pi": 2, "pt": 1, "pb": 1, "pv": 1, "ps": 1, "tb": 0, "px": 1}
# slots of harness/c06_tpl.cpp = g_slots of coq/C06/TplModel.v (marker "tpl")
NSLOTS = 34
FIXED_SLOTS = list(range(0, 17))
GEN_SLOTS = list(range(17, 25))
SPANC_SLOTS = list(range(25, 34))
# operations the C++ wrappers of mpt++/type_traits_wrap.cpp offer (cases with the marker "cxx")
CXX_OPS = ("ba", "ga", "ia", "ma", "baN", "gaN", "iaN", "maN", "lt", "ln")

BUILTIN_NAMES = ["convertable", "logger", "reply", "output", "object", "config", "iterator", "collection", "solver", "metatype"]
ALIASES = ["log", "iter", "out", "meta"]
# ids at the ends of every range of types.h and around them
EDGE_IDS = sorted(set(
    [0, 1, 2, 4, 5, 8, 9, 0xb, 0x18, 0x19, 0x1a, 0x1f, 0x20, 0x3f, 0x40, 0x41, 0x43, 0x59, 0x5a, 0x5f, 0x60, 0x61, 0x63,
     0x65, 0x73, 0x7a, 0x7b, 0x7f, 0x80, 0x81, 0x88, 0x89, 0x8f, 0x90, 0x91, 0xbe, 0xbf, 0xc0, 0xc1, 0xfe, 0xff, 0x100,
     0x101, 0x102, 0x11d, 0x11e, 0x11f, 0x7e9, 0x7ea, 0x7fe, 0x7ff, 0x800, 0x801, 0x802, 0x803, 0x804, 0x8ff, 0x900, 0x901,
     0x91d, 0x91e, 0x91f, 0x93b, 0xfe9, 0xfea, 0xffe, 0xfff, 0x1000, 0x1001, 0x10ff, 0x1100, 0x12345, 2**32, 2**63, 2**64 - 1]))


class C06(DiffProperty):
    pid = "C06"
    coq_dir = "C06"
    extract_vo = "C06/Extract.vo"
    mlname = "c06_model"
    driver = "c06_driver.ml"
    harness_src = "c06_types.c"
    libs = ["mptcore"]
    rule = ("case = history of registry operations run in a fresh process: registrations (basic size, generic traits incl. NULL/size 0, "
            "named interface, named metatype; single or repeated n times) interleaved with lookups by id (mpt_type_traits, "
            "mpt_interface_traits, mpt_metatype_traits), by name (full/alias, length-limited with every length around the name length, "
            "mpt_alias_typeid descriptions) and the type_int/msgvalfmt helpers; 'sw' looks up every id 0..0x1100 and, for every named id, "
            "its name in both lookup modes; 'fin' = process exit (the atexit clean-up functions run in exit order through seams for atexit/free: "
            "every block reachable from the statics freed exactly once, nothing else freed, statics reset), operations after it see the registry a "
            "later exit handler would see; cases marked 'cxx' run the same registrations/lookups through the C++ wrappers of "
            "mpt++/type_traits_wrap.cpp (ints incl. negative and INT_MIN/INT_MAX for type_traits::get(int), default arguments); cases marked 'tpl' "
            "(harness/c06_tpl.cpp) drive the template layer of mptcore/types.h: type_properties<T>::id(obtain) and ::traits() for 34 instantiations "
            "(13 built-in scalars/strings, value, convertable*, iterator*, source<double>*; 4 user structs/classes through the primary template; "
            "T* for a user and a built-in pointee; span<T> of both; span<const T> for double, char, const char*, long double, int32_t, value, two user "
            "types and a pointer), in both slot orders, without and with obtaining, repeated, element type registered before and after its span, "
            "interleaved with registrations through the wrappers, with the generic range exhausted before / in between (1789..1792 foreign "
            "registrations); traits() is compared by size, init/fini presence and by whether type_traits::get(id(false)) is the very same object; "
            "the init/fini functions of the primary template are run on a scratch object (op px); basetype(id) for every range end and "
            "MPT_type_toVector/toScalar for 0x3e..0x7c and outliers. Classes: every capacity reached and exceeded (64 basic, 48+16 interfaces, 1791+1 metatypes, "
            "1792 generic), counts at chunk multiples of 30 +-1, duplicate/cross-kind/builtin/alias/short names, ids at every range end; "
            "a case is non-trivial when it registers something or looks something up; distinct = distinct case text")
    modelled = ("mptcore/types/type_traits.c (all entry points), types/alias_typeid.c, types/type_int.c, message/msgvalfmt.c transcribed in "
                "coq/C06/TypesModel.v (mechanism model M: slot table, positions, chunk lists) over constants and tables regenerated from the "
                "source by harness/c06_probe.c (coq/C06/Gen_Types.v); abstract specification S in coq/C06/RegistrySpec.v (finite map id -> "
                "(kind, description, optional name), finite map name -> id, one next-free counter per kind over the ranges of types.h; "
                "fresh state built from the independent list g_ctype_sizes); abstraction function and output projection in RegistryAbs.v; "
                "mpt++/type_traits_wrap.cpp: type_traits::get(int) as OpWrapTraits (int -> uintptr_t conversion), the other wrappers are "
                "the forwarded operations; process exit: state reset to the fresh registry, fini_counts = released registered entries/chunks "
                "(which built-in tables exist at exit depends on lazy creation, which is modelled as done at start and therefore not "
                "compared); the template layer of mptcore/types.h (type_properties<T>::id/traits for the primary template, T*, span<T>, "
                "span<const T> and the full specialisations; basetype; MPT_type_toVector/toScalar; behaviour of _init/_fini) in coq/C06/TplModel.v: "
                "written ONCE, generic in the registry it talks to (through type_traits::add = OpTypeAdd and type_traits::get(int) = OpWrapTraits "
                "only), state = the function-local statics (_valtype per instantiation, cached traits pointer of span<const T>), instantiated with "
                "the mechanism model (M) and with the specification (S); slot table g_slots mirrored by harness/c06_tpl.cpp (sizeof checked by "
                "static_assert and op tb); malloc failure is not modelled; "
                "errno/error-code kinds and the raw positions of a sweep are compared between code and M but are not part of S")
    trusted = ["harness/c06_wrap.cpp and harness/c06_tpl.cpp compile mpt++/type_traits_wrap.cpp into their own translation units (same source, no mpt++ archive)",
               "harness/c06_tpl.cpp: the instantiation table (34 types) is hand-written and must match g_slots of coq/C06/TplModel.v (sizes compared by op tb, "
               "kinds by the behaviour of every case); the test classes (a 24-byte struct, a class whose constructor stores 7 and destructor stores 0, ...) are defined there",
               "harness/c06_probe.c: the list of C types each named built-in id stands for (ctypes[]) is hand-written from types.h; everything else "
               "in Gen_Types.v is read from the included type_traits.c or obtained by calling the code",
               "harness/c06_types.c runs each case in a forked child of a parent that never touches the registry; it reads "
               "interface_pos/dynamic_pos/chunk fill directly from the static variables of the included type_traits.c",
               "malloc/calloc succeed"]
    level_text = ("proof: Coq theorems over ALL histories of registry operations (invariant + induction over the operation list). "
                  "(1) Refinement M [= S: C06_step_refines_spec (for every state satisfying the invariant and EVERY operation - add basic / "
                  "traits / interface / metatype accepted, refused and exhausted, lookups by id, by name full and length-limited, alias "
                  "descriptions, helpers, sweep - the abstract specification run on abs(state) reaches abs(new state) with the same "
                  "observation), C06_history_refines_spec (induction over operation lists), C06_fresh_state (abs of the mechanism's "
                  "initial tables IS the specification's initial registry built from the independent sizeof list: computed over the "
                  "regenerated tables for all ids 0..g_ValueMax) and C06_fresh_refines_spec; the only hypothesis is op_wf: an id argument "
                  "fits uintptr_t. (2) The property on S: C06_spec_ids_unique, C06_spec_ids_in_kind_range, C06_spec_lookup_stable, "
                  "C06_spec_refusal_preserves, transferred to the mechanism by C06_ids_unique_via_spec, C06_ids_in_kind_range_via_spec, "
                  "C06_lookup_stable_via_spec, C06_builtins_exactly_listed (every id the fresh registry describes is a listed built-in with "
                  "the sizeof of its C type AND every listed one is described so after every history); C06_cxx_get_transparent (the C++ "
                  "wrapper get(int) is mpt_type_traits on non-negative ints and finds nothing on negative ones, for all ints) and "
                  "C06_exit_releases_registered (the atexit clean-up releases as many registered entries as ids were handed out). (2b) The C++ template "
                  "layer of types.h (coq/C06/TplSim.v, TplProps.v; histories = template calls interleaved with ANY wrapper operations, from a fresh "
                  "process): C06_tpl_refines_spec (the layer over M and the layer over S run in lock step: same cached ids, same cached descriptions, same "
                  "answers up to the error code - proved generically for any two registries that simulate each other, instantiated with "
                  "C06_step_refines_spec), C06_tpl_id_stable (an id cached for an instantiation is cached after any further history and is what every later "
                  "id() answers, obtaining or not), C06_tpl_ids_distinct (two instantiations never share a registered id), C06_tpl_id_described (id() "
                  "answers the constant of a specialisation / an id of the generic range that the registry describes with the very description object of "
                  "that instantiation: sizeof T, init/fini / for span<const T> such an id or the vector id of the built-in element / or a refusal - nothing "
                  "else), C06_tpl_traits_size (traits() of every instantiation hands out a non-null description whose size is sizeof of the C++ type, "
                  "whichever of cache / registry / own object it comes from), C06_basetype_range, C06_basetype_metaptr. (3) Direct theorems on the mechanism "
                  "model, no op_wf: C06_ids_unique, C06_issued_fresh, C06_ids_in_kind_range, C06_lookup_stable, C06_name_id_bijection, "
                  "C06_dup_or_short_refused, C06_exhaustion_preserves, C06_exhausted_refused, C06_no_fault, C06_builtin_sizes_correct / "
                  "C06_helpers_consistent (finite sweeps over the generated tables). All facts about generated bounds/tables are re-checked "
                  "by computation whenever a table changes. M and S are both run against an ASan/UBSan build of the current tree on every "
                  "run (fresh process per history, capacities reached and exceeded, all ids 0..0x1100 swept): I vs M token by token, "
                  "I vs S after dropping error kinds and mechanism positions")
    level_note = ("trusted: Coq kernel; hand transcription of type_traits.c/alias_typeid.c/type_int.c/msgvalfmt.c (validated by the "
                  "correspondence run, not verified); the probe's list of C types behind the built-in ids; extraction and OCaml driver; "
                  "harness (incl. the atexit/free seams and the block census of 'fin', which is written against the statics, not against "
                  "the clean-up code). Not modelled: malloc failure; the ORDER of lazy table creation (hence which built-in tables exist at "
                  "exit) - the harness checks those blocks itself. The template theorems are about the 34 instantiations of the slot table (kinds: "
                  "specialisation, primary/pointer/span<T>, span<const T> over a specialised or generic element - nested span<const span<..>> is "
                  "not in the table); an id is kept as the C++ int it is (int_wrap at type_traits::get). value::operator=(T) / value::get<T> / "
                  "assign<T> / convertable::operator T* (users of id(true)) and mpt::source<T> are not modelled here. "
                  "The refinement theorems assume op_wf (ids < 2^g_WordBits, i.e. representable as uintptr_t); finite maps of S are "
                  "sorted association lists (canonical, so state refinement is an equation). "
                  "All 33 theorems are closed under the global context (no axioms). No defect was found in the template layer (three hand-made "
                  "breaking changes in types.h are caught, see docs/notes_C06.md).")
    technique = "Coq refinement proof (mechanism model [= finite-map specification, every operation, all histories) + invariant proofs + generated-table sweep + differential correspondence check"
    assumptions = ["malloc/calloc succeed", "the caller keeps registered generic traits objects alive and unchanged",
                   "single-threaded use of the registry"]

    # ---------------------------------------------------------------- probe: regenerate coq/C06/Gen_Types.v
    def probe(self):
        dst = os.path.join(vcheck.COQ, "C06", "Gen_Types.v")
        try:
            exe = vcheck.build_harness("c06_probe.c", ["mptcore"])
            rc, o = vcheck.sh([exe], env=vcheck.ASAN_ENV, timeout=60)
        except Exception as ex:  # the tree does not build: the harness build reports it
            vcheck.log("[C06] probe failed: %s" % str(ex)[-400:])
            return
        if rc != 0 or not o.startswith("(* GENERATED"):
            vcheck.log("[C06] probe run failed (exit %s): %s" % (rc, o[-400:]))
            return
        old = open(dst).read() if os.path.exists(dst) else None
        if old != o:
            with vcheck.locked("coq"):
                with open(dst, "w") as fh:
                    fh.write(o)
            vcheck.log("[C06] Gen_Types.v regenerated from %s (content changed)" % vcheck.REPO)

    def warm(self):
        vcheck.build_harness("c06_probe.c", ["mptcore"])
        vcheck.build_harness(self.harness_src, self.libs, extra=self.extra_harness_flags)
        vcheck.build_harness(self.cxx_harness_src, self.libs)
        vcheck.build_harness(self.tpl_harness_src, self.libs)
        vcheck.build_model(self.mlname, self.driver, self.extract_vo)

    # ---------------------------------------------------------------- two harness binaries
    # cases that start with the marker "cxx" are run through the C++ wrappers (harness/c06_wrap.cpp, which
    # compiles mpt++/type_traits_wrap.cpp into its translation unit), the others through harness/c06_types.c
    cxx_harness_src = "c06_wrap.cpp"
    # cases that start with the marker "tpl" drive the template layer of mptcore/types.h (harness/c06_tpl.cpp)
    tpl_harness_src = "c06_tpl.cpp"

    @staticmethod
    def is_tpl(case):
        return case.split()[:1] == ["tpl"]

    @staticmethod
    def is_cxx(case):
        return case.split()[:1] == ["cxx"]

    def evaluate(self, cases, workdir, tagsuffix=""):
        hx = vcheck.build_harness(self.harness_src, self.libs, extra=self.extra_harness_flags)
        mx = vcheck.build_model(self.mlname, self.driver, self.extract_vo)
        ided = ["c%d %s" % (i, c) for i, c in enumerate(cases)]
        c_cases = [l for l, c in zip(ided, cases) if not self.is_cxx(c) and not self.is_tpl(c)]
        x_cases = [l for l, c in zip(ided, cases) if self.is_cxx(c)]
        t_cases = [l for l, c in zip(ided, cases) if self.is_tpl(c)]
        I, errs = {"I": {}}, []
        if c_cases:
            r, e = vcheck.run_cases(hx, c_cases, workdir, "impl" + tagsuffix, env=self.harness_env, args=self.harness_args)
            I["I"].update(r.get("I", {})); errs += e
        if x_cases:
            cx = vcheck.build_harness(self.cxx_harness_src, self.libs)
            r, e = vcheck.run_cases(cx, x_cases, workdir, "implcxx" + tagsuffix, env=self.harness_env, args=self.harness_args)
            I["I"].update(r.get("I", {})); errs += e
        if t_cases:
            tx = vcheck.build_harness(self.tpl_harness_src, self.libs)
            r, e = vcheck.run_cases(tx, t_cases, workdir, "impltpl" + tagsuffix, env=self.harness_env, args=self.harness_args)
            I["I"].update(r.get("I", {})); errs += e
        M, e2 = vcheck.run_cases(mx, ided, workdir, "model" + tagsuffix)
        res = []
        for i, c in enumerate(cases):
            k = "c%d" % i
            res.append(self.compare(c, I["I"].get(k), M.get("M", {}).get(k), M.get("S", {}).get(k)))
        return res, errs + e2

    # ---------------------------------------------------------------- views
    def project(self, tok):
        if tok.startswith("R:"):
            return "R"
        if tok.startswith("N:"):
            return re.sub(r":R:[^:]*$", ":R", tok)
        if tok.startswith("W:"):
            return tok.split("|Z:")[0]
        return tok

    def split(self, case):
        t = case.split()
        hdr = []
        if t[:1] in (["cxx"], ["tpl"]):
            hdr, t = t[:1], t[1:]
        ops = []
        i = 0
        while i < len(t):
            n = ARITY.get(t[i], 0)
            if t[i] == "ga" and i + 1 < len(t) and t[i + 1] == "null":
                n = 1
            ops.append(t[i:i + n + 1])
            i += n + 1
        return hdr, ops

    def shrink_candidates(self, case):
        hdr, ops = self.split(case)
        n = len(ops)
        if n > 1:
            for k in range(n):
                yield self.join(hdr, [ops[k]])
            for k in range(1, n):
                yield self.join(hdr, ops[k:])
            for k in range(1, n):
                yield self.join(hdr, ops[:k])
        for k in range(n):
            yield self.join(hdr, ops[:k] + ops[k + 1:])
        for k, o in enumerate(ops):
            if o[0] in ("baN", "gaN", "iaN", "maN"):
                c = int(o[1])
                for c2 in (0, 1, 2, c // 2, c - 30, c - 1):
                    if 0 <= c2 < c:
                        yield self.join(hdr, ops[:k] + [[o[0], str(c2), o[2]]] + ops[k + 1:])
            if o[0] == "sw":
                for i in (0xb, 0x40, 0x80, 0x90, 0xc0, 0x100, 0x101, 0x900):
                    yield self.join(hdr, ops[:k] + [["lt", hex(i)]] + ops[k + 1:])

    def classify(self, case):
        hdr, ops = self.split(case)
        cl = set()
        if hdr == ["tpl"]:
            cl.add("cxx-templates")
            seen = {}
            for o in ops:
                if o[0] in ("pi", "pt"):
                    k = int(o[1])
                    kind = "fixed" if k in FIXED_SLOTS else ("generic" if k in GEN_SLOTS else "span-const")
                    cl.add("tpl:%s:%s" % (o[0], kind))
                    if o[0] == "pi":
                        if o[2] == "0":
                            cl.add("tpl:id-without-obtain")
                        if seen.get(k):
                            cl.add("tpl:repeated-instantiation")
                        if o[2] != "0":
                            seen[k] = True
        elif hdr:
            cl.add("cxx-wrappers")
            if any(o[0] == "lt" and int(o[1], 0) < 0 for o in ops):
                cl.add("cxx-negative-id")
        tot = {"b": 0, "g": 0, "i": 0, "m": 0}
        names = []
        for o in ops:
            cl.add("op:" + o[0])
            if o[0] in ("ba", "ga", "ia", "ma") and not (o[0] == "ga" and o[1] == "null"):
                tot[o[0][0]] += 1
            if o[0] in ("baN", "gaN", "iaN", "maN"):
                tot[o[0][0]] += int(o[1])
            if o[0] in ("ia", "ma"):
                nm = o[1]
                if nm == "-":
                    cl.add("anonymous")
                elif nm == "%" or len(nm) < 4:
                    cl.add("short-name")
                if nm in names:
                    cl.add("duplicate-name")
                if nm in BUILTIN_NAMES:
                    cl.add("builtin-name")
                if nm in ALIASES:
                    cl.add("alias-name")
                names.append(nm)
            if o[0] == "ln" and o[2] not in ("-1", "d"):
                cl.add("length-limited-lookup")
            if o[0] in ("lt", "li", "lm") and int(o[1], 0) >= 0x1000 and not hdr:
                cl.add("id-beyond-shared-range")
        for k, cap, lab in (("b", 64, "basic"), ("g", 1792, "generic"), ("i", 48, "interface"), ("m", 1791, "metatype")):
            if tot[k] >= cap:
                cl.add("capacity-reached:" + lab)
            if tot[k] > cap:
                cl.add("capacity-exceeded:" + lab)
        for k in ("g", "m"):
            if tot[k] >= 29:
                cl.add("chunk-boundary")
        if any(o[0] == "fin" for o in ops):
            cl.add("exit-cleanup")
            k = [i for i, o in enumerate(ops) if o[0] == "fin"][0]
            if k + 1 < len(ops):
                cl.add("life-after-cleanup")
        if len(ops) > 1:
            cl.add("history")
        return cl

    # ---------------------------------------------------------------- generator
    def rand_name(self, rng, pool):
        r = rng.random()
        if r < 0.35 and pool:
            return rng.choice(pool)
        if r < 0.45:
            return rng.choice(BUILTIN_NAMES)
        if r < 0.52:
            return rng.choice(ALIASES)
        if r < 0.60:
            return rng.choice(["-", "%", "a", "ab", "abc", "abcd", "abcde"])
        if r < 0.66:
            return rng.choice(["mpt.io", "mpt.input", "a_b_c", "x:yz1", "name_:_x", "iterator2", "logg", "loggers"])
        n = rng.choice([3, 4, 4, 5, 6, 8, 12])
        return "".join(rng.choice("abcxyz019.") for _ in range(n))

    def lookup_ops(self, rng, pool, ids):
        o = []
        r = rng.random()
        if r < 0.3:
            i = rng.choice(ids + EDGE_IDS)
            o.append(rng.choice(["lt", "li", "lm"]) + " " + hex(i))
        elif r < 0.65:
            nm = self.rand_name(rng, pool + BUILTIN_NAMES)
            base = len(nm) if nm not in ("-", "%") else 0
            ln = rng.choice([-1, -1, -7, 0, base, base, base - 1, base + 1, 1, 3, 4])
            if rng.random() < 0.3 and nm not in ("-", "%"):
                nm = nm + rng.choice(["x", "_tail", ":z", "1"])
            o.append("ln %s %d" % (nm, ln))
        elif r < 0.9:
            nm = self.rand_name(rng, pool + BUILTIN_NAMES + ALIASES)
            if nm in ("-", "%"):
                d = nm
            else:
                d = nm + rng.choice(["", "", ":", ":sym", "_:_sym", "__:__sym_x", "_:", "_:_", ":_a:b", "_x"])
            if rng.random() < 0.1:
                d = rng.choice([":", "_:", "__:x", ":abc", "_", "%", "-"])
            o.append("al %s %d" % (d, rng.choice([0, 1, 1])))
        else:
            o.append(rng.choice(["ti %d" % rng.randrange(0, 18), "tu %d" % rng.randrange(0, 18),
                                 "vs %d" % rng.randrange(256), "vt %d" % rng.randrange(256), "vc %d" % rng.randrange(-2, 300)]))
        return o

    def history(self, rng, nops):
        pool, ids, ops = [], [], []
        nb = ng = ni = nm_ = 0
        for _ in range(nops):
            r = rng.random()
            if r < 0.5:
                ops += self.lookup_ops(rng, pool, ids)
                continue
            k = rng.choice(["ba", "ga", "ia", "ia", "ma", "ma", "N"])
            if k == "ba":
                ops.append("ba %d" % rng.choice([0, 1, 2, 4, 8, 24, 255, 256, 65536, 2**40]))
                ids.append(0xc0 + nb)
                nb += 1
            elif k == "ga":
                if rng.random() < 0.1:
                    ops.append("ga null")
                else:
                    sz = rng.choice([0, 1, 8, 8, 16, 24, 40, 4096])
                    ops.append("ga %d %d" % (sz, rng.randrange(4)))
                    if sz:
                        ids.append(0x900 + ng)
                        ng += 1
            elif k in ("ia", "ma"):
                nm = self.rand_name(rng, pool)
                ops.append("%s %s" % (k, nm))
                if nm not in ("-", "%"):
                    pool.append(nm)
                if k == "ia":
                    ids.append(0x90 + ni)
                    ni += 1
                else:
                    ids.append(0x101 + nm_)
                    nm_ += 1
            else:
                kk = rng.choice(["baN", "gaN", "iaN", "maN"])
                c = rng.choice([1, 2, 5, 28, 29, 30, 31, 59, 60, 61, 65])
                if kk in ("baN", "gaN"):
                    ops.append("%s %d %d" % (kk, c, rng.choice([0, 4, 8, 16])))
                else:
                    pre = rng.choice(["nm", "type", "a", "it", "x.y"]) + chr(ord("a") + len(pool) % 26)
                    ops.append("%s %d %s" % (kk, c, pre))
                    pool += [pre + str(i) for i in (0, 1, c - 1)]
        ops.append("sw")
        return " ".join(ops)

    def cxx_history(self, rng, nops):
        """a history that uses only what the C++ wrappers offer (marker "cxx")"""
        pool, ids, ops = [], [], []
        nb = ng = ni = nm_ = 0
        for _ in range(nops):
            r = rng.random()
            if r < 0.45:
                if rng.random() < 0.5:
                    i = rng.choice(ids + [x for x in EDGE_IDS if x < 2**31] + [-1, -128, -0x90, -4096, -2**31, 2**31 - 1])
                    ops.append("lt %d" % i)
                else:
                    nm = self.rand_name(rng, pool + BUILTIN_NAMES + ALIASES)
                    base = len(nm) if nm not in ("-", "%") else 0
                    ops.append("ln %s %s" % (nm, rng.choice(["d", "d", "-1", "0", str(base), str(base - 1), str(base + 1), "4"])))
                continue
            k = rng.choice(["ba", "ga", "ia", "ia", "ma", "ma", "N"])
            if k == "ba":
                ops.append("ba %d" % rng.choice([0, 1, 8, 24, 256, 2**40]))
                ids.append(0xc0 + nb)
                nb += 1
            elif k == "ga":
                sz = rng.choice([0, 1, 8, 16, 24, 4096])
                ops.append("ga %d %d" % (sz, rng.randrange(4)))
                if sz:
                    ids.append(0x900 + ng)
                    ng += 1
            elif k in ("ia", "ma"):
                nm = self.rand_name(rng, pool)
                ops.append("%s %s" % (k, nm))
                if nm not in ("-", "%"):
                    pool.append(nm)
                if k == "ia":
                    ids.append(0x90 + ni)
                    ni += 1
                else:
                    ids.append(0x101 + nm_)
                    nm_ += 1
            else:
                kk = rng.choice(["baN", "gaN", "iaN", "maN"])
                c = rng.choice([1, 2, 29, 30, 31, 65])
                if kk in ("baN", "gaN"):
                    ops.append("%s %d %d" % (kk, c, rng.choice([0, 8, 16])))
                else:
                    pre = rng.choice(["nm", "type", "x.y"]) + chr(ord("a") + len(pool) % 26)
                    ops.append("%s %d %s" % (kk, c, pre))
                    pool += [pre + str(i) for i in (0, c - 1)]
        ops += ["lt %d" % i for i in ids[-6:]]
        return "cxx " + " ".join(ops)

    def cxx_cases(self, rng, tier):
        ints = [-2**31, -2**31 + 1, -65536, -4096, -0x900, -256, -0x90, -129, -128, -1, 0, 1, 0xb, 0x18, 0x40, 0x63, 0x69, 0x80,
                0x81, 0x88, 0x89, 0x90, 0xbf, 0xc0, 0xff, 0x100, 0x101, 0x7ff, 0x800, 0x803, 0x804, 0x900, 0xfff, 0x1000, 65536,
                2**31 - 1]
        cases = ["cxx " + " ".join("lt %d" % i for i in ints)]
        cases.append("cxx " + " ".join("ln %s d ln %s -1 ln %s %d ln %sx %d" % (n, n, n, len(n), n, len(n)) for n in BUILTIN_NAMES + ALIASES)
                     + " ln - d ln % d ln - 3")
        cases.append("cxx ia hello ma hello ln hello d ln hello 5 lt 144 lt 257 ma world ia world ln world d lt -144")
        cases.append("cxx ma logger ia iter ia meta ma abc ia abc ia - ma - ia - lt 144 lt 145 lt 257 ln logger d ln iter d")
        cases.append("cxx ga 8 3 ga 0 0 ga 24 1 ba 0 ba 5 lt 2304 lt 2305 lt 2306 lt 192 lt 193 lt 194 lt -2304")
        for c in (63, 64, 65):
            cases.append("cxx baN %d 3 lt 255 lt 254 ba 9 lt %d" % (c, 0xc0 + c - 1))
        for c in (47, 48, 49):
            cases.append("cxx iaN %d iface lt 191 lt 190 ia extra1 ia - ln iface0 d ln iface47 d" % c)
        for c in ((29, 30, 31, 1791, 1792) if tier == "quick" else (1, 29, 30, 31, 59, 60, 61, 1790, 1791, 1792, 1800)):
            cases.append("cxx maN %d meta lt 256 lt %d lt %d ma last1 ma - ln meta%d d" % (c, 0x100 + c, 0x101 + c, c - 1))
            cases.append("cxx gaN %d 24 lt 2304 lt %d lt %d ga 8 3 ga 16 1" % (c, 0x900 + c - 1, 0x900 + c))
        for i in range(40 if tier == "quick" else 3000):
            cases.append(self.cxx_history(rng, rng.choice([3, 6, 10, 16, 25])))
        return cases

    # ---- G. the template layer of types.h
    def tpl_history(self, rng, nops):
        ops = []
        ng = 0
        for _ in range(nops):
            r = rng.random()
            k = rng.choice(GEN_SLOTS + SPANC_SLOTS + GEN_SLOTS + SPANC_SLOTS + FIXED_SLOTS)
            if r < 0.35:
                ops.append("pi %d %d" % (k, rng.choice([1, 1, 1, 0])))
            elif r < 0.6:
                ops.append("pt %d" % k)
            elif r < 0.7:
                ops.append("ga %d %d" % (rng.choice([1, 8, 16, 24]), rng.randrange(4)))
                ng += 1
            elif r < 0.76:
                ops.append("gaN %d 8" % rng.choice([1, 2, 28, 29, 30, 31]))
            elif r < 0.88:
                ops.append("lt %d" % rng.choice([0x900 + rng.randrange(0, 40), 0x900, 0x901, 68, 67, 83, 69, 73, 0x19, 0x80, 0x86, 100,
                                                 -3, 0, 0x8ff, 0xfff]))
            elif r < 0.92:
                ops.append(rng.choice(["ba 8", "ia -", "ma -", "ia hello", "ln iterator d"]))
            elif r < 0.935:
                ops.append("px %d" % rng.choice(GEN_SLOTS + [0, 25, 28]))
            elif r < 0.96:
                ops.append("pb %s" % hex(rng.choice(EDGE_IDS + [0x802, 0x801, 0x80, 0x100, 0x7ff, 0x800, 0x803, 0xff, 0x100])))
            else:
                ops.append("%s %d" % (rng.choice(["pv", "ps"]), rng.choice([-3, 0, 0x3f, 0x40, 0x41, 0x59, 0x5a, 0x5b, 0x5f, 0x60, 0x61,
                                                                             0x64, 0x7a, 0x7b, 0x80, 0x160, 0x164, 0x900, 0x961, 2**31 - 1, -2**31])))
        return "tpl " + " ".join(ops)

    def tpl_cases(self, rng, tier):
        allk = list(range(NSLOTS))
        cases = ["tpl tb"]
        # every slot: id without obtaining, traits, id obtained twice, traits again; in both slot orders
        for order in (allk, allk[::-1]):
            cases.append("tpl " + " ".join("pi %d 0" % k for k in order))
            cases.append("tpl " + " ".join("pi %d 0 pt %d pi %d 1 pi %d 1 pi %d 0 pt %d" % (k, k, k, k, k, k) for k in order))
            cases.append("tpl " + " ".join("pt %d pt %d pi %d 1" % (k, k, k) for k in order))
            cases.append("tpl " + " ".join("pi %d 1" % k for k in order) + " " + " ".join("pi %d 1 pt %d" % (k, k) for k in order)
                         + " " + " ".join("lt %d" % (0x900 + i) for i in range(16)))
        # element type registered before / after its span<const T>
        cases.append("tpl pi 17 1 pi 28 0 pi 28 1 pt 28 pi 28 1 pt 17 lt 2304 lt 2305")
        cases.append("tpl pi 28 0 pi 28 1 pi 17 1 pi 28 1 pt 28 pt 17 lt 2304 lt 2305")
        cases.append("tpl pt 28 pi 28 0 pi 17 0 pi 17 1 pt 28 lt 2304 lt 2305")
        cases.append("tpl pi 21 1 pi 32 1 pt 32 pi 32 1 pi 21 1")
        cases.append("tpl pi 25 0 pt 25 pi 25 1 lt 68 pi 31 0 pt 31 lt 69 pi 26 0 pt 26 lt 67 pi 27 0 pt 27 lt 83 pi 33 0 pt 33 lt 73 pi 30 0 pt 30 pi 30 1 pt 30")
        # interleaved with other registrations: the ids move, the cached ones do not
        cases.append("tpl ga 8 0 pi 17 1 ga 8 0 pi 18 1 pi 17 1 gaN 30 8 pi 19 1 pi 17 1 pi 18 1 pt 17 pt 18 pt 19 lt 2304 lt 2305 lt 2307 lt 2338")
        # the generic range runs out: refused (and retried), earlier ids and descriptions stay
        for c in (1789, 1790, 1791, 1792):
            cases.append("tpl pi 17 1 gaN %d 8 pi 18 1 pi 19 1 pi 28 1 pi 18 1 pi 17 1 pt 17 pt 18 pt 19 pt 28 pt 29 pi 29 1 pi 18 0 lt 2304 lt 4095" % c)
        cases.append("tpl gaN 1792 8 " + " ".join("pi %d 1 pt %d" % (k, k) for k in allk))
        cases.append("tpl " + " ".join("px %d" % k for k in allk) + " pi 18 1 px 18 pt 18 px 17")
        cases.append("tpl " + " ".join("pb %s" % hex(i) for i in EDGE_IDS if i < 2**32))
        cases.append("tpl " + " ".join("pv %d ps %d" % (i, i) for i in list(range(0x3e, 0x7d)) + [-3, -1, 0, 1, 0x80, 0x140, 0x160, 0x900, 0x961]))
        # the id arithmetic of the header macros on WIDE ids (a range test that looks at the low byte only is right for 0..255)
        for lo in range(0x100, 0x1100, 0x400):
            cases.append("tpl " + " ".join("pv %d ps %d" % (i, i) for i in range(lo, lo + 0x400)))
        # a user type whose generic id has any low byte: n other registrations first, then the type and its span<const T>
        for n in list(range(0, 300, 5)) + [0x5e, 0x5f, 0x60, 0x61, 0x79, 0x7a, 0x7b, 0x15f, 0x160, 0x17a, 0x17b]:
            cases.append("tpl gaN %d 8 pi 17 1 pi 28 1 pt 28 pi 28 0 pi 21 1 pi 32 1 pt 32 pi 17 0" % n)
        for i in range(60 if tier == "quick" else 4000):
            cases.append(self.tpl_history(rng, rng.choice([4, 8, 12, 20, 30])))
        return cases

    def generate(self, rng, tier):
        cases = []
        # A. the fresh registry: every id, every range end, every built-in name in every mode
        cases.append("sw")
        cases.append(" ".join("lt %s" % hex(i) for i in EDGE_IDS))
        cases.append(" ".join("li %s" % hex(i) for i in EDGE_IDS) + " " + " ".join("lm %s" % hex(i) for i in EDGE_IDS))
        for nm in BUILTIN_NAMES + ALIASES:
            cases.append(" ".join("ln %s %d" % (nm, l) for l in [-1, 0, 1, len(nm) - 1, len(nm), len(nm) + 1])
                         + " ln %sx %d ln %sx -1 al %s 1 al %s:x 1 al %s__:__x_y 1 al %s_ 0" % (nm, len(nm), nm, nm, nm, nm, nm))
        cases.append("ln - -1 ln % -1 ln - 0 ln % 3 al - 1 al % 1 al : 1 al _: 1 al _:_ 1 al :x 0 al logger 0 al logger: 1 al logger:_ 1 al log:x 1 al _logger:x 1")
        # E. helpers: all sizes / formats / types
        cases.append(" ".join("ti %d tu %d" % (n, n) for n in range(0, 20)) + " ti 64 tu 4294967296")
        cases.append(" ".join("vs %d vt %d" % (f, f) for f in range(256)))
        cases.append(" ".join("vc %d" % t for t in list(range(-3, 260)) + [356, 0x165, 65536 + 105]))
        # C. names: duplicates within and across kinds, built-in and alias names, short names
        for a in ("ia", "ma"):
            for b in ("ia", "ma"):
                cases.append("%s hello %s hello ln hello -1 ln hello 5 al hello:x 1 li 0x90 lm 0x101 sw" % (a, b))
                cases.append("%s - %s - %s hello %s - ln hello -1 sw" % (a, b, a, b))
            for nm in BUILTIN_NAMES + ALIASES + ["%", "a", "ab", "abc", "abcd", "abcde", "a_b_", "ab:c", "x:yz1"]:
                cases.append("%s %s ln %s -1 ln %s %d li 0x90 lm 0x101 lt 0x90 lt 0x101 sw" % (a, nm, nm, nm, max(len(nm), 1)))
            cases.append("%s abcdef ln abcdef 6 ln abcdefg 6 ln abcde 6 ln abcdef 5 ln abcdefg -1 al abcdef_:x 1 al abcdef_x 1 al abcdefg:x 1" % a)
        # B. capacities: up to, at and beyond; chunk multiples
        for c in (63, 64, 65, 70):
            cases.append("baN %d 3 lt 0xff lt 0xfe ba 9 lt %s sw" % (c, hex(0xc0 + c - 1)))
        for c in (47, 48, 49):
            cases.append("iaN %d iface li 0xbf li 0xbe ia extra1 ia - ln iface0 -1 ln iface47 -1 sw" % c)
        gen_counts = [1, 29, 30, 31, 59, 60, 61, 1769, 1770, 1771, 1791, 1792, 1793] if tier == "quick" else \
                     [1, 2, 29, 30, 31, 59, 60, 61, 89, 90, 91, 900, 1739, 1740, 1741, 1769, 1770, 1771, 1790, 1791, 1792, 1793, 1800, 1830]
        for c in gen_counts:
            cases.append("gaN %d 24 lt 0x900 lt %s lt %s ga 8 3 ga 0 0 ga 16 1 sw" % (c, hex(0x900 + c - 1), hex(0x900 + c)))
        meta_counts = [28, 29, 30, 31, 59, 1790, 1791, 1792] if tier == "quick" else \
                      [1, 28, 29, 30, 31, 58, 59, 60, 61, 900, 1768, 1769, 1770, 1771, 1789, 1790, 1791, 1792, 1800]
        for c in meta_counts:
            cases.append("maN %d meta lm 0x100 lm %s lm %s ma last1 ma - ma meta0 ln meta%d -1 sw" % (c, hex(0x100 + c), hex(0x101 + c), c - 1))
        cases.append("baN 70 3 gaN 1800 8 iaN 50 name maN 1800 meta ba 1 ga 8 0 ia over1 ma over2 ia - ma - sw")
        cases.append("sw baN 64 1 sw iaN 48 ab. sw maN 100 ab. sw gaN 100 5 sw ba 1 ia zzzzz ma zzzzz sw")
        # D. random mixed histories (stability: lookups repeated after further registrations, final sweep)
        nh = 230 if tier == "quick" else 20000
        for i in range(nh):
            cases.append(self.history(rng, rng.choice([3, 6, 10, 16, 25, 40])))
        if tier != "quick":
            for i in range(40):
                c1, c2 = rng.randrange(1700, 1800), rng.randrange(1700, 1800)
                cases.append("gaN %d 8 maN %d q%d. %s" % (c1, c2, i, self.history(rng, 12)))
        # G. process exit: the atexit clean-up after every kind of history, and the registry a later exit handler sees
        cases.append("fin")
        cases.append("fin sw fin")
        cases.append("sw fin sw")
        cases.append("ba 1 fin ba 2 lt 0xc0 lt 0xc1 fin")
        cases.append("ia hello ma world ba 3 ga 8 3 ia - ma - sw fin ln hello -1 ln world -1 lt 0x90 lt 0x101 lt 0xc0 lt 0x900 ia hello ma world ga 8 1 sw fin fin")
        cases.append("ia - fin ma - fin ga 8 0 fin ba 0 fin lt 1 fin lt 0x63 fin lt 0x43 fin li 0x80 fin lm 0x100 fin ln logger -1 fin al log 0 fin")
        for c in ((30, 31, 1791) if tier == "quick" else (1, 29, 30, 31, 60, 61, 900, 1790, 1791, 1792)):
            cases.append("maN %d meta gaN %d 8 fin maN 2 meta lm 0x101 lm 0x103 lt 0x900 sw" % (c, c))
        cases.append("baN 70 1 iaN 50 ifc maN 40 mt gaN 40 16 sw fin baN 70 1 iaN 50 ifc sw fin sw")
        for i in range(30 if tier == "quick" else 2000):
            h1, h2 = self.history(rng, rng.choice([3, 8, 16])), self.history(rng, rng.choice([2, 6]))
            cases.append("%s fin" % h1 if rng.random() < 0.3 else "%s fin %s fin" % (h1, h2))
        # F. the same registry through the C++ wrappers of mpt++/type_traits_wrap.cpp
        cases += self.cxx_cases(rng, tier)
        # H. the C++ template layer of mptcore/types.h (type_properties<T>, basetype, vector/scalar id arithmetic)
        cases += self.tpl_cases(rng, tier)
        return cases


PROP = C06()
