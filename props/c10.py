"""C10 — configuration store behaves as a path-to-value map
(mptcore/config/{config_global,node_assign,node_query,config_set,config_get,config_item_query,config_item_reserve,
path_set,path_next,path_last,path_add,path_del}.c, node/node_locate.c, meta/meta_set.c, meta/meta_new.c, mpt++/config.cpp).

Case grammar (one line, id added by vcheck):
  G|R|J <nv> <pathspec>*nv <no> <pathspec>*no <op>...
      G = process-global configuration (handle 0) and nv sub-tree views on base paths (handles 1..nv),
      R = private C++ mpt::config::root, J = raw config_item array (mpt_config_item_reserve / _query, lazy removal);
      the <no> pathspecs are the observation points queried after EVERY operation;
      op: a <pathspec> <valuehex|->   assign        r <pathspec>   remove        d <pathspec>   (J) mark unused
  P|Q <sephex> <assignhex> <op>...     path operations on one mpt path (Q: through the C++ mpt::path methods set/add/del)
      op: set <str> <len|-1> | next | last | del | add <n> | post <hex> | bin
  pathspec = <handle>:<sephex>:<str>,  str = "~" (NULL) | "-" (empty string) | hex of the C string
"""
import itertools, os
from vcheck import (DiffProperty, ASAN_ENV, VERIF, build_harness, build_model, run_cases)

SEPS = [0x2e, 0x2f, 0x3a]
ARITY = {"a": 2, "r": 1, "d": 1, "set": 2, "next": 0, "last": 0, "del": 0, "add": 1, "post": 1, "bin": 0}


def hx(bs):
    return "".join("%02x" % b for b in bs) if len(bs) else "-"


def spec(h, sep, s):
    return "%d:%02x:%s" % (h, sep, "~" if s is None else hx(s))


def unhex(t):
    return b"" if t == "-" else bytes.fromhex(t)


class C10(DiffProperty):
    pid = "C10"
    claimed = True
    coq_dir = "C10"
    extract_vo = "C10/Extract.vo"
    mlname = "c10_model"
    driver = "c10_driver.ml"
    harness_src = "c10_store.c"
    harness_cxx = "c10_root.cpp"
    libs = ["mptcore"]
    harness_env = dict(ASAN_ENV, ASAN_OPTIONS=ASAN_ENV["ASAN_OPTIONS"] + ":symbolize=0")
    rule = ("a case = one store (G: process-global configuration in a fresh process + up to 2 sub-tree views, R: C++ config::root, "
            "J: raw config_item array with lazy removal and decoy items written behind _used) + a set of observation paths + a history of "
            "assign/remove operations; after EVERY operation EVERY observation path is queried (value / present / absent) and the whole "
            "tree or slot array is dumped; or (P) one mpt path + a history of set/next/last/del/add/post/bin, walked element by element "
            "after every operation. quick: every history of length <= 3 over 5 paths x {assign, remove} for G, R and J (exhaustive), "
            "every string of length <= 4 over {sep, assign, 'a'} through path_set (string and explicit lengths) with next/last, "
            "plus random histories of 4..14 operations over path sets with shared prefixes, prefix-of-another paths, repeated and "
            "empty elements, separators . / :, element lengths 0,1,2,254,255,256,257 and value lengths 0,1,5,249,250,254,255,256,300,1000; "
            "random path build/walk histories in separator and binary mode with element lengths 0,1,127,128,254..257. "
            "A case is non-trivial when it has a removal, a long element/value, an empty element, a view or a path operation beyond set; "
            "distinct = distinct case text")
    modelled = ("mptcore/config/{path_set,path_next,path_last,path_add,path_del,node_query,node_assign,config_global,config_set,config_get,"
                "config_item_query,config_item_reserve}.c, node/node_locate.c (forward search by name), meta/meta_set.c + meta_new.c (text values, "
                "the 8-bit size limit of the basic metatype) and config::root of mpt++/config.cpp transcribed in coq/C10/ConfigModel.v; the node "
                "tree is a pure ordered forest (prev/next/parent links are C14's subject, the harness checks them and reports a flag), "
                "identifiers are byte strings with the 16-bit length limit (storage is C16's subject), buffers/arrays are lists (C04), "
                "values are text only; mpt_path_addchar/valid/invalidate (parser side) are reduced to 'append post bytes'; allocation "
                "failures and the path == NULL forms of the interface are not modelled")
    trusted = ["harness/c10_store.c walks the node tree from the file-local nodeGlobal (config_global.c is #included) and the raw item "
               "arrays slot by slot, independently of the library; it writes decoy items into the unused capacity behind _used",
               "harness/c10_root.cpp drives config::root through the virtual config interface and mpt::path through its methods (kind Q); the UBSan vptr check is suppressed "
               "there (harness/c10_ubsan.supp) because mpt++ deliberately views C-allocated buffers as C++ objects",
               "text of a value is read through the vector-of-char conversion (the buffer metatype for long text offers no 's' conversion)"]
    level_text = ("proof: Coq theorems (coq/C10/Properties.v, all closed under the global context) "
                  "C10_path_elements / C10_path_elements_string / C10_string_key / C10_path_next_element (mpt_path_set over ANY byte string or C "
                  "string, any separator, any assign character, any element lengths, yields a well-formed path and repeated mpt_path_next "
                  "visits exactly the separator-delimited components up to the assign character, each read from inside the storage), "
                  "C10_path_rebuild (adding the elements one by one with mpt_path_add, separator mode, gives a path that walks back to exactly "
                  "those elements, every element length), C10_config_refines_map + C10_step_refines (after ANY history of assign / remove / "
                  "query through the process-global configuration and through sub-tree views on arbitrary base paths, every result class and "
                  "every queried entry equals the history specification: the value most recently assigned to exactly that path, "
                  "present-without-value for a mere prefix, absent otherwise), C10_root_refines_map (the same for the C++ config::root slot "
                  "arrays with unused-slot reuse, eager and lazy removal), C10_assign_frame (an assignment changes the reading of its own key "
                  "only and makes its prefixes present), C10_remove_subtree_only and C10_clear_beneath_only (a removal hides exactly the key and "
                  "what is beneath it); no bound on path length, element length, tree size or history length; the model is tied to the code on "
                  "every run by differential execution under ASan/UBSan (state dumps + every observation path queried after every operation)")
    level_note = ("trusted: Coq kernel; hand transcription of the C/C++ files (validated by the correspondence run, not verified); extraction "
                  "and OCaml driver; harnesses. The theorems hold for the tree WITH the 15 fix: commits of branch verif-C10 (path_set string end, "
                  "path_last offset / 8-bit length / binary start / signed length, path_add 8-bit first / binary first after consumption, "
                  "path_del array cut, meta_new argument order / size threshold, first global element unlink, config_item_query _size, "
                  "config_item_reserve cut length, config::root::remove set_name, mpt::path::add argument) - see docs/notes_C10.md. Guards: element names up to 65534 "
                  "bytes (16-bit identifier length; longer names are refused after the nodes in front were created - Example "
                  "C10_name_limit_witness); config::root reports the empty path as absent. NOT proved, only cross-checked against the abstract "
                  "path specification astep by the correspondence run: binary-length mode (SepBinary) of path_next/add/del/last, mpt_path_last "
                  "and mpt_path_del, path_add on paths with an offset. Link fields of the node tree (checked by the harness, flag in every "
                  "observation), identifier storage and buffer management are other properties' subjects (C14, C16, C04).")
    technique = "Coq refinement proof (byte paths + node tree / item slots -> finite map keyed by element lists) + differential correspondence check"
    assumptions = ["allocation succeeds", "values are text (C strings)", "element names are at most 65534 bytes"]

    # ------------------------------------------------------------------ running: two harnesses
    def evaluate(self, cases, workdir, tagsuffix=""):
        hc = build_harness(self.harness_src, ["mptcore"])
        hr = build_harness(self.harness_cxx, ["mptcore", "mpt++"])
        mx = build_model(self.mlname, self.driver, self.extract_vo)
        ided = ["c%d %s" % (i, c) for i, c in enumerate(cases)]
        cc = [c for c in ided if c.split()[1] not in ("R", "Q")]
        rc = [c for c in ided if c.split()[1] in ("R", "Q")]
        I = {}
        errs = []
        if cc:
            o, e = run_cases(hc, cc, workdir, "implc" + tagsuffix, env=self.harness_env)
            I.update(o.get("I", {}))
            errs += e
        if rc:
            env = dict(self.harness_env)
            env["UBSAN_OPTIONS"] = env["UBSAN_OPTIONS"] + ":suppressions=" + os.path.join(VERIF, "harness", "c10_ubsan.supp")
            o, e = run_cases(hr, rc, workdir, "implr" + tagsuffix, env=env)
            I.update(o.get("I", {}))
            errs += e
        M, e2 = run_cases(mx, ided, workdir, "model" + tagsuffix)
        res = []
        for i, c in enumerate(cases):
            k = "c%d" % i
            res.append(self.compare(c, I.get(k), M.get("M", {}).get(k), M.get("S", {}).get(k)))
        return res, errs + e2

    def project(self, tok):
        f = tok.split("|")
        if len(f) == 5:          # path case: result (any error code = refused) and the element walk
            return ("E" if f[0].startswith("-") else f[0]) + "|" + f[4]
        if len(f) == 2 and f[0].startswith("-"):
            return "E|" + f[1]
        if len(f) == 4:          # store case: result class, link flag, observations (not the dump)
            return "|".join(f[:3])
        return tok

    # ------------------------------------------------------------------ case structure
    def split(self, case):
        t = case.split()
        if t[0] in ("P", "Q"):
            hdr, rest = t[:3], t[3:]
        else:
            nv = int(t[1])
            no = int(t[2 + nv])
            n = 3 + nv + no
            hdr, rest = t[:n], t[n:]
        ops = []
        i = 0
        while i < len(rest):
            n = ARITY[rest[i]]
            ops.append(rest[i:i + n + 1])
            i += n + 1
        return hdr, ops

    def shrink_candidates(self, case):
        hdr, ops = self.split(case)
        for k in range(len(ops)):
            yield self.join(hdr, ops[:k] + ops[k + 1:])
        for k in range(1, len(ops)):
            yield self.join(hdr, ops[:k])
        if hdr[0] not in ("P", "Q"):
            nv = int(hdr[1])
            no = int(hdr[2 + nv])
            obs = hdr[3 + nv:]
            for k in range(no):
                o2 = obs[:k] + obs[k + 1:]
                yield self.join(hdr[:2 + nv] + [str(no - 1)] + o2, ops)
        # shorten long hex runs (names, values, post data)
        for k, o in enumerate(ops):
            for j, a in enumerate(o[1:], 1):
                body = a.split(":")[-1]
                if len(body) > 16 and body not in ("~", "-"):
                    for cut in (body[:len(body) // 2 // 2 * 2], body[:-2]):
                        na = a[:len(a) - len(body)] + cut
                        yield self.join(hdr, ops[:k] + [o[:j] + [na] + o[j + 1:]] + ops[k + 1:])

    def classify(self, case):
        hdr, ops = self.split(case)
        cl = {"kind:" + hdr[0]}
        if hdr[0] in ("P", "Q"):
            for o in ops:
                cl.add("p:" + o[0])
                if o[0] in ("post", "set") and len(o[1]) >= 2 * 254:
                    cl.add("long-element")
            if any(o[0] == "bin" for o in ops):
                cl.add("binary-mode")
            if not any(o[0] != "set" for o in ops):
                cl.discard("kind:" + hdr[0])
                return cl if len(cl) > 0 else set()
            return cl
        if int(hdr[1]):
            cl.add("views")
        nontriv = False
        for o in ops:
            s = o[1].split(":")
            body = s[2]
            sep = "%s" % s[1]
            if o[0] in ("r", "d"):
                cl.add("remove")
                nontriv = True
            if body == "~":
                cl.add("null-path")
            elif body == "-" or body.startswith(sep) or body.endswith(sep) or (sep + sep) in body:
                cl.add("empty-element")
                nontriv = True
            if len(body) >= 2 * 254:
                cl.add("long-element")
                nontriv = True
            if o[0] == "a" and len(o[2]) >= 2 * 250:
                cl.add("long-value")
                nontriv = True
            if o[0] == "a" and o[2] == "-":
                cl.add("empty-value")
            if s[0] != "0":
                cl.add("through-view")
                nontriv = True
        if len(ops) > 3:
            cl.add("history>3")
            nontriv = True
        return cl if nontriv else set()

    # ------------------------------------------------------------------ generators
    def names(self, rng):
        pool = [b"a", b"b", b"c", b"ab", b"", b"zz", b"a", b"b"]
        n = rng.choice(pool)
        r = rng.random()
        if r < 0.10:
            n = bytes([rng.choice(b"xyk")]) * rng.choice([254, 255, 256, 257])
        elif r < 0.14:
            n = bytes([rng.choice(b"xy")]) * rng.choice([2, 100, 253, 300])
        return n

    def gen_paths(self, rng, sep, count):
        """path strings with shared prefixes, prefix-of-another, repeated and empty elements"""
        paths = []
        while len(paths) < count:
            if paths and rng.random() < 0.55:
                base = rng.choice(paths)
                el = base.split(bytes([sep]))
                k = rng.randrange(0, len(el) + 1)
                el = el[:k]
                for _ in range(rng.choice([0, 1, 1, 2])):
                    el.append(rng.choice(el) if el and rng.random() < 0.3 else self.names(rng))
                if not el:
                    el = [self.names(rng)]
            else:
                el = [self.names(rng) for _ in range(rng.choice([1, 1, 2, 2, 3, 4]))]
            p = bytes([sep]).join(el)
            if b"\0" not in p:
                paths.append(p)
        return paths

    def gen_value(self, rng):
        n = rng.choice([0, 1, 1, 5, 5, 5, 5, 249, 250, 254, 255, 256, 300, 1000] if rng.random() < 0.25 else [0, 1, 2, 5])
        c = rng.choice(b"vwq0123")
        return bytes([c]) * n if n > 8 else bytes(rng.choice(b"vw19") for _ in range(n))

    def gen_store(self, rng, kind):
        sep = rng.choice(SEPS)
        paths = self.gen_paths(rng, sep, rng.choice([3, 4, 5, 6]))
        other = rng.choice([s for s in SEPS if s != sep])
        views = []
        if kind == "G" and rng.random() < 0.6:
            for _ in range(rng.choice([1, 1, 2])):
                views.append((sep, rng.choice(paths)))
        obs = [(0, sep, p) for p in paths]
        if rng.random() < 0.3:
            obs.append((0, other, rng.choice(paths)))        # same string, other separator: another key
        rel = [b"a", b"b", b"a" + bytes([sep]) + b"b", b"", b"c"]
        for i, v in enumerate(views):
            obs.append((i + 1, sep, rng.choice(rel)))
            obs.append((0, sep, v[1] + bytes([sep]) + rng.choice(rel)))
        if kind == "J":
            obs.append((0, sep, b"zz"))
            obs.append((0, sep, rng.choice(paths) + bytes([sep]) + b"zz"))
        ops = []
        for _ in range(rng.choice([4, 6, 8, 10, 14])):
            r = rng.random()
            if views and rng.random() < 0.4:
                h = rng.randrange(1, len(views) + 1)
                p = rng.choice(rel + [None]) if rng.random() < 0.9 else rng.choice(paths)
            else:
                h = 0
                p = rng.choice(paths) if rng.random() < 0.93 else (None if kind != "J" or r < 0.6 else rng.choice(paths))
                if rng.random() < 0.08:
                    p = rng.choice(paths) + bytes([sep]) + self.names(rng)
                    if b"\0" in p:
                        p = rng.choice(paths)
            s = spec(h, sep if rng.random() < 0.95 else other, p)
            if r < 0.6:
                ops += ["a", s, hx(self.gen_value(rng))]
            elif kind == "J":
                if p is None:
                    ops += ["a", s, hx(self.gen_value(rng))]
                else:
                    ops += ["d", s]
            else:
                ops += ["r", s]
        hdr = [kind, str(len(views))] + [spec(0, v[0], v[1]) for v in views] + [str(len(obs))] + [spec(*o) for o in obs]
        return " ".join(hdr + ops)

    def exhaustive_store(self, kind, depth):
        paths = [b"a", b"b", b"a.a", b"a.b", b""]
        obs = [spec(0, 0x2e, p) for p in paths] + [spec(0, 0x2e, b"a.a.a")]
        if kind == "J":
            obs.append(spec(0, 0x2e, b"zz"))
        hdr = [kind, "0", str(len(obs))] + obs
        single = []
        for i, p in enumerate(paths):
            single.append(["a", spec(0, 0x2e, p), "3%d" % i])
            single.append(["d" if kind == "J" else "r", spec(0, 0x2e, p)])
        out = []
        for n in range(1, depth + 1):
            for seq in itertools.product(single, repeat=n):
                out.append(" ".join(hdr + [t for o in seq for t in o]))
        return out

    def exhaustive_paths(self):
        out = []
        alpha = [0x2e, 0x3d, 0x61]
        for n in range(0, 5):
            for s in itertools.product(alpha, repeat=n):
                h = hx(bytes(s))
                for asg in ("00", "3d"):
                    out.append("P 2e %s set %s -1 next last set %s -1 last next next" % (asg, h, h))
                    for k in range(0, n + 1):
                        out.append("P 2e %s set %s %d next next set %s %d last" % (asg, h, k, h, k))
        out.append("P 2e 00 set ~ 0 next last del")
        return out

    def gen_pathcase(self, rng):
        sep = rng.choice(SEPS)
        asg = rng.choice([0, 0, 0x3d])
        ops = []
        mode = rng.random()
        def elem():
            n = rng.choice([0, 1, 1, 2, 3, 127, 128, 254, 255, 256, 257] if rng.random() < 0.3 else [0, 1, 2, 3])
            c = rng.choice(b"abxy")
            e = bytes([c]) * n if n > 4 else bytes(rng.choice(b"ab" + bytes([sep])) if rng.random() < 0.1 else rng.choice(b"abc") for _ in range(n))
            return e
        if mode < 0.45:
            # string through path_set, then walk / last / del
            el = [elem().replace(bytes([sep]), b"q") for _ in range(rng.choice([1, 2, 3, 4]))]
            s = bytes([sep]).join(el)
            if asg and rng.random() < 0.5:
                s += bytes([asg]) + b"val"
            if rng.random() < 0.7:
                ops += ["set", hx(s), "-1"]
            else:
                ops += ["set", hx(s), str(rng.randrange(0, len(s) + 1))]
            for _ in range(rng.choice([1, 2, 4, 6])):
                ops += [rng.choice(["next", "next", "last", "del"])]
        else:
            if rng.random() < 0.4:
                ops += ["bin"]
            for _ in range(rng.choice([2, 3, 5, 8])):
                r = rng.random()
                if r < 0.6:
                    e = elem()
                    extra = rng.choice([b"", b"", b"r", b"rs", b"rst"])
                    if len(e) + len(extra) == 0:
                        extra = b"r"
                    ops += ["post", hx(e + extra), "add", str(len(e) if rng.random() < 0.9 else len(e) + len(extra) + rng.choice([0, 1]))]
                elif r < 0.8:
                    ops += ["del"]
                elif r < 0.93:
                    ops += ["next"]
                else:
                    ops += ["last"]
        return " ".join(["P", "%02x" % sep, "%02x" % asg] + ops)

    def generate(self, rng, tier):
        cases = []
        depth = 3 if tier == "quick" else 4
        for kind in "GRJ":
            cases += self.exhaustive_store(kind, depth)
        cases += self.exhaustive_paths()
        n = 700 if tier == "quick" else 20000
        for i in range(n):
            cases.append(self.gen_store(rng, "GRJ"[i % 3]))
        for i in range(n):
            c = self.gen_pathcase(rng)
            # every fourth path history goes through the C++ mpt::path methods (set / add / del)
            cases.append("Q" + c[1:] if i % 4 == 3 else c)
        return cases


PROP = C10()
