"""C10 — configuration store behaves as a path-to-value map
(mptcore/config/{config_global,node_assign,node_query,config_set,config_get,config_item_query,config_item_reserve,
path_set,path_next,path_last,path_add,path_del}.c, node/node_locate.c, meta/meta_set.c, meta/meta_new.c, mpt++/config.cpp).

Case grammar (one line, id added by vcheck):
  G|H|R|X|J|Gc|Hc|Rc|Xc <nv> <pathspec>*nv <no> <pathspec>*no <op>...
      G = process-global configuration (handle 0) and nv sub-tree views on base paths (handles 1..nv) through the C
          interface (mpt_config_set / mpt_config_query / mpt_config_getp / mpt_config_get, metatype side of the handles),
      H = the same store as C++ sees it (config::global, config::set / del / get<T>, config::environ),
      R = private C++ mpt::config::root through the virtual interface and config::get(path, type, ptr),
      X = the same through the wrappers config::set / del / get<T> / environ,
      J = raw config_item array (mpt_config_item_reserve / _query, lazy removal);
      the <no> pathspecs are the observation points queried after EVERY operation (element as a query handler sees
      it / existence / value as vector of char / value as 's' [/ value through the '.'-string accessor]);
      with the suffix c every observation path is also asked for the value ITSELF (TypeConvertablePtr:
      mpt_config_getp / mpt_config_get with MPT_ENUM(TypeConvertablePtr), config::get(path, convertable *&) and
      config::get(const char *, convertable *&), the form examples/cxx/config.cpp uses): [/ getp [/ '.'-string form]];
      op: a <pathspec> <valuehex|->   assign        r <pathspec>   remove
          d <pathspec>   (J) mark unused, (H, X) config::del with -1 / full / short explicit length
          z <pathspec>   (G, R, X) assign without value: configAssign(cfg, path, NULL) -> mpt_node_assign(.., NULL) /
                         mpt_meta_set(&node->_meta, NULL); result "ok+" = the element still holds a value
          t <pathspec> <ty> <valuehex>   (G) configAssign with a typed value: s string, p pointer to a NULL string,
                         v vector of char, b array of char, i an integer (no text: refused)
          y <pathspec>   (G) remove(NULL) on the handle
          l <pathspec>   query with a handler that walks the collection it receives (and one that refuses the first item)
          n <pathspec>   (G) the handle converted to a node pointer     k <pathspec>   (G) metatype side of the handle, clone;
                         (R, X) the forms without a path: remove(NULL), assign(NULL, value), query(NULL, NULL)
          env <sephex> <patternhex> <hex,hex,...>   (H, X) config::environ with an explicit variable list;
                         "env ~ ~ <list>" = config::environ() with its default arguments (the list becomes the process environment)
  P|Q <sephex> <assignhex> <op>...     path operations on one mpt path (Q: through the C++ mpt::path methods)
      op: set <str> <len|-1> | sets <str> <len|-1> <sephex|~> <assignhex|~> (path::set with explicit separator / assign
          character, ~ = keep) | next | last | del | add <n> | post <hex> | bin
          | clr (mpt_path_invalidate / path::clear_data; "clrx": clear_data as long as it only cuts the array)
          | cp (copy construction) | asg (assignment to itself and into another path) | fork (the original stays alive)
      a kind P case ends with mpt_path_fini; last token fin:ok (storage of the path's own released exactly once) | fin:leak
  T                                     config::pointer_traits()
  M <op>...                             mpt_meta_set on ONE metatype reference (meta_set.c: every branch)
      op: s <hex> | v <hex> (text as string / vector of char) | i (an integer) | 0 (val == NULL)
          | obj a|r | cfg a|r | it a|r  (the reference is given a value that IS an object / a configuration / an iterator and
            accepts / refuses what mpt_meta_set asks of it) | view a (a view of the process-wide configuration)
      observation: m:<ok|e>|<= same object, ! another one, + installed>|<kind>|<text the value shows>|u<releases seen>
  N <n> <node>*n <op>...               mpt_node_locate / mpt_node_query on a sibling list the harness links itself and
      installs as the top level of the process-wide configuration (every node holds its trail "v0.1" as value)
      node = <id>[/<id>;<id>...] (children), id = n<hex|-> (name) | z<k> (nameless identifier of k zero bytes)
             | p<charset>.<tag> (pointer identifier: length 0, _base = fixed address number tag, 0 = NULL)
      op: loc <start|~> <pos> <key>   mpt_node_locate(node start | NULL, pos, key): i<index> | n | f (NULL + EFAULT)
              key = d<hex> (name, charset -1) | c<charset>.<hex> (raw bytes, explicit charset) | p<charset>.<tag>
                    (pointer key, length 0) | x<len> (NULL identifier with that length)
          q <sephex> <strhex>         mpt_node_query(list, path) -> q:<trail>|<consumed>.<left>|<what mpt_config_getp(NULL, path, 's') reads>
  pathspec = <handle>:<sephex>:<str>[:<endhex>],  str = "~" (NULL) | "-" (empty string) | hex of the C string;
             endhex (kind G, operations a / r): the end character handed to mpt_config_set
"""
import itertools, os
from vcheck import (DiffProperty, ASAN_ENV, VERIF, build_harness, build_model, run_cases)

SEPS = [0x2e, 0x2f, 0x3a]
ARITY = {"a": 2, "t": 3, "r": 1, "d": 1, "z": 1, "l": 1, "n": 1, "k": 1, "y": 1, "env": 3,
         "s": 1, "v": 1, "i": 0, "0": 0, "obj": 1, "cfg": 1, "it": 1, "view": 1,
         "loc": 3, "q": 2,
         "set": 2, "sets": 4, "next": 0, "last": 0, "del": 0, "add": 1, "post": 1, "bin": 0, "clr": 0, "clrx": 0, "cp": 0, "asg": 0, "fork": 0}

# Two defects of /repo found by driving mpt::path copies (docs/notes_C10.md, "open defects"); each constant
# is to be set to True when the patch named next to it has been committed to /repo, nothing else changes.
#   PATCHED_PATH_ADD_SHARED:   docs/C10_path_add_shared.diff  (mpt_path_add writes separators into an array that
#       is shared with a copy of the path).  While False no history keeps the original of a copied path alive
#       ("fork" operations are not generated); replay: docs/C10_path_add_shared.replay.json
#   PATCHED_CLEAR_DATA_SHARED: docs/C10_clear_data_shared.diff (mpt::path::clear_data cuts an array shared with a
#       copy).  While False clear_data is only run on unshared paths and modelled as content::set_length ("clrx":
#       KeepPost flag stays); once True it is modelled as mpt_path_invalidate ("clr") and also run on forked
#       paths; replay: docs/C10_clear_data_shared.replay.json
PATCHED_PATH_ADD_SHARED = True
PATCHED_CLEAR_DATA_SHARED = True

# A third defect, found by driving config::get<T> with T = convertable * (what examples/cxx/config.cpp does; the
# example silently skips its first print because of it): mptcore/config/config_get.c:_convert_value hands a request
# for TypeConvertablePtr to the value's own convert(), which no text metatype (basic, buffer, C geninfo) answers, so
#   config::get(path, convertable *&) / config::get(const char *, convertable *&) / mpt_config_getp(..,
#   MPT_ENUM(TypeConvertablePtr), &val)
# report "no value" for EVERY assigned path of EVERY store (process-wide, sub-tree view, config::root).
#   PATCHED_GET_CONVERTABLE: docs/C10_get_convertable.diff (_convert_value hands out the convertable it was given).
#       While False no case asks for the value itself (kind suffix "c" is not generated, flagged corpus lines are
#       skipped); once True EVERY store case of kinds G, H, R, X (generated and corpus) reads every observation path
#       that way too.  Replay: docs/C10_get_convertable.replay.json
PATCHED_GET_CONVERTABLE = True

# A fourth defect, found by driving mpt_path_add on a path WITHOUT array (a path that mpt_path_set laid over the
# caller's string: the next `add` bytes of that string become the next element): mptcore/config/path_add.c copies
# path and element into a new array and lets path->base point into it, but does not set MPT_PATHFLAG(HasArray).
# mpt_path_fini never releases that array, and a second mpt_path_add treats it as a plain string again: it takes the
# next element from the bytes BEHIND the used part of the array (uninitialised heap) instead of refusing.
#   PATCHED_PATH_ADD_HASARRAY: docs/C10_path_add_hasarray.diff (one line: the flag is set where path->base is).
#       While False no history adds an element to a path that lies in a string (needs_hasarray: generated cases and
#       corpus lines are left out); once True: gen_stradd (500 histories), `add 0` in random string histories, the
#       directed cases of exhaustive_paths.  Replay: docs/C10_replay_path_add_hasarray.json
PATCHED_PATH_ADD_HASARRAY = True 


def needs_hasarray(case):
    """a P / Q history in which mpt_path_add runs on a path that lies in the caller's string"""
    t = case.split()
    if not t or t[0] not in ("P", "Q"):
        return False
    instr = False
    i = 3
    while i < len(t):
        op = t[i]
        n = ARITY.get(op, 0)
        if op in ("set", "sets"):
            instr = t[i + 1] != "~"
        elif op == "post" and t[i + 1] != "-":
            instr = False
        elif op == "add" and instr:
            return True
        i += n + 1
    return False


def hx(bs):
    return "".join("%02x" % b for b in bs) if len(bs) else "-"


def spec(h, sep, s):
    return "%d:%02x:%s" % (h, sep, "~" if s is None else hx(s))


def unhex(t):
    return b"" if t == "-" else bytes.fromhex(t)


CXX_KINDS = ("R", "X", "H", "Q", "T")


class C10(DiffProperty):
    pid = "C10"
    claimed = True
    coq_dir = "C10"
    coq_deps = ("C16",)      # coq/C16/Locate.v: traversal proof of mpt_node_locate, reused by C10/LocateProofs.v
    extract_vo = "C10/Extract.vo"
    mlname = "c10_model"
    driver = "c10_driver.ml"
    harness_src = "c10_store.c"
    harness_cxx = "c10_root.cpp"
    libs = ["mptcore"]
    harness_env = dict(ASAN_ENV, ASAN_OPTIONS=ASAN_ENV["ASAN_OPTIONS"] + ":symbolize=0")
    rule = ("a case = one store (G: process-global configuration in a fresh process + up to 2 sub-tree views through the C interface, "
            "H: the same through the C++ classes config::global / config::set / del / get<T>, R: C++ config::root through the virtual "
            "interface, X: config::root through its wrappers, J: raw config_item array with lazy removal and decoy items written behind "
            "_used) + a set of observation paths + a history of operations: assign, remove (also config::del with -1 / full / short "
            "explicit length, mpt_config_set with an end character), assignment without value (G: configAssign(cfg, path, NULL) = "
            "mpt_node_assign / mpt_meta_set with val == NULL; R, X), assignment of a typed value through the interface (G: string, pointer to "
            "a NULL string, vector of char with nothing behind its bytes, array of char, an integer = refused), remove(NULL) / conversion to a node "
            "pointer / type list, addref, clone of a handle (G), listing through the collection a query handler receives (with a second "
            "handler that refuses the first item), config::environ with an explicit variable list or with its default arguments on a "
            "process environment set up by the case (H, X), the path-less forms remove(NULL) / assign(NULL, value) / query(NULL, NULL) of "
            "config::root (R, X); after EVERY operation EVERY "
            "observation path is read five ways (query handler; mpt_config_getp / config::get with type 0, vector of char, 's'; "
            "mpt_config_get / get<T>(const char *) for '.'-separated strings) - seven ways once PATCHED_GET_CONVERTABLE is set (kind suffix "
            "c: also the value itself through mpt_config_getp / mpt_config_get with TypeConvertablePtr, config::get(path, convertable *&) "
            "and config::get(const char *, convertable *&); the object handed out must be the one a query handler sees) - and the whole "
            "tree or slot array is dumped (H: through "
            "collectionEach); or (P / Q) one mpt path + a history of set (also path::set with explicit separator / assign character) "
            "/next/last/del/add/post/bin/clear/copy/assign, walked element by "
            "element after every operation (Q: committed bytes through path::value(), post data through path::data()); or (M) ONE metatype "
            "reference + a history of mpt_meta_set calls (text as string / vector of char, an integer, no value) and installations of a value "
            "that is an object / a configuration / an iterator (accepting or refusing) or a view of the process-wide configuration: after "
            "every call result class, whether the reference holds the same object, the text it shows and how often the harness-made value "
            "was released; or (N) a sibling list linked by the harness that holds every kind of identifier (names - repeated, empty, "
            "one a prefix of another, with an embedded NUL -, nameless identifiers of k zero bytes, pointer identifiers of several character "
            "sets incl. the NULL pointer), each node with up to 4 children, installed as the top level of the process-wide configuration: "
            "mpt_node_locate from every start node with positions -4..4 and keys of every form (name with the default character set, raw "
            "bytes with an explicit one, pointer key, NULL with and without a length, NULL list), and mpt_node_query + mpt_config_getp for "
            "paths over such lists (which node is found, how much of the path is left, what the store reads there). quick: every history of length <= 3 over 5 paths x {assign, remove} for G, R and J and of "
            "length <= 2 for H and X (exhaustive), every history of length <= 3 over 8 operations of one view and the global handle "
            "around it, every string of length <= 4 over {sep, assign, 'a'} through path_set (string and explicit lengths) with "
            "next/last, plus random histories of 4..14 operations over path sets with shared prefixes, prefix-of-another paths, repeated "
            "and empty elements, separators . / :, element lengths 0,1,2,254,255,256,257 and value lengths "
            "0,1,5,249,250,254,255,256,300,1000 and 319..321, 447..449, 575..577 (block boundaries 128k-64 of the text buffer); directed "
            "histories over value lengths 0,1,5,248..251,254..256,300,1000, 128k-64 +-1 up to 65600 and 65534..65536 (string / vector / "
            "array; assign, no value, overwrite, refused integer, through a view) and element names of 65534 / 65535 / 65536 bytes; every "
            "history of length <= 3 over 13 mpt_meta_set operations (kind M) + 300 random ones; random path build/walk histories in separator and binary mode with element lengths "
            "0,1,127,128,254..257 (now also: last / del behind consumed elements with post data, - once PATCHED_PATH_ADD_HASARRAY is set - "
            "500 histories of mpt_path_add on a path that lies in the caller's string (set with assign character or a length that leaves bytes "
            "behind the path; next / last / del / clear / copy before the add; add n for n <= the bytes behind, also with a separator inside; "
            "then repeated adds, post + add, del, walks) and add 0 in random string histories; every kind P case ends with mpt_path_fini under a "
            "second reference held by the harness: the path's own storage must be released exactly once, invalidate / last / del / add on a path without storage); one 15-node list x every start x positions -4..4 x 22 keys "
            "(exhaustive) + 400 random lists (kind N). A case is non-trivial when it has a removal, a long element/value, an empty element, a view, one of "
            "the caller-level operations or a path operation beyond set; distinct = distinct case text")
    modelled = ("mptcore/config/{path_set,path_next,path_last,path_add,path_del,node_query,node_assign,config_global,config_set,config_get,"
                "config_item_query,config_item_reserve}.c, node/node_locate.c (all three traversals - forwards, backwards, last match - and the "
                "whole comparison: character set, pointer identifiers, stored length with / without terminator, bytes; coq/C10/LocateModel.v "
                "node_locate over identifiers (charset, bytes | pointer), lquery_loop = the loop of node_query.c calling it; the tree model of "
                "the store keeps its inlined first-match search, proved equal: C10_store_lookup_is_node_locate, C10_node_query_is_locate_loop), meta/meta_set.c + meta_new.c (text values, "
                "the 8-bit size limit of the basic metatype) and mpt++/config.cpp (config::root assign / remove / query incl. the NULL forms, "
                "config::set / get / del, path::clear_data, path copies) transcribed in coq/C10/ConfigModel.v; the caller-level entry points "
                "(mpt_config_set with end character, mpt_config_getp / mpt_config_get with the requested conversion - type 0, 's', vector "
                "of char, TypeConvertablePtr = the value itself AS PATCHED by docs/C10_get_convertable.diff -, config::del with explicit "
                "length, mpt::path::set with separator / assign character (PSep + PSet), conversion of a view to its node, remove(NULL), the listing handed to a query handler) are compositions of "
                "mpt_path_set and the interface calls (wstep / xstep); the node "
                "tree is a pure ordered forest (prev/next/parent links are C14's subject, the harness checks them and reports a flag), "
                "identifiers are byte strings with the 16-bit length limit (storage is C16's subject), buffers/arrays are lists (C04: the "
                "model has no sharing, so a copied mpt::path is a value; that copies do not disturb each other is compared with the "
                "specification only), values are text only and a conversion is 's' or vector of char (which conversions a metatype offers: "
                "up to 249 bytes both, longer text in the C store vector only, in the C++ store both); mpt_path_addchar/valid (parser side) "
                "are reduced to 'append post bytes'; config::environ is expanded by the driver into the assignments its documentation "
                "promises (lower-cased names matching the pattern, in order, stop at the first refusal; fnmatch reduced to * and ?); "
                "handle facts (type list, addref, clone, query(NULL), assign(NULL, ..)) are constants of the driver; "
                "assignment without value through the C store (cfg_assign_none: created without value / mpt_meta_set(.., NULL): text of up "
                "to 249 bytes is replaced by the default metatype, longer text sits in a buffer metatype that is an iterator, is rewound and "
                "STAYS - fits_basic) and of a value without text (cfg_assign_bad: refused, nothing changes, a view has made its base element "
                "present) are operations of wstep; mpt_meta_set over every kind of value (meta_set_cell: object first - an error of an "
                "accepting-type object ends the call -, then configuration, then iterator rewind / default metatype for val == NULL, "
                "mpt_meta_new otherwise; the old value released exactly when replaced) is transcribed as a function on an abstract cell "
                "(nothing / default / text / object / configuration / iterator with an accept flag / view); the default metatype and 'no "
                "metatype' are one state of the tree model (no value); allocation failures are not modelled")
    trusted = ["harness/c10_store.c walks the node tree from the file-local nodeGlobal (config_global.c is #included) and the raw item "
               "arrays slot by slot, independently of the library; it writes decoy items into the unused capacity behind _used",
               "harness/c10_root.cpp drives config::root through the virtual config interface (kind R) and through config::set / del / get<T> / "
               "environ (kind X), the process-global store through config::global + the same wrappers (kind H: the tree is read back through the "
               "collection of a query handler, link fields are not visible there) and mpt::path through its methods (kind Q: the original of a "
               "forked path is re-read after every operation on the copy; kind P in harness/c10_store.c: at the end the harness takes a second "
               "reference on storage the path does not point into the caller's string for, calls mpt_path_fini and reports whether the array is "
               "still shared); the UBSan vptr check is suppressed "
               "there (harness/c10_ubsan.supp) because mpt++ deliberately views C-allocated buffers as C++ objects; config::root is destroyed "
               "at the end of every R / X case (ASan)",
               "text of a value is read through the vector-of-char conversion (the buffer metatype for long text offers no 's' conversion)",
               "ml/c10_driver.ml: expansion of config::environ (explicit and default arguments), the constant handle facts (metatype side of "
               "the global handles; remove(NULL) / assign(NULL, ..) / query(NULL, NULL) of config::root: the observations that follow "
               "show that nothing changed), the glob matcher for * and ?",
               "an element that holds the default metatype (what an assignment without value leaves) is reported like one without "
               "metatype: BadType from its conversions is printed as MissingData and the shared default object handed out for "
               "TypeConvertablePtr as 'no value' (harness/c10_store.c, novalue)",
               "kind M: the object / configuration / iterator values are made by the harness (struct hcell: they store the text they are "
               "given through mpt_object_set_value / assign(cfg, NULL, val), count their releases and flag a call with a property name or "
               "a path); text is read from library-made values through their conversions, from harness-made ones from their own store",
               "asked for the value itself (TypeConvertablePtr) the harnesses compare the pointer handed out with the one the query "
               "handler received and read the text from that object"]
    level_text = ("proof: Coq theorems (coq/C10/Properties.v, 44, all closed under the global context) "
                  "C10_path_add_from_string (mpt_path_add on ANY well-formed non-empty path that lies in the caller's string - no array, any "
                  "offset -, n bytes of that string behind it without separator: the elements afterwards are the elements before ++ [those n "
                  "bytes], the path owns its storage (HasArray; model as patched by docs/C10_path_add_hasarray.diff), nothing is behind it and "
                  "a further element of m > 0 bytes is refused with BadValue), "
                  "C10_path_last_element / C10_path_del_element (separator mode, ANY well-formed path - any offset, with or without array "
                  "and post data: mpt_path_last leaves exactly the last element, read from inside the storage, end of the path unmoved; "
                  "mpt_path_del removes exactly the last element and the post data and returns its length), "
                  "C10_locate_kth_match / C10_locate_finds_matching_node (mpt_node_locate on ANY sibling list - names, nameless and pointer "
                  "identifiers, any character sets -, any start node, any key: the k-th matching node forwards from the start, backwards "
                  "before it, or the last match of the list; through the traversal proof of coq/C16/Locate.v), "
                  "C10_locate_default_key_is_name_equality / C10_locate_skips_other_charsets (the key mpt_node_query uses is equality of "
                  "the name bytes, identifiers of other kinds never match), C10_store_lookup_is_node_locate / C10_node_query_is_locate_loop "
                  "(the first-match search of the store model IS mpt_node_locate(list, 1, name, len, -1) and the loop of node_query.c around "
                  "it IS the model's mpt_node_query, so every store theorem below speaks about the transcribed node_locate.c); "
                  "C10_path_elements / C10_path_elements_string / C10_string_key / C10_string_key_end / C10_del_key / C10_path_next_element "
                  "(mpt_path_set over ANY byte string or C string, any separator, any assign / end character, any explicit length, any element "
                  "lengths, yields a well-formed path and repeated mpt_path_next visits exactly the separator-delimited components up to the "
                  "assign character, each read from inside the storage), "
                  "C10_path_rebuild (adding the elements one by one with mpt_path_add, separator mode, gives a path that walks back to exactly "
                  "those elements, every element length), C10_path_rebuild_binary (the same in binary-length mode, SepBinary: elements of "
                  "ANY bytes, the separator too, up to 255 bytes each, give the layout e1 |e1| |e2| e2 |e2| ... en |en| 0 and mpt_path_next "
                  "walks back exactly those elements), C10_clear_keeps_elements (mpt_path_invalidate / path::clear_data drop the post data "
                  "and nothing else), C10_config_refines_map + C10_step_refines (after ANY history of assign / remove / "
                  "query through the process-global configuration and through sub-tree views on arbitrary base paths, every result class and "
                  "every queried entry equals the history specification: the value most recently assigned to exactly that path, "
                  "present-without-value for a mere prefix, absent otherwise), C10_api_refines_map + C10_api_step_refines (the same for ANY "
                  "history of the caller-level entry points: mpt_config_set / config::set on strings with separator and end character, "
                  "config::del with explicit length, mpt_config_getp / mpt_config_get / config::get with type 0 / 's' / vector of char, "
                  "conversion of a view to its node, remove(NULL), listing), C10_getp_reads_spec / C10_get_reads_spec (in every reachable state "
                  "the value accessors return exactly the text the specification holds for that key, MissingData for an absent or value-less "
                  "one), C10_getp_convertable_is_assigned_value / C10_get_convertable_is_assigned_value / "
                  "C10_root_get_convertable_is_assigned_value (asked for the value itself - TypeConvertablePtr, config::get(path, "
                  "convertable *&) - the accessors hand out the value most recently assigned to exactly that key, for every length and "
                  "every store: process-wide, sub-tree view, config::root; model as patched), C10_listing_reads_store / C10_root_listing_reads_store (the collection a query handler receives is the store beneath "
                  "the queried element), C10_root_refines_map + C10_root_api_refines_map (the C++ config::root slot "
                  "arrays with unused-slot reuse, eager and lazy removal, assignment without value, and its wrappers config::set / del / get), "
                  "C10_assign_frame (an assignment changes the reading of its own key "
                  "only and makes its prefixes present), C10_remove_subtree_only and C10_clear_beneath_only (a removal hides exactly the key and "
                  "what is beneath it), C10_assign_none_frame + C10_unset_drops_short_text + C10_unset_keeps_long_text (assignment "
                  "without value through the C store, now an operation of the history theorems C10_api_refines_map / C10_api_step_refines: "
                  "the key and its prefixes are present afterwards, the reading of every other key is unchanged, the key's value is gone "
                  "exactly when it was at most 249 bytes long), C10_assign_bad_changes_nothing (a value without text is refused, every key "
                  "reads as before), C10_meta_set_is_tree_meta_set / C10_meta_set_reads_back / C10_meta_set_refused_changes_nothing / "
                  "C10_meta_set_releases_replaced_only / C10_meta_set_refines_spec (mpt_meta_set over EVERY kind of value - text, default, "
                  "object, configuration, iterator, accepting or refusing, view: an accepted text is what the value shows afterwards byte "
                  "for byte at every length, in place or replaced; a refused call changes and releases nothing; the old value is released "
                  "only when another took its place); no bound on path length, element length, tree size or history length; the model is tied to the code on "
                  "every run by differential execution under ASan/UBSan (state dumps + every observation path read five ways after every operation)")
    level_note = ("trusted: Coq kernel; hand transcription of the C/C++ files (validated by the correspondence run, not verified); extraction "
                  "and OCaml driver; harnesses. The theorems hold for the tree WITH the 15 fix: commits of branch verif-C10 (path_set string end, "
                  "path_last offset / 8-bit length / binary start / signed length, path_add 8-bit first / binary first after consumption, "
                  "path_del array cut, meta_new argument order / size threshold, first global element unlink, config_item_query _size, "
                  "config_item_reserve cut length, config::root::remove set_name, mpt::path::add argument) - see docs/notes_C10.md. "
                  "Also committed since: mpt_path_add no longer writes separators into an array shared with a copy of the path, "
                  "path::clear_data no longer cuts a shared array (switches PATCHED_PATH_ADD_SHARED / PATCHED_CLEAR_DATA_SHARED on). "
                  "OPEN in /repo (switch PATCHED_GET_CONVERTABLE in props/c10.py, off): config::get(path, convertable *&) / "
                  "config::get(const char *, convertable *&) / mpt_config_getp(.., TypeConvertablePtr, ..) report 'no value' for EVERY "
                  "assigned path of every store - config_get.c:_convert_value leaves the request to the value's own convert(), which no "
                  "text metatype answers; examples/cxx/config.cpp silently skips its first print because of it. Patch "
                  "docs/C10_get_convertable.diff (5 lines: _convert_value hands out the convertable it was given; ctest 29/29, the example "
                  "prints again), replay docs/C10_get_convertable.replay.json = VIOLATION on /repo; the model and the three "
                  "*_convertable_is_assigned_value theorems describe the patched function; until the switch is on no case asks for the "
                  "value itself. "
                  "Assignment without value (configAssign(cfg, path, NULL)): the specification takes from the implementation whether "
                  "the value stayed (HAssignNone) - mpt_meta_set asks the old value for an iterator to rewind before it puts the default "
                  "metatype in its place (that is how the argument list at mpt.args is rewound), and the buffer metatype mpt_meta_new uses "
                  "for text of 250 bytes and more IS an iterator: such text survives an assignment without value, shorter text does not "
                  "(C10_unset_keeps_long_text / C10_unset_drops_short_text state it; replay docs/C10_unset_long_text.replay.json shows it "
                  "on /repo as result ok+; not patched: both behaviours are what meta_set.c documents, a fix belongs into the choice of "
                  "metatype for long text). Observations of this round, not patched (docs/notes_C10.md): assign(cfg, NULL-path, val) is "
                  "refused by every configuration of the library, so the TypeConfigPtr branch of mpt_meta_set never succeeds with them (a "
                  "view stored as value is replaced by the text); configAssign(cfg, path, NULL) answers 0 when the name cannot be stored and "
                  "nothing was created; a refused assignment through a view leaves the view's base element created. "
                  "Guards: element names up to 65534 "
                  "bytes (16-bit identifier length; longer names are refused after the nodes in front were created - Example "
                  "C10_name_limit_witness); config::root reports the empty path as absent; config::del lengths up to strlen + 1. "
                  "Specification detail: which conversions a stored text offers is part of get_view - text of 250 bytes and more in the C store "
                  "is not available as 's' (mpt_config_get(.., 's', ..) reports BadType; vector of char works; Example C10_long_value_views). "
                  "NOT proved, only cross-checked against the abstract "
                  "path specification astep by the correspondence run: mpt_path_last and mpt_path_del in BINARY mode (separator mode: proved, "
                  "C10_path_last_element / C10_path_del_element), path_add on paths with "
                  "an offset, binary-mode histories that mix add with next / del (the binary build-then-walk is proved: "
                  "C10_path_rebuild_binary). Compared with the specification only (no model of the mechanism): that "
                  "copies of an mpt::path sharing one array do not disturb each other (the model has values, not references), "
                  "config::environ (expanded by the driver), the metatype facts of a handle, the path-less forms of config::root, "
                  "config::pointer_traits / type_properties<config *>. mpt_node_query over lists with foreign identifiers (kind N, q) is compared with the "
                  "specification squery_l (first node that carries exactly that name, at every level) by the correspondence run; proved only "
                  "for forests of names (C10_node_query_is_locate_loop + the store theorems). Coverage of the files brought in by round 6 "
                  "(own quick tier, gcov): node/node_locate.c 100 % of 52 lines (was 36.5 %), path_add.c 100 % of 43 with PATCHED_PATH_ADD_HASARRAY on (93 % while off: the branch "
                  "without array is kept out), path_last.c 95 % (line 29) and path_del.c 96 % (lines 32, 57): the three "
                  "lines left are the consistency checks of the binary layout / array length, reachable only with a path whose flags or "
                  "array were changed behind the library's back. OPEN in /repo (switch PATCHED_PATH_ADD_HASARRAY in props/c10.py, off): mpt_path_add on a "
                  "path WITHOUT array (laid over the caller's string by mpt_path_set) copies path and element into a new array but does not set "
                  "HasArray - mpt_path_fini never releases the array and a second add takes its element from uninitialised bytes behind the "
                  "used part of that array instead of answering BadValue. Patch docs/C10_path_add_hasarray.diff (one statement next to "
                  "path->base = data, what mpt_path_addchar does in the same situation; ctest 29/29; ./check C10 green on the patched tree with "
                  "the switch on, seeds 1-3), replay docs/C10_replay_path_add_hasarray.json = VIOLATION on /repo; model (path_add: parr := true), "
                  "abstract path (astr: the caller's bytes behind a string path) and C10_path_add_from_string describe the patched function; "
                  "until the switch is on no history adds to a string path and path_add.c lines 40-42 are not executed by this check. Observation (not C10's subject, not driven): "
                  "config::get(path, metatype *&) fails on a config::root value of 255+ bytes - io::buffer::metatype::convert names its "
                  "own class where ::mpt::metatype is meant (injected class name), so TypeMetaPtr is not answered. Not driven: "
                  "type_properties<config_item>::id / traits of mpt++/config.cpp (declared inline in config.h, defined out of line and never "
                  "emitted: no program can link against them); mptcore/meta/meta_new.c lines 48-49, 58-59, 71-73 (no traits for 'c', "
                  "mpt_buffer_set failing on the buffer just reserved, _mpt_geninfo_set failing on the metatype just sized for the text: "
                  "unreachable without fault injection; 26 of 33 lines run, meta_set.c 35/35, node_assign.c 33/33). Link fields of the node tree (checked by the harness, flag in every "
                  "observation), identifier storage and buffer management are other properties' subjects (C14, C16, C04).")
    technique = "Coq refinement proof (byte paths + node tree / item slots -> finite map keyed by element lists) + differential correspondence check"
    assumptions = ["allocation succeeds", "values are text (string, vector of char, array of char; without NUL bytes) or hold no text at all", "element names are at most 65534 bytes",
                   "config::del is called with a length of at most strlen + 1"]

    # ------------------------------------------------------------------ running: two harnesses
    def evaluate(self, cases, workdir, tagsuffix=""):
        hc = build_harness(self.harness_src, ["mptcore"])
        hr = build_harness(self.harness_cxx, ["mptcore", "mpt++"])
        mx = build_model(self.mlname, self.driver, self.extract_vo)
        ided = ["c%d %s" % (i, c) for i, c in enumerate(cases)]
        cc = [c for c in ided if c.split()[1][0] not in CXX_KINDS]
        rc = [c for c in ided if c.split()[1][0] in CXX_KINDS]
        I = {}
        errs = []
        if cc:
            o, e = run_cases(hc, cc, workdir, "implc" + tagsuffix, env=self.harness_env)
            I.update(o.get("I", {}))
            errs += e
        if rc:
            env = dict(self.harness_env)
            env["UBSAN_OPTIONS"] = env["UBSAN_OPTIONS"] + ":suppressions=" + os.path.join(VERIF, "harness", "c10_ubsan.supp")
            o, e = run_cases(hr, rc, workdir, "implr" + tagsuffix, env=env)
            I.update(o.get("I", {}))
            errs += e
        M, e2 = run_cases(mx, ided, workdir, "model" + tagsuffix)
        res = []
        for i, c in enumerate(cases):
            k = "c%d" % i
            res.append(self.compare(c, I.get(k), M.get("M", {}).get(k), M.get("S", {}).get(k)))
        return res, errs + e2

    def project(self, tok):
        f = tok.split("|")
        if f[0].startswith("q:"):    # mpt_node_query on a hand-linked list: the element found and what the store reads there
            return f[0] + "|" + f[2] if len(f) == 3 else tok
        if f[0].startswith("m:"):    # mpt_meta_set on one reference: result class and the text the value shows
            return f[0] + "|" + f[3] if len(f) == 5 else tok
        if len(f) == 5:          # path case: result (any error code = refused) and the element walk
            return ("E" if f[0].startswith("-") else f[0]) + "|" + f[4]
        if len(f) == 2 and f[0].startswith("-"):
            return "E|" + f[1]
        if len(f) in (3, 4):     # store case: result class, link flag, observations (not the dump)
            rc = f[0]
            if rc.startswith("L"):       # listing: the specification only says whether there is something to list
                rc = "LA" if rc == "LA" else "LP"
            elif rc.startswith("Ny"):    # node handed out: which one is the model's business
                rc = "Ny"
            elif rc.startswith("vr"):    # bool wrapper around remove: only "store empty" shows
                rc = "vr"
            elif rc.startswith("y"):     # remove(NULL): 0 or BadOperation for an empty store
                rc = "y"
            return "|".join([rc] + f[1:3])
        return tok

    # ------------------------------------------------------------------ case structure
    def split(self, case):
        t = case.split()
        if t[0] == "T":
            return t[:1], []
        if t[0] == "M":
            hdr, rest = t[:1], t[1:]
        elif t[0] == "N":
            hdr, rest = t[:2 + int(t[1])], t[2 + int(t[1]):]
        elif t[0] in ("P", "Q"):
            hdr, rest = t[:3], t[3:]
        else:
            nv = int(t[1])
            no = int(t[2 + nv])
            n = 3 + nv + no
            hdr, rest = t[:n], t[n:]
        ops = []
        i = 0
        while i < len(rest):
            n = ARITY[rest[i]]
            ops.append(rest[i:i + n + 1])
            i += n + 1
        return hdr, ops

    def shrink_candidates(self, case):
        hdr, ops = self.split(case)
        for k in range(len(ops)):
            yield self.join(hdr, ops[:k] + ops[k + 1:])
        for k in range(1, len(ops)):
            yield self.join(hdr, ops[:k])
        if hdr[0] == "N":
            # drop one node (start indices that no longer exist make the candidate invalid: skipped by the bound)
            n = int(hdr[1])
            for k in range(n):
                nodes = hdr[2:2 + k] + hdr[3 + k:]
                if all(o[0] != "loc" or o[1] == "~" or int(o[1]) < n - 1 for o in ops) and n > 1:
                    yield self.join(["N", str(n - 1)] + nodes, ops)
        if hdr[0] not in ("P", "Q", "T", "M", "N"):
            nv = int(hdr[1])
            no = int(hdr[2 + nv])
            obs = hdr[3 + nv:]
            for k in range(no):
                o2 = obs[:k] + obs[k + 1:]
                yield self.join(hdr[:2 + nv] + [str(no - 1)] + o2, ops)
        # shorten long hex runs (names, values, post data)
        for k, o in enumerate(ops):
            for j, a in enumerate(o[1:], 1):
                body = a.split(":")[-1]
                if len(body) > 16 and body not in ("~", "-"):
                    for cut in (body[:len(body) // 2 // 2 * 2], body[:-2]):
                        na = a[:len(a) - len(body)] + cut
                        yield self.join(hdr, ops[:k] + [o[:j] + [na] + o[j + 1:]] + ops[k + 1:])

    def classify(self, case):
        hdr, ops = self.split(case)
        kind = hdr[0][0]
        cl = {"kind:" + kind}
        if hdr[0][1:] == "c":
            cl.add("value-as-convertable")
        if hdr[0] == "T":
            return cl
        if hdr[0] == "N":
            kinds = set(x[0] for h in hdr[2:] for x in h.replace("/", ";").split(";") if x)
            for o in ops:
                if o[0] == "loc":
                    p = int(o[2])
                    cl.add("locate:" + ("forward" if p > 0 else "backward" if p < 0 else "last"))
                    cl.add("key:" + o[3][0])
                    if abs(p) > 1:
                        cl.add("locate:k-th")
                    if o[1] == "~" or o[3][0] == "x":
                        cl.add("locate:refused")
                else:
                    cl.add("query-on-linked-list")
            if len(set(h.split("/")[0] for h in hdr[2:])) < len(hdr[2:]):
                cl.add("repeated-names")
            if kinds - {"n"}:
                cl.add("foreign-identifiers")
            return cl
        if hdr[0] == "M":
            for o in ops:
                cl.add("m:" + o[0] + (o[1] if o[0] in ("obj", "cfg", "it") else ""))
                if o[0] in ("s", "v") and len(o[1]) >= 2 * 250:
                    cl.add("long-value")
            return cl
        if hdr[0] in ("P", "Q"):
            for o in ops:
                cl.add("p:" + o[0])
                if o[0] in ("post", "set") and len(o[1]) >= 2 * 254:
                    cl.add("long-element")
            if any(o[0] == "bin" for o in ops):
                cl.add("binary-mode")
            if not any(o[0] != "set" for o in ops):
                cl.discard("kind:" + kind)
                return cl if len(cl) > 0 else set()
            return cl
        if int(hdr[1]):
            cl.add("views")
        nontriv = False
        for o in ops:
            if o[0] == "env":
                cl.add("environ")
                if o[1] == "~":
                    cl.add("environ-defaults")
                nontriv = True
                continue
            s = o[1].split(":")
            body = s[2]
            sep = "%s" % s[1]
            if o[0] in ("l", "n", "k", "z", "y"):
                cl.add({"l": "listing", "n": "node-conversion", "k": "handle-metatype" if kind == "G" else "null-path-forms",
                        "z": "assign-no-value", "y": "remove-null-path"}[o[0]])
                nontriv = True
            if o[0] == "d" and kind in ("H", "X"):
                cl.add("del-wrapper")
            if o[0] in ("r", "d"):
                cl.add("remove")
                nontriv = True
            if body == "~":
                cl.add("null-path")
            elif body == "-" or body.startswith(sep) or body.endswith(sep) or (sep + sep) in body:
                cl.add("empty-element")
                nontriv = True
            if len(s) > 3:
                cl.add("end-character")
                nontriv = True
            if len(body) >= 2 * 254:
                cl.add("long-element")
                nontriv = True
            if o[0] == "a" and len(o[2]) >= 2 * 250:
                cl.add("long-value")
                nontriv = True
            if o[0] == "a" and o[2] == "-":
                cl.add("empty-value")
            if s[0] != "0":
                cl.add("through-view")
                nontriv = True
        if len(ops) > 3:
            cl.add("history>3")
            nontriv = True
        return cl if nontriv else set()

    # ------------------------------------------------------------------ generators
    def names(self, rng):
        pool = [b"a", b"b", b"c", b"ab", b"", b"zz", b"a", b"b"]
        n = rng.choice(pool)
        r = rng.random()
        if r < 0.10:
            n = bytes([rng.choice(b"xyk")]) * rng.choice([254, 255, 256, 257])
        elif r < 0.14:
            n = bytes([rng.choice(b"xy")]) * rng.choice([2, 100, 253, 300])
        return n

    def gen_paths(self, rng, sep, count):
        """path strings with shared prefixes, prefix-of-another, repeated and empty elements"""
        paths = []
        while len(paths) < count:
            if paths and rng.random() < 0.55:
                base = rng.choice(paths)
                el = base.split(bytes([sep]))
                k = rng.randrange(0, len(el) + 1)
                el = el[:k]
                for _ in range(rng.choice([0, 1, 1, 2])):
                    el.append(rng.choice(el) if el and rng.random() < 0.3 else self.names(rng))
                if not el:
                    el = [self.names(rng)]
            else:
                el = [self.names(rng) for _ in range(rng.choice([1, 1, 2, 2, 3, 4]))]
            p = bytes([sep]).join(el)
            if b"\0" not in p:
                paths.append(p)
        return paths

    def gen_value(self, rng):
        # long values: the limits of the metatypes (249 / 250, 255 / 256) and the block boundaries of the buffer that
        # holds long text (mpt_meta_new reserves len + 1 bytes, _mpt_buffer_alloc rounds to 128-byte blocks with a
        # 64-byte header: a reservation that is one byte short only shows at len = 128 * k - 64)
        n = rng.choice([0, 1, 1, 5, 5, 5, 5, 249, 250, 254, 255, 256, 300, 1000] + self.BLOCKLENS
                       if rng.random() < 0.25 else [0, 1, 2, 5])
        c = rng.choice(b"vwq0123")
        return bytes([c]) * n if n > 8 else bytes(rng.choice(b"vw19") for _ in range(n))

    def gen_store(self, rng, kind):
        sep = rng.choice(SEPS)
        paths = self.gen_paths(rng, sep, rng.choice([3, 4, 5, 6]))
        other = rng.choice([s for s in SEPS if s != sep])
        views = []
        if kind in ("G", "H") and rng.random() < 0.6:
            for _ in range(rng.choice([1, 1, 2])):
                views.append((sep, rng.choice(paths)))
        obs = [(0, sep, p) for p in paths]
        if rng.random() < 0.3:
            obs.append((0, other, rng.choice(paths)))        # same string, other separator: another key
        rel = [b"a", b"b", b"a" + bytes([sep]) + b"b", b"", b"c"]
        for i, v in enumerate(views):
            obs.append((i + 1, sep, rng.choice(rel)))
            obs.append((0, sep, v[1] + bytes([sep]) + rng.choice(rel)))
        if kind == "J":
            obs.append((0, sep, b"zz"))
            obs.append((0, sep, rng.choice(paths) + bytes([sep]) + b"zz"))
        envp = None
        if kind in ("H", "X") and rng.random() < 0.35:
            # where config::environ() with its default arguments ("mpt_*", '_') puts a variable MPT_<path>
            envp = [p for p in paths if b"=" not in p and b"," not in p and len(p) < 600] or [b"a"]
            obs.append((0, 0x5f, b"mpt_" + rng.choice(envp)))
        ops = []
        tree = kind in ("G", "H")
        for _ in range(rng.choice([4, 6, 8, 10, 14])):
            r = rng.random()
            if views and rng.random() < 0.4:
                h = rng.randrange(1, len(views) + 1)
                p = rng.choice(rel + [None]) if rng.random() < 0.9 else rng.choice(paths)
            else:
                h = 0
                p = rng.choice(paths) if rng.random() < 0.93 else (None if kind != "J" or r < 0.6 else rng.choice(paths))
                if rng.random() < 0.08:
                    p = rng.choice(paths) + bytes([sep]) + self.names(rng)
                    if b"\0" in p:
                        p = rng.choice(paths)
            s = spec(h, sep if rng.random() < 0.95 else other, p)
            x = rng.random()
            if kind != "J" and x < 0.22:
                # the caller-level forms beyond assign / remove
                y = rng.random()
                if y < 0.40:
                    ops += ["l", s]                                   # listing through the query handler
                elif y < 0.55 and kind == "G":
                    ops += ["n", spec(h, sep, None)]                  # handle as node pointer
                elif y < 0.63 and kind == "G":
                    ops += ["k", spec(h, sep, None)]                  # metatype side of the handle, clone
                elif y < 0.72 and kind == "G":
                    ops += ["y", spec(h, sep, None)]                  # remove(NULL): value of the base element
                elif y < 0.80 and kind in ("R", "X"):
                    ops += ["z", s]                                   # assignment without value
                elif y < 0.86 and kind == "G":
                    ops += ["z", s]                                   # configAssign(cfg, path, NULL) -> mpt_meta_set(.., NULL)
                elif y < 0.86 and kind in ("R", "X"):
                    ops += ["k", spec(0, sep, None)]                  # remove(NULL) / assign(NULL, ..) / query(NULL, NULL)
                elif kind in ("H", "X") and envp and rng.random() < 0.6:
                    ops += self.gen_env_default(rng, envp)
                elif kind in ("H", "X"):
                    ops += self.gen_env(rng, sep, paths)
                else:
                    ops += ["l", spec(h, sep, None)]
                continue
            if kind == "G" and p is not None and rng.random() < 0.12:
                # mpt_config_set(conf, "path=junk", val, sep, '='): the end character cuts the string
                e = rng.choice(b"=;")
                if e not in p and e != sep:
                    s = spec(h, sep, p + bytes([e]) + rng.choice([b"", b"zz", bytes([sep]) + b"q"])) + ":%02x" % e
            if r < 0.6 and kind == "G" and len(s.split(":")) == 3 and rng.random() < 0.3:
                # a typed value through the interface: string, pointer to a NULL string, vector of char, array of
                # char (not empty: an array without buffer is no text), an integer (refused)
                ty = rng.choice("ssvvvbbpi")
                v = self.gen_value(rng)
                if ty == "b" and not v:
                    v = b"q"
                ops += ["t", s, ty, hx(v)]
            elif r < 0.6:
                ops += ["a", s, hx(self.gen_value(rng))]
            elif kind == "J":
                if p is None:
                    ops += ["a", s, hx(self.gen_value(rng))]
                else:
                    ops += ["d", s]
            elif kind in ("H", "X") and rng.random() < 0.5:
                ops += ["d", s]                                       # config::del
            else:
                ops += ["r", s]
        hdr = [kind, str(len(views))] + [spec(0, v[0], v[1]) for v in views] + [str(len(obs))] + [spec(*o) for o in obs]
        return " ".join(hdr + ops)

    def gen_env(self, rng, sep, paths):
        """config::environ with an explicit variable list: names spell paths of the case"""
        ents = []
        for _ in range(rng.choice([1, 2, 3, 4])):
            r = rng.random()
            name = rng.choice(paths)
            if r < 0.15:
                name = b"mpt" + bytes([sep]) + name
            if b"=" in name or b"\0" in name or b"," in name or len(name) > 600:
                name = b"a"
            if rng.random() < 0.5:
                name = name.upper()
            if r > 0.9:
                ents.append(name)                                     # no '=': skipped
            else:
                ents.append(name + b"=" + self.gen_value(rng))
        pat = rng.choice([b"*", b"*", b"*", b"a*", b"mpt" + bytes([sep]) + b"*", b"?", b"*b"])
        return ["env", "%02x" % (sep if rng.random() < 0.9 else 0), hx(pat), ",".join(hx(e) for e in ents)]

    def gen_env_default(self, rng, names):
        """config::environ() with its default arguments: pattern "mpt_*", separator '_', the process environment
        (the harness installs this list as the environment of the case)"""
        ents = []
        for _ in range(rng.choice([1, 2, 3])):
            r = rng.random()
            name = b"mpt_" + rng.choice(names)
            if r < 0.2:
                name = rng.choice([b"home", b"mptx", b"path"])        # not matched by mpt_*
            if rng.random() < 0.6:
                name = name.upper()
            ents.append(name + b"=" + self.gen_value(rng) if r < 0.9 else name)
        return ["env", "~", "~", ",".join(hx(e) for e in ents)]

    def gen_convcases(self):
        """the value itself (TypeConvertablePtr / get<convertable *>) for every store kind, value lengths around the
        limits of the metatypes that hold text (249 / 250: basic -> buffer in the C store, 254 / 255 in the C++ one),
        overwritten, read through a view, removed; the first one is what examples/cxx/config.cpp does"""
        out = ["Xc 0 1 0:2e:612e76616c75652e74657874 a 0:2e:612e76616c75652e74657874 4465722074c3a4c4b8e1ba9ec5a6"]
        for kind in "GHRX":
            for n in (0, 1, 5, 249, 250, 254, 255, 300):
                v = hx(b"v" * n)
                hdr = [kind + "c"]
                if kind in "GH":
                    obs = [spec(0, 0x2e, b"a.b"), spec(1, 0x2e, b"b"), spec(0, 0x2e, b"a"), spec(0, 0x2f, b"a.b"), spec(1, 0x2e, None)]
                    hdr += ["1", spec(0, 0x2e, b"a"), str(len(obs))] + obs
                    ops = ["a", spec(1, 0x2e, b"b"), v, "a", spec(0, 0x2e, b"a.b"), "3132", "a", spec(0, 0x2e, b"a"), v,
                           "r", spec(1, 0x2e, b"b"), "a", spec(0, 0x2f, b"a.b"), v, "r", spec(0, 0x2e, b"a")]
                else:
                    obs = [spec(0, 0x2e, b"a.b"), spec(0, 0x2e, b"a"), spec(0, 0x2f, b"a.b"), spec(0, 0x2e, b"a.b.c")]
                    hdr += ["0", str(len(obs))] + obs
                    ops = ["a", spec(0, 0x2e, b"a.b"), v, "a", spec(0, 0x2e, b"a.b"), "3132", "a", spec(0, 0x2e, b"a"), v,
                           "z", spec(0, 0x2e, b"a"), "a", spec(0, 0x2f, b"a.b"), v, "r", spec(0, 0x2e, b"a")]
                out.append(" ".join(hdr + ops))
        return out

    BLOCKLENS = [319, 320, 321, 447, 448, 449, 575, 576, 577]            # 128 * k - 64 and its neighbours
    MLENS = [0, 1, 5, 248, 249, 250, 251, 254, 255, 256, 300, 1000] + BLOCKLENS

    def gen_unsetcases(self):
        """mpt_meta_set / mpt_meta_new at the length limits of the metatypes that hold text (basic: up to 249 bytes,
        buffer beyond; 16-bit sizes at 65535): a value of every such length is assigned as string, vector of char and
        array of char, read back, assigned 'no value' (dropped up to 249 bytes, rewound and kept beyond), overwritten
        by a value of another length, through the global handle and through a view; an integer is refused in between"""
        out = []
        lens = self.MLENS + [65471, 65472, 65473, 65534, 65535, 65536, 65599, 65600, 65601]
        for k, n in enumerate(lens):
            v = hx(bytes([0x61 + k % 26]) * n)
            w = hx(bytes([0x41 + k % 26]) * self.MLENS[(k + 5) % len(self.MLENS)])
            obs = [spec(0, 0x2e, b"a.b"), spec(1, 0x2e, b"b"), spec(0, 0x2e, b"a"), spec(1, 0x2e, None), spec(0, 0x2e, b"a.b.c")]
            hdr = ["G", "1", spec(0, 0x2e, b"a"), str(len(obs))] + obs
            for ty in "svb":
                if (ty == "b" and n == 0) or (n > 60000 and ty != "sv"[n % 2]):
                    continue
                if n > 60000:
                    # the 16-bit neighbourhood: a shorter history (each value of this size costs the model about 0.1 s)
                    out.append(" ".join(hdr[:3] + ["2"] + obs[:2] + ["t", spec(0, 0x2e, b"a.b"), ty, v, "z", spec(1, 0x2e, b"b"),
                                                                   "a", spec(0, 0x2e, b"a.b"), w, "t", spec(1, 0x2e, b"b"), ty, v]))
                    continue
                ops = ["t", spec(0, 0x2e, b"a.b"), ty, v, "z", spec(1, 0x2e, b"b"), "t", spec(1, 0x2e, b"b"), "i", "-",
                       "t", spec(1, 0x2e, None), ty, v, "a", spec(0, 0x2e, b"a.b"), w, "z", spec(1, 0x2e, None),
                       "z", spec(0, 0x2e, b"a.b"), "t", spec(0, 0x2e, b"a.b.c"), "v", v, "z", spec(0, 0x2e, b"a.b.c"),
                       "r", spec(0, 0x2e, b"a.b"), "z", spec(0, 0x2e, b"a.b")]
                out.append(" ".join(hdr + ops))
        # the same lengths through the other stores (assign / overwrite / remove)
        for kind in "HRX":
            for k, n in enumerate([249, 250, 254, 255, 320, 448] + ([65472, 65535, 65536, 65600] if kind == "R" else [])):
                v = hx(bytes([0x61 + k]) * n)
                obs = [spec(0, 0x2e, b"a.b"), spec(0, 0x2e, b"a")]
                out.append(" ".join([kind, "0", str(len(obs))] + obs + ["a", spec(0, 0x2e, b"a.b"), v, "a", spec(0, 0x2e, b"a"), v,
                                                                      "a", spec(0, 0x2e, b"a.b"), "31", "r", spec(0, 0x2e, b"a")]))
        return out

    def gen_namecases(self):
        """element names at the 16-bit limit of the identifier (65534 fits, 65535 and 65536 do not): mpt_node_assign
        gives up AFTER the nodes in front were created and releases the value it had made; a view on such a base"""
        out = []
        for n, paths in ((65534, (b"a.%s.b", b"%s")), (65535, (b"a.%s.b", b"%s")), (65536, (b"a.%s",))):
            name = b"n" * n
            for pth in paths:
                pth = pth % name
                obs = [spec(0, 0x2e, pth), spec(0, 0x2e, b"a"), spec(0, 0x2e, b"a.x")]
                hdr = ["G", "0", str(len(obs))] + obs
                # assignment without value of a name that cannot be stored answers 0 although nothing was
                # created (configAssign: "return val ? BadOperation : 0"): outside the guard of the theorems
                unset = ["z", spec(0, 0x2e, pth)] if n == 65534 else []
                out.append(" ".join(hdr + ["a", spec(0, 0x2e, b"a.x"), "31", "a", spec(0, 0x2e, pth), "32"] + unset +
                                    ["a", spec(0, 0x2e, pth), hx(b"v" * 300), "r", spec(0, 0x2e, pth)]))
        return out

    def metaset_ops(self):
        return [["s", "6162"], ["s", hx(b"p" * 249)], ["s", hx(b"q" * 250)], ["v", "63"], ["i"], ["0"],
                ["obj", "a"], ["obj", "r"], ["cfg", "a"], ["cfg", "r"], ["it", "a"], ["it", "r"], ["view", "a"]]

    def exhaustive_metaset(self, depth):
        """every history of length <= depth of mpt_meta_set calls on one metatype reference over: text that fits the
        basic metatype (2 and 249 bytes), text that does not (250), a vector of char, an integer, no value, and the
        installation of a value that is an object / a configuration / an iterator (each accepting or refusing) or a
        view of the process-wide configuration"""
        out = []
        for n in range(1, depth + 1):
            for seq in itertools.product(self.metaset_ops(), repeat=n):
                out.append(" ".join(["M"] + [t for o in seq for t in o]))
        return out

    def gen_metaset(self, rng):
        ops = []
        for _ in range(rng.choice([4, 6, 9])):
            r = rng.random()
            if r < 0.45:
                n = rng.choice(self.MLENS + ([65472, 65535, 65536, 65600] if rng.random() < 0.05 else []))
                ops += [rng.choice("sv"), hx(bytes([rng.choice(b"abcxyz")]) * n)]
            elif r < 0.60:
                ops += ["0"]
            elif r < 0.68:
                ops += ["i"]
            else:
                ops += rng.choice(self.metaset_ops()[6:])
        return " ".join(["M"] + ops)

    # ------------------------------------------------------------------ kind N: mpt_node_locate / mpt_node_query
    LOC_IDS = ["n61", "n62", "n61", "n6162", "n-", "n61", "z0", "z2", "z3", "p1.1", "p4.1", "p4.2", "p4.0", "n6100", "n62"]

    def loc_keys(self):
        return ["d61", "d62", "d6162", "d-", "d6100", "d63", "c1.6100", "c1.61", "c1.00", "c0.-", "c0.0000", "c0.000000", "c1.-",
                "c4.-", "p4.1", "p4.2", "p4.0", "p1.1", "p1.0", "c2.6100", "x0", "x1"]

    def exhaustive_locate(self):
        """one list that holds every kind of identifier (names - repeated, one a prefix of another, empty, with an
        embedded NUL -, nameless identifiers of 0 / 2 / 3 zero bytes, pointer identifiers of two character sets and
        the NULL pointer): EVERY start node x EVERY position -4..4 x every key form (name with the default character
        set, raw bytes with an explicit one - with and without the terminator -, pointer keys, NULL with and without
        a length), and the NULL list"""
        ids = self.LOC_IDS
        out = []
        hdr = ["N", str(len(ids))] + ids
        for key in self.loc_keys():
            ops = []
            for start in range(len(ids)):
                for pos in range(-4, 5):
                    ops += ["loc", str(start), str(pos), key]
            ops += ["loc", "~", "1", key, "loc", "~", "0", key, "loc", "~", "-1", key]
            out.append(" ".join(hdr + ops))
        # short lists: one node, two nodes
        for ids in (["n61"], ["z0"], ["p4.1"], ["n61", "n61"], ["n62", "n61"], ["n61", "z0"], ["p4.1", "p4.1"], ["z2", "n61"]):
            ops = []
            for key in ("d61", "c0.-", "p4.1", "c1.6100", "c0.0000", "x1"):
                for start in range(len(ids)):
                    for pos in range(-2, 3):
                        ops += ["loc", str(start), str(pos), key]
            out.append(" ".join(["N", str(len(ids))] + ids + ops))
        # the lookup of the store on lists with repeated names and foreign identifiers between the names
        forests = [["n61/n62;n62;n63", "n61/n63;n64", "n62/n61", "z0/n61", "n-/n-;n61", "n61"],
                   ["z0", "p4.1/n62", "n61/z2;n62;p1.1;n62", "n61/n62", "n6162/n61;n61"],
                   ["n62", "z3", "n62/n61;z0;n61", "n-", "n-/n61"]]
        qs = [b"a", b"b", b"a.b", b"a.c", b"a.d", b"b.a", b"a.b.c", b"", b".", b".a", b"a.", b"ab", b"ab.a", b"c", b"a..b", b"..a", b"b.b"]
        for f in forests:
            ops = []
            for q in qs:
                ops += ["q", "2e", hx(q)]
            ops += ["q", "2f", hx(b"a/b"), "q", "2f", hx(b"a.b"), "q", "2e", "~"]
            out.append(" ".join(["N", str(len(f))] + f + ops))
        return out

    def gen_locate(self, rng):
        names = ["n61", "n62", "n61", "n6162", "n-", "n" + "78" * rng.choice([3, 4, 5, 27, 28, 29, 250, 300]), "n6100", "n00"]
        other = ["z0", "z1", "z4", "z5", "p4.1", "p4.2", "p1.1", "p4.0"]
        n = rng.choice([1, 2, 3, 5, 8, 12])
        ids = [rng.choice(names if rng.random() < 0.7 else other) for _ in range(n)]
        nodes = []
        for i in ids:
            if rng.random() < 0.4:
                i += "/" + ";".join(rng.choice(names[:5] if rng.random() < 0.8 else other) for _ in range(rng.choice([1, 2, 4])))
            nodes.append(i)
        ops = []
        for _ in range(rng.choice([4, 8, 16])):
            if rng.random() < 0.7:
                r = rng.random()
                if r < 0.5:
                    key = "d" + (rng.choice([i for i in ids + names if i[0] == "n"])[1:] if rng.random() < 0.85 else "63")
                elif r < 0.75:
                    i = rng.choice(ids)
                    if i[0] == "n":
                        key = "c1." + (i[1:] if i[1:] != "-" else "") + ("00" if rng.random() < 0.8 else "")
                        if key == "c1.":
                            key = "c1.-"
                    elif i[0] == "z":
                        k = int(i[1:]) + rng.choice([0, 0, 0, 1])
                        key = "c0." + ("00" * k if k else "-")
                    else:
                        key = i
                elif r < 0.9:
                    key = rng.choice(["p4.1", "p4.2", "p4.0", "p1.1", "c4.-", "c1.-", "c0.-"])
                else:
                    key = rng.choice(["x0", "x1", "x3"])
                start = "~" if rng.random() < 0.04 else str(rng.randrange(n))
                ops += ["loc", start, str(rng.choice([1, 1, 1, 0, -1, 2, -2, 3, -3, 7])), key]
            else:
                el = [bytes.fromhex(i.split("/")[0][1:]) if i[0] == "n" and i.split("/")[0][1:] != "-" else b"" for i in nodes if i[0] == "n"] or [b"a"]
                k = [rng.choice(el + [b"a", b"b", b""]) for _ in range(rng.choice([1, 2, 2, 3]))]
                s = b".".join(k)
                if b"\0" in s:
                    s = b"a.b"
                ops += ["q", "2e", hx(s)]
        return " ".join(["N", str(n)] + nodes + ops)

    def exhaustive_store(self, kind, depth):
        paths = [b"a", b"b", b"a.a", b"a.b", b""]
        obs = [spec(0, 0x2e, p) for p in paths] + [spec(0, 0x2e, b"a.a.a")]
        if kind == "J":
            obs.append(spec(0, 0x2e, b"zz"))
        hdr = [kind, "0", str(len(obs))] + obs
        single = []
        for i, p in enumerate(paths):
            single.append(["a", spec(0, 0x2e, p), "3%d" % i])
            single.append(["d" if kind == "J" or (kind in ("H", "X") and i % 2) else "r", spec(0, 0x2e, p)])
            if kind == "G" and p in (b"a", b"a.b"):
                single.append(["z", spec(0, 0x2e, p)])                # assignment without value
        out = []
        for n in range(1, depth + 1):
            for seq in itertools.product(single, repeat=n):
                out.append(" ".join(hdr + [t for o in seq for t in o]))
        return out

    def exhaustive_views(self, depth):
        """every history of length <= depth over the operations of one sub-tree view (base a.b) and the global
        handle around it: assign / remove through both, remove(NULL), node conversion, listing, clone, assignment
        without value (of the base element, of an element beneath it), refused assignment of a value without text"""
        base = spec(0, 0x2e, b"a.b")
        obs = [spec(0, 0x2e, b"a"), base, spec(1, 0x2e, None), spec(1, 0x2e, b"c"), spec(0, 0x2e, b"a.b.c")]
        hdr = ["G", "1", base, str(len(obs))] + obs
        single = [["a", spec(1, 0x2e, None), "31"], ["a", spec(1, 0x2e, b"c"), "32"], ["y", spec(1, 0x2e, None)],
                  ["n", spec(1, 0x2e, None)], ["r", spec(1, 0x2e, None)], ["r", spec(0, 0x2e, b"a")],
                  ["l", spec(0, 0x2e, b"a")], ["k", spec(1, 0x2e, None)],
                  ["z", spec(1, 0x2e, None)], ["z", spec(1, 0x2e, b"c")], ["t", spec(1, 0x2e, b"c"), "i", "-"]]
        out = []
        for n in range(1, depth + 1):
            for seq in itertools.product(single, repeat=n):
                out.append(" ".join(hdr + [t for o in seq for t in o]))
        return out

    def exhaustive_paths(self):
        out = []
        alpha = [0x2e, 0x3d, 0x61]
        for n in range(0, 5):
            for s in itertools.product(alpha, repeat=n):
                h = hx(bytes(s))
                for asg in ("00", "3d"):
                    out.append("P 2e %s set %s -1 next last set %s -1 last next next" % (asg, h, h))
                    for k in range(0, n + 1):
                        out.append("P 2e %s set %s %d next next set %s %d last" % (asg, h, k, h, k))
        out.append("P 2e 00 set ~ 0 next last del")
        # mpt_path_invalidate / last / del / add on a path without storage; add on a path in the caller's string
        out += ["P 2e 00 clr last del add 0", "P 2e 00 set ~ 0 clr add 0 add 1",
                "P 2e 00 set 612e62 -1 add 0 add 0 next next next next del del del",
                "P 2e 3d set 612e623d76616c -1 add 0 last", "P 2e 00 set 612e62 -1 next add 0 last del",
                "P 2e 00 set 612e62 3 add 0 next del last", "Q 2e 00 set 612e62 -1 add 0 cp add 0 del last"]
        # last / del behind consumed elements (offset), with post data, both modes
        for pre in ("", "bin "):
            out += ["P 2e 00 %spost 616263 add 3 post 6465 add 2 next last del" % pre,
                    "P 2e 00 %spost 616263 add 3 post 6465 add 2 next post 66 add 1 last" % pre,
                    "P 2e 00 %spost 616263 add 3 post 6465 add 2 next next post 66 add 1 next last del" % pre,
                    "P 2e 00 %spost 616263 add 3 post 6465 add 2 next del del add 0" % pre,
                    "P 2e 00 %spost 61 add 1 post 0500 add 0 del last" % pre,
                    "P 2e 00 %spost 6162 add 2 clr next clr post 63 clr clr" % pre,      # invalidate with nothing behind the path
                    "Q 2e 00 %spost 6162 add 2 clr next clr post 63 clr clr" % pre,
                    "P 2e 00 %spost 616263 add 3 post 64657a7a add 2 last del next" % pre,
                    "P 2e 00 %spost 616263 add 3 post 64657a7a add 2 next del post 71 add 1 last" % pre]
        return out

    def gen_pathcase(self, rng):
        sep = rng.choice(SEPS)
        asg = rng.choice([0, 0, 0x3d])
        ops = []
        mode = rng.random()
        def elem():
            n = rng.choice([0, 1, 1, 2, 3, 127, 128, 254, 255, 256, 257] if rng.random() < 0.3 else [0, 1, 2, 3])
            c = rng.choice(b"abxy")
            e = bytes([c]) * n if n > 4 else bytes(rng.choice(b"ab" + bytes([sep])) if rng.random() < 0.1 else rng.choice(b"abc") for _ in range(n))
            return e
        if mode < 0.45:
            # string through path_set, then walk / last / del
            el = [elem().replace(bytes([sep]), b"q") for _ in range(rng.choice([1, 2, 3, 4]))]
            s = bytes([sep]).join(el)
            if asg and rng.random() < 0.5:
                s += bytes([asg]) + b"val"
            form = ["set", hx(s)]
            if rng.random() < 0.25:
                # mpt::path::set(str, len, sep, assign): separator and / or assign character replaced first
                form = ["sets", hx(s)]
            if rng.random() < 0.7:
                ops += form + ["-1"]
            else:
                ops += form + [str(rng.randrange(0, len(s) + 1))]
            if form[0] == "sets":
                ops += [rng.choice(["~", "%02x" % sep, "%02x" % rng.choice(SEPS)]), rng.choice(["~", "00", "3d", "%02x" % asg])]
            for _ in range(rng.choice([1, 2, 4, 6])):
                # "add 0" on a path that lies in the caller's string: the branch of mpt_path_add without array
                # (path_add.c: pre = len + add; the path is copied into a new array, an empty element appended)
                if PATCHED_PATH_ADD_HASARRAY and rng.random() < 0.15:
                    ops += ["add", "0"]
                    continue
                ops += [rng.choice(["next", "next", "last", "del", "cp", "asg", "clr"] + (["fork"] if PATCHED_PATH_ADD_SHARED else []))]
        else:
            if rng.random() < 0.4:
                ops += ["bin"]
            for _ in range(rng.choice([2, 3, 5, 8])):
                r = rng.random()
                if r < 0.6:
                    e = elem()
                    extra = rng.choice([b"", b"", b"r", b"rs", b"rst"])
                    if len(e) + len(extra) == 0:
                        extra = b"r"
                    ops += ["post", hx(e + extra), "add", str(len(e) if rng.random() < 0.9 else len(e) + len(extra) + rng.choice([0, 1]))]
                elif r < 0.72:
                    ops += ["del"]
                elif r < 0.80:
                    # post data, then drop it again / copy the path / keep the original alive
                    e = elem()
                    ops += ["post", hx(e + b"pq" + elem()), rng.choice(["clr", "cp", "asg"] + (["fork", "fork"] if PATCHED_PATH_ADD_SHARED else []))]
                    if ops[-1] != "clr":
                        # go on with the copy while post data is still there
                        ops += rng.choice([["add", str(len(e))], ["add", str(len(e))], ["clr"], ["del"], ["next"], []])
                elif r < 0.93:
                    ops += ["next"]
                else:
                    ops += ["last"]
        return " ".join(["P", "%02x" % sep, "%02x" % asg] + ops)

    def gen_stradd(self, rng):
        """mpt_path_add on a path that lies in the caller's string: set (string or explicit length, with assign
        character or cut short so that bytes are left behind the path), optionally next / last / del (the deleted
        element and its end byte are behind the path again), then add n with n <= the bytes behind - also with a
        separator inside (refused) -, then anything: repeated adds (refused until post data is there, add 0 accepted),
        post + add, next, last, del, clear, copies.  The abstract path is tracked here only to keep n inside the string."""
        sep = rng.choice(SEPS)
        asg = rng.choice([0x3d, 0x3d, 0])
        alpha = bytes(c for c in b"abcxyz" if c not in (sep, asg))
        def word(maxn=3):
            n = rng.choice([0, 1, 1, 2, 3, 40, 254, 255, 256] if rng.random() < 0.15 else list(range(maxn + 1)))
            return bytes(rng.choice(alpha) for _ in range(n)) if n < 9 else bytes([rng.choice(alpha)]) * n
        el = [word() for _ in range(rng.choice([1, 2, 2, 3]))]
        head = bytes([sep]).join(el)
        tail = b"".join(rng.choice([word(4), word(4), bytes([sep]), bytes([asg]) if asg else b"q"]) for _ in range(rng.choice([1, 2, 3, 5])))
        if asg and rng.random() < 0.7:
            s, ln = head + bytes([asg]) + tail, -1
            term = asg
        else:
            s = head + rng.choice(alpha[:1] + bytes([sep])).to_bytes(1, "little") + tail
            ln = len(head)
            term = s[ln]
            if asg and asg in head:
                ln = -1
        if not s:
            s, ln, term = b"a", 0, 0x61
        # the abstract path while it lies in the string (mirror of astep)
        mem = s + b"\0"
        data = (s.split(b"\0")[0] + b"\0") if ln < 0 else mem[:ln]
        body = data.split(bytes([asg]))[0] if asg in data else data
        if ln < 0:
            body = body.split(b"\0")[0]
        elems = body.split(bytes([sep]))
        behind = mem[len(body) + 1:]
        term = mem[len(body)] if len(body) < len(mem) else 0
        ops = ["set", hx(s), str(ln)]
        instr = True
        for _ in range(rng.choice([2, 3, 5, 8])):
            r = rng.random()
            if instr:
                if r < 0.12 and elems:
                    ops += ["next"]; elems = elems[1:]
                elif r < 0.18 and elems:
                    ops += ["last"]; elems = elems[-1:]
                elif r < 0.32 and elems:
                    ops += ["del"]; e = elems.pop(); behind = e + bytes([term]) + behind; term = sep
                elif r < 0.38:
                    ops += [rng.choice(["clr", "cp", "asg", "fork"])]
                elif r < 0.44:
                    d = word(3) + b"r"
                    ops += ["post", hx(d)]; instr = False
                else:
                    k = rng.choice([0, 1, 1, 2, 3, len(behind), max(0, len(behind) - 1), 255, 256])
                    k = min(k, len(behind))
                    ops += ["add", str(k)]
                    if sep not in behind[:k]:
                        instr = False
            else:
                if r < 0.35:
                    ops += ["add", str(rng.choice([0, 0, 1, 1, 2, 3]))]
                elif r < 0.55:
                    e = word(3)
                    ops += ["post", hx(e + rng.choice([b"", b"r", b"rs"]) or b"r"), "add", str(len(e))]
                else:
                    ops += [rng.choice(["next", "last", "del", "del", "clr", "cp", "asg", "fork"])]
        return " ".join(["P", "%02x" % sep, "%02x" % asg] + ops)

    def gen_forkcase(self, rng):
        """an mpt::path with elements and post data is copied; the copy is changed while the
        original stays alive and must go on denoting what it did (kind Q only)"""
        sep = rng.choice(SEPS)
        ops = ["bin"] if rng.random() < 0.25 else []
        def el():
            n = rng.choice([1, 1, 2, 3, 5, 40] if rng.random() < 0.9 else [127, 254, 255])
            return bytes(rng.choice(b"abc") for _ in range(n))
        for _ in range(rng.choice([0, 1, 2, 3])):
            e = el()
            ops += ["post", hx(e + b"r"), "add", str(len(e))]
        e = el()
        ops += ["post", hx(e + b"pq" + el() + b"s" + el()), "fork"]
        for _ in range(rng.choice([1, 1, 2, 3])):
            ops += rng.choice([["add", str(len(e))], ["add", str(len(e))], ["add", "1"], ["clr"], ["del"], ["next"],
                               ["post", hx(el() + b"t")], ["cp"], ["asg"], ["fork"]])
        return " ".join(["Q", "%02x" % sep, "00"] + ops)

    def generate(self, rng, tier):
        cases = []
        depth = 3 if tier == "quick" else 4
        for kind in "GRJ":
            cases += self.exhaustive_store(kind, depth)
        # the C++ views of the same stores (wrappers config::set / del / get<T>): one level less
        for kind in "HX":
            cases += self.exhaustive_store(kind, depth - 1)
        cases += self.exhaustive_views(depth)
        cases += self.exhaustive_paths()
        cases.append("T")
        n = 700 if tier == "quick" else 20000
        for i in range(n):
            cases.append(self.gen_store(rng, "GHRXJGHRX"[i % 9]))
        for i in range(n):
            c = self.gen_pathcase(rng)
            # every fourth path history goes through the C++ mpt::path methods (set / add / del)
            cases.append("Q" + c[1:] if i % 4 == 3 else c)
        if PATCHED_PATH_ADD_SHARED:
            for i in range(150 if tier == "quick" else 4000):
                cases.append(self.gen_forkcase(rng))
        if PATCHED_GET_CONVERTABLE:
            cases += self.gen_convcases()
        cases += self.gen_unsetcases()
        cases += self.gen_namecases()
        cases += self.exhaustive_metaset(depth)
        cases += self.exhaustive_locate()
        if PATCHED_PATH_ADD_HASARRAY:
            for i in range(500 if tier == "quick" else 10000):
                c = self.gen_stradd(rng)
                cases.append("Q" + c[1:] if i % 3 == 2 else c)
        else:
            cases = [c for c in cases if not needs_hasarray(c)]
        for i in range(400 if tier == "quick" else 8000):
            cases.append(self.gen_locate(rng))
        for i in range(300 if tier == "quick" else 6000):
            cases.append(self.gen_metaset(rng))
        return [self.conv_form(self.clear_form(c)) for c in cases]

    @staticmethod
    def conv_form(case):
        """once config_get.c is patched every store case also asks for the value itself (kind suffix c)"""
        if PATCHED_GET_CONVERTABLE and case[:2] in ("G ", "H ", "R ", "X "):
            return case[0] + "c" + case[1:]
        return case

    def corpus(self):
        cs = DiffProperty.corpus(self)
        if not PATCHED_PATH_ADD_HASARRAY:
            cs = [c for c in cs if not needs_hasarray(c)]
        if PATCHED_GET_CONVERTABLE:
            return [self.conv_form(c) for c in cs]
        return [c for c in cs if c.split()[0] not in ("Gc", "Hc", "Rc", "Xc")]

    def clear_form(self, case):
        """mpt::path::clear_data (kind Q) as it is in /repo: "clrx" while unpatched (and never on a forked path)"""
        if not case.startswith("Q ") or PATCHED_CLEAR_DATA_SHARED or " clr" not in case:
            return case
        out, forked = [], False
        for t in case.split():
            if t == "fork":
                forked = True
            if t == "clr":
                if forked:
                    continue
                t = "clrx"
            out.append(t)
        return " ".join(out)


PROP = C10()
