"""C09 — configuration text is read back faithfully (mptcore/parse/*.c, node_append.c, meta/meta_new.c)."""
import glob, os
import vcheck
from vcheck import DiffProperty, build_harness, build_model, run_cases
from c08 import hx, cstr

WSCH = [32, 32, 32, 9, 10, 10, 13, 11, 12]
HWSCH = [32, 32, 9, 13]
NAME_ALNUM = list(b"abcdefgxyzABCXYZ")
NAME_DIG = list(b"0123456789")
NAME_SPECIAL = list(b"_-+*/!?$&@~^|;:,<>()\"'`\\")
VAL_PLAIN = list(b"abcdefXYZ0123456789.,:/_-+*=<>{}[]()%|!")
VAL_HARD = [32, 32, 9, 34, 39, 35, 92, 10, 0x80, 0xff, 0x7f, 1]
ACCEPTS = [None, None, None, b"ESNWBFCesnwbfc", b"ns", b"nsNS", b"nswNSW", b"Esc", b"", b"fcFC"]


def chunked(bs):
    """bytes -> chunk token (runs compressed)"""
    out, i, n = [], 0, len(bs)
    lit = []
    while i < n:
        j = i
        while j < n and bs[j] == bs[i]:
            j += 1
        if j - i >= 48:
            if lit:
                out.append(hx(lit))
                lit = []
            out.append("%02x*%d" % (bs[i], j - i))
        else:
            lit += bs[i:j]
        i = j
    if lit:
        out.append(hx(lit))
    return ",".join(out)


def unchunk(tok):
    out = []
    if tok == "":
        return out
    for c in tok.split(","):
        if "*" in c:
            b, n = c.split("*")
            out += [int(b, 16)] * int(n)
        else:
            out += [int(c[i:i + 2], 16) for i in range(0, len(c), 2)]
    return out


def items_tok(items):
    if not items:
        return "~"

    def one(t):
        if t[0] == "o":
            return "(o:%s:%s)" % (chunked(t[1]), chunked(t[2]))
        return "(s:%s:%s)" % (chunked(t[1]), "".join(one(k) for k in t[2]))
    return "".join(one(t) for t in items)


def parse_items(s):
    pos = [0]

    def field():
        j = pos[0]
        while j < len(s) and s[j] not in ":()":
            j += 1
        f = s[pos[0]:j]
        pos[0] = j
        return f

    def forest():
        out = []
        while pos[0] < len(s) and s[pos[0]] == "(":
            kind = s[pos[0] + 1]
            pos[0] += 3
            name = unchunk(field())
            pos[0] += 1
            if kind == "o":
                out.append(("o", name, unchunk(field())))
            else:
                out.append(("s", name, forest()))
            pos[0] += 1
        return out
    return [] if s == "~" else forest()


def deco_tok(d):
    return ":".join([hx(d["lead"]), "|".join(hx(c) for c in d["com"]), hx(d["ind"]), hx(d["m1"]), hx(d["m2"]),
                     str(d["q"]), hx(d["tr"]), "-" if d["tc"] is None else "c" + hx(d["tc"]), "1" if d["nl"] else "0"])


def count_items(items):
    return sum(1 if t[0] == "o" else 2 + count_items(t[2]) for t in items)


class C09(DiffProperty):
    pid = "C09"
    claimed = True
    coq_dir = "C08"
    propfile = "Properties_C09.v"
    extract_vo = "C08/Extract09.vo"
    mlname = "c09_model"
    driver = "c09_driver.ml"
    harness_src = "c09_roundtrip.c"
    libs = ["mptcore"]
    harness_env = dict(vcheck.ASAN_LEAK_ENV, ASAN_OPTIONS=vcheck.ASAN_LEAK_ENV["ASAN_OPTIONS"] + ":symbolize=0")
    harness_args = ("4",)
    quick_n = 6000
    thorough_n = 100000

    # ---- model first (it prints the text), then the implementation on that text
    def evaluate(self, cases, workdir, tagsuffix=""):
        hxe = build_harness(self.harness_src, self.libs, extra=self.extra_harness_flags)
        mx = build_model(self.mlname, self.driver, self.extract_vo)
        ided = ["c%d %s" % (i, c) for i, c in enumerate(cases)]
        for f in glob.glob(os.path.join(workdir, "model%s_*.out" % tagsuffix)):
            os.unlink(f)
        M, e2 = run_cases(mx, ided, workdir, "model" + tagsuffix)
        xs = []
        for f in glob.glob(os.path.join(workdir, "model%s_*.out" % tagsuffix)):
            for line in open(f, errors="replace"):
                if line.startswith("X "):
                    xs.append(line[2:].rstrip("\n"))
        I, e1 = run_cases(hxe, xs, workdir, "impl" + tagsuffix, env=self.harness_env, args=self.harness_args) if xs else ({}, [])
        res = []
        for i, c in enumerate(cases):
            k = "c%d" % i
            res.append(self.compare(c, I.get("I", {}).get(k), M.get("M", {}).get(k), M.get("S", {}).get(k)))
        return res, e1 + e2

    def split(self, case):
        t = case.split()
        return t[:2], [[t[2]], [t[3]]]

    def classify(self, case):
        st, acc, items, decos = case.split()
        cl = {"style:" + st}
        if acc != "N":
            cl.add("name-flags")
        its = parse_items(items)

        def walk(l, depth):
            names = [tuple(t[1]) for t in l]
            if len(set(names)) < len(names):
                cl.add("duplicate-names")
            for t in l:
                if t[0] == "s":
                    cl.add("depth>=%d" % min(depth + 1, 3))
                    if not t[2]:
                        cl.add("empty-section")
                    walk(t[2], depth + 1)
                else:
                    n = len(t[2])
                    if n == 0:
                        cl.add("empty-value")
                    if 249 <= n <= 257:
                        cl.add("value-249..257")
                    if 65534 <= n <= 65537:
                        cl.add("value-65534..65537")
                    if any(b in (34, 39) for b in t[2]):
                        cl.add("value-with-quote")
                    if t[2] and (t[2][0] in (32, 9) or t[2][-1] in (32, 9)):
                        cl.add("value-edge-blank")
                    if 10 in t[2]:
                        cl.add("value-with-newline")
                if len(t[1]) > 255:
                    cl.add("name>255")
        walk(its, 0)
        if decos != "~":
            cl.add("decorated")
            if "|" in decos or any(r.split(":")[1] for r in decos.split(";")):
                cl.add("comment-lines")
        return cl

    def shrink_candidates(self, case):
        st, acc, items, decos = case.split()
        its = parse_items(items)
        mk = lambda a, i, d: " ".join([st, a, items_tok(i), d])
        if decos != "~":
            yield mk(acc, its, "~")
            ds = decos.split(";")
            for k in range(len(ds)):
                yield mk(acc, its, ";".join(ds[:k] + ds[k + 1:]) or "~")
        if acc != "N":
            yield mk("N", its, decos)

        def variants(l):
            for k in range(len(l)):
                yield l[:k] + l[k + 1:]
                t = l[k]
                if t[0] == "s":
                    yield l[:k] + t[2] + l[k + 1:]
                    for v in variants(t[2]):
                        yield l[:k] + [("s", t[1], v)] + l[k + 1:]
                    if len(t[1]) > 1:
                        yield l[:k] + [("s", t[1][:len(t[1]) // 2], t[2])] + l[k + 1:]
                else:
                    for nv in (t[2][:len(t[2]) // 2], t[2][1:], t[2][:-1]):
                        if len(nv) < len(t[2]):
                            yield l[:k] + [("o", t[1], nv)] + l[k + 1:]
                    if len(t[1]) > 1:
                        yield l[:k] + [("o", t[1][:len(t[1]) // 2], t[2])] + l[k + 1:]
        n = 0
        for v in variants(its):
            yield mk(acc, v, decos)
            n += 1
            if n > 300:
                break

    # ---- generator
    def gen_name(self, rng, st, acc, level):
        r = rng.random()
        n = rng.choice([1, 1, 2, 3, 5, 8])
        if acc in (None, b"ESNWBFCesnwbfc"):
            pool = NAME_ALNUM * 3 + NAME_DIG + NAME_SPECIAL + ([0x80, 0xe9, 0xff, 0x7f, 1] if r < 0.2 else [])
            nm = [rng.choice(pool) for _ in range(n)]
            if st == "p" and n >= 3 and rng.random() < 0.25:
                nm[rng.randrange(1, n - 1)] = rng.choice([32, 9])
        elif acc in (b"ns", b"nsNS", b"Esc"):
            nm = [rng.choice(NAME_ALNUM * 3 + NAME_DIG + NAME_SPECIAL) for _ in range(n)]
            if acc == b"Esc" and nm[0] in NAME_DIG:
                nm[0] = 0x61
        elif acc == b"nswNSW":
            nm = [rng.choice(NAME_ALNUM * 3 + NAME_DIG + NAME_SPECIAL) for _ in range(n)]
            if st == "p" and n >= 3:
                nm[1] = 32
        elif acc == b"fcFC":
            nm = [rng.choice(NAME_ALNUM * 2 + NAME_DIG) for _ in range(n)]
        else:
            nm = [rng.choice(NAME_ALNUM)] + [rng.choice(NAME_ALNUM + NAME_DIG) for _ in range(n - 1)]
        # characters no name can be written with are replaced most of the time
        if rng.random() < 0.97:
            bad = {10, 35, 46, 61, 0} | ({123, 125} if st == "p" else {37} if st == "x" else {91, 93})
            if st != "p":
                bad |= {9, 11, 12, 13, 32}
            nm = [0x6b if c in bad else c for c in nm]
        return nm

    def gen_value(self, rng):
        k = rng.random()
        if k < 0.08:
            return []
        n = rng.choice([1, 2, 3, 5, 8, 13, 30])
        if k < 0.55:
            v = [rng.choice(VAL_PLAIN) for _ in range(n)]
            if n > 2 and rng.random() < 0.4:
                v[rng.randrange(1, n - 1)] = 32
            return v
        v = [rng.choice(VAL_PLAIN + VAL_HARD * 2) for _ in range(n)]
        if rng.random() < 0.7 and v[-1] == 92:
            v[-1] = 0x61
        return v

    def gen_items(self, rng, st, acc, depth, fan, names):
        out = []
        for _ in range(rng.randrange(0, fan + 1)):
            nm = rng.choice(names) if names and rng.random() < 0.25 else self.gen_name(rng, st, acc, depth)
            names.append(nm)
            if depth > 0 and rng.random() < 0.4:
                out.append(("s", nm, self.gen_items(rng, st, acc, depth - 1, fan, names)))
            else:
                out.append(("o", nm, self.gen_value(rng)))
        return out

    def gen_flat(self, rng, st, acc):
        names = []
        opts = [("o", self.gen_name(rng, st, acc, 0), self.gen_value(rng)) for _ in range(rng.randrange(0, 4))]
        secs = []
        for _ in range(rng.randrange(0, 5)):
            nm = rng.choice(names) if names and rng.random() < 0.25 else self.gen_name(rng, st, acc, 0)
            names.append(nm)
            secs.append(("s", nm, [("o", self.gen_name(rng, st, acc, 1), self.gen_value(rng)) for _ in range(rng.randrange(0, 5))]))
        return opts + secs

    def gen_deco(self, rng, level):
        if level == 0:
            return dict(lead=[], com=[], ind=[], m1=[32], m2=[32], q=0, tr=[], tc=None, nl=False)
        r = rng.random
        junk = lambda n: [rng.choice(VAL_PLAIN + [32, 32, 35, 34, 39, 92, 10, 0, 0xff]) for _ in range(n)]
        return dict(lead=[rng.choice(WSCH) for _ in range(rng.choice([0, 0, 1, 2, 4]))],
                    com=[junk(rng.choice([0, 3, 9, 20])) for _ in range(rng.choice([0, 0, 0, 1, 2]))],
                    ind=[rng.choice(WSCH) for _ in range(rng.choice([0, 1, 2, 4]))],
                    m1=[rng.choice(HWSCH + ([10] if r() < 0.1 else [])) for _ in range(rng.choice([0, 0, 1, 1, 2, 5]))],
                    m2=[rng.choice(HWSCH + ([10] if r() < 0.1 else [])) for _ in range(rng.choice([0, 0, 1, 1, 2, 5]))],
                    q=rng.choice([0, 0, 0, 34, 39, 7]),
                    tr=[rng.choice(HWSCH) for _ in range(rng.choice([0, 0, 1, 3]))],
                    tc=junk(rng.choice([0, 4, 12])) if r() < 0.15 else None,
                    nl=r() < 0.2)

    def generate(self, rng, tier):
        cases = []
        n = self.quick_n if tier == "quick" else self.thorough_n
        # value lengths across the representation limits, plain and quoted, in the three styles
        lens = [248, 249, 250, 251, 254, 255, 256, 257] + ([65534, 65535, 65536, 65537] if tier == "thorough" else [65535, 65536])
        for ln in lens:
            for st in "pxsy":
                for q in ((0, 34) if ln < 1000 else (0,)):
                    its = [("o", list(b"k"), [0x76] * ln)] if st in "py" else [("s", list(b"sec"), [("o", list(b"kk"), [0x76] * ln)])]
                    d = self.gen_deco(rng, 0)
                    d["q"] = q
                    cases.append(" ".join([st, "N", items_tok(its), ";".join([deco_tok(d)] * 3)]))
        for ln in (255, 256, 257, 65534, 65535):
            for st in "pxs":
                its = [("s", [0x6e] * ln, [("o", [0x6d] * ln, list(b"1"))])]
                cases.append(" ".join([st, "N", items_tok(its), "~"]))
            cases.append(" ".join(["y", "N", items_tok([("o", [0x6d] * ln, list(b"1"))]), "~"]))
        for i in range(n):
            st = rng.choice("pppxxssy")
            acc = rng.choice(ACCEPTS)
            if st == "p":
                its = self.gen_items(rng, st, acc, rng.choice([0, 1, 2, 3, 5]), rng.choice([1, 2, 3, 6]), [])
            elif st == "y":
                its = self.gen_items(rng, st, acc, 0 if rng.random() < 0.9 else 1, rng.choice([0, 1, 3, 6]), [])
            elif rng.random() < 0.9:
                its = self.gen_flat(rng, st, acc)
            else:
                its = self.gen_items(rng, st, acc, 2, 3, [])
            level = rng.choice([0, 1, 1, 1])
            nd = count_items(its) + 1
            decos = ";".join(deco_tok(self.gen_deco(rng, level)) for _ in range(nd)) if level or rng.random() < 0.5 else "~"
            cases.append(" ".join([st, cstr(acc), items_tok(its), decos]))
        return cases

    rule = ("a case = style (prefix '*' default format / enclosed \"%x% = #\" / separated \"[ ] = #\" / enclosed with distinct "
            "delimiters \"[x] = #\", option lists only) x name-flag string x tree x "
            "decoration list; the text is produced by the extracted Gallina printer (print style deco tree) and handed to the C parser; "
            "trees: depth <= 5, fan-out <= 6, duplicate names (25%), empty sections, empty values, names over letters/digits/special "
            "characters/blanks/high bytes as the flags permit, values plain, with inner blanks, with quotes, backslashes, comment "
            "characters, newlines, edge blanks, high bytes; value lengths 248..257 plain and quoted and 65535, 65536 (thorough: "
            "65534..65537) in all three styles; names of 255..257 and 65534, 65535 bytes; decorations: blank lines, indentation with "
            "all six white space characters, comment lines and trailing comments with arbitrary bytes (the printer removes newlines), "
            "blanks around delimiters, quoting choice, opening brace on the next line; 3% of the names keep characters that cannot be "
            "written and 10% of the enclosed/separated trees are nested deeper than the style can express: for those the "
            "specification makes no claim (r* d*); a case is non-trivial always; distinct = distinct case text")
    modelled = ("as C08 plus the value path of mptcore/meta/meta_new.c (basic metatype below 250 bytes, buffer metatype above; bytes "
                "only) and parse/node_append.c (child after a section start, sibling otherwise); the printer and the well-formedness "
                "conditions are Gallina definitions (coq/C08/PrintModel.v)")
    trusted = ["harness/c09_roundtrip.c reads names with mpt_node_ident, values through the metatype's own conversion (vector of "
               "char, terminating zero removed) and checks parent/prev links directly",
               "the text the C parser receives is the one the model printed: length and FNV hash are compared (token t)",
               "an empty value and no value are the same observation (both dumped as n)"]
    level_text = ("proof: Coq theorems C09_print_parse_roundtrip and C09_decoration_irrelevant state for the prefix style '*' (default "
                  "format) that for EVERY well-formed tree (any depth and fan-out, duplicate names, empty sections, empty values, names "
                  "with inner blanks, values of any length below 2^31 bytes, plain or quoted), EVERY decoration list (blank lines, "
                  "indentation, comment lines, blanks around delimiters, trailing comments, quoting choice, brace placement) and "
                  "EVERY name-flag set, parsing the printed text succeeds and yields exactly the tree (quotes removed, escaped quotes "
                  "kept), hence the result does not depend on the decoration; C09_print_parse_roundtrip_{enc,sep,encd}_partial and "
                  "C09_decoration_irrelevant_{enc,sep}_partial state the same for the enclosed, separated and options-only enclosed "
                  "style for every tree those styles can express (options first, one level of sections, names without white space); "
                  "by induction over the tree on top of symbolic-execution lemmas for the transcribed parser.  The model is tied to "
                  "the code on every run: the extracted printer produces the text, the C parser reads it under "
                  "ASan/UBSan/LeakSanitizer, the resulting tree is compared with the source tree and with the model's parse")
    level_note = ("trusted: Coq kernel; hand transcription of the parser (validated by the correspondence run, not verified); "
                  "extraction and OCaml driver; harness.  PARTIAL for the enclosed / separated styles only in that their theorems "
                  "assume what the styles can express (wf_items: options first, sections one level deep holding options only — the "
                  "code itself ends an open section at the next section start) and names without embedded white space (the first "
                  "name character is followed by mpt_parse_nextvis in mpt_parse_option, which drops a blank there); trees outside "
                  "these conditions are generated too and compared against the model only.  Well-formedness (wf_items) excludes "
                  "names with newline, delimiter, comment character, path separator '.', blanks at the ends, empty names, names "
                  "above 65534 bytes, and values that end in a backslash AND cannot be written plain.  An empty value and no value "
                  "are the same observation.  Metatype storage (inline below 250 bytes, buffer above) is modelled for its bytes "
                  "only.  The theorems hold for /repo main with the fix: commits listed in docs/notes_C09.md.  All 7 theorems are "
                  "closed under the global context (no axioms).")
    technique = "Coq proof (print/parse round trip by induction over the tree) + differential correspondence check"
    assumptions = ["allocation succeeds", "value lengths stay below 2^32 (width of parser_context.valid after the fix) and INT_MAX"]


PROP = C09()
