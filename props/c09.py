"""C09 — configuration text is read back faithfully (mptcore/parse/*.c, node_append.c, meta/meta_new.c, meta_geninfo.c,
array/meta_buffer.c)."""
import glob, os
import vcheck
from vcheck import DiffProperty, build_harness, build_model, run_cases
from c08 import hx, cstr

WSCH = [32, 32, 32, 9, 10, 10, 13, 11, 12]
HWSCH = [32, 32, 9, 13]
NAME_ALNUM = list(b"abcdefgxyzABCXYZ")
NAME_DIG = list(b"0123456789")
NAME_SPECIAL = list(b"_-+*/!?$&@~^|;:,<>()\"'`\\")
VAL_PLAIN = list(b"abcdefXYZ0123456789.,:/_-+*=<>{}[]()%|!")
VAL_HARD = [32, 32, 9, 34, 39, 35, 92, 10, 0x80, 0xff, 0x7f, 1]
ACCEPTS = [None, None, None, b"ESNWBFCesnwbfc", b"ns", b"nsNS", b"nswNSW", b"Esc", b"", b"fcFC"]
NAME_BLANKS = [32, 32, 32, 9, 11, 12, 13]

# One switch per proposed patch of docs/C09_<topic>.diff.  While a patch is not in the tree under test its switch keeps
# the cases that need it out of the generator and selects the model variant of the code as it is.
# PATCHED_OPTION_NAME_BLANK: docs/C09_option_name_blank.diff (mptcore/parse/parse_option.c).  In the enclosed and separated
#   styles the white space (and newlines, comments) behind the FIRST character of an option name is dropped: "a b = 1" is
#   read as option "ab".  False: the model runs mpt_parse_option as it is (allow.araw = false in coq/C08/ParseModel.v) and
#   no generated option name of the styles x / s / y has white space as its second character; True: the model runs the
#   patched variant (--raw for ml/c08_driver.ml and ml/c09_driver.ml) and such names are generated.
PATCHED_OPTION_NAME_BLANK = True
# PATCHED_GENINFO_CLONE: docs/C09_geninfo_clone.diff (mptcore/misc/geninfo_clone.c).  The clone of a basic metatype (texts up
#   to 249 bytes) takes the terminator for text: its vector view grows by one zero byte per clone, and the clone of a 249 byte
#   value is a buffer metatype that no longer answers the string conversion.  The model (coq/C08/MetaModel.v) is the code AS
#   PATCHED; False: no generated value-store case clones a basic metatype (clones of buffer metatypes are generated).
PATCHED_GENINFO_CLONE = True
# both patches are committed in /repo (a51aad0, 01479c1): constants


def chunked(bs):
    """bytes -> chunk token (runs compressed)"""
    out, i, n = [], 0, len(bs)
    lit = []
    while i < n:
        j = i
        while j < n and bs[j] == bs[i]:
            j += 1
        if j - i >= 48:
            if lit:
                out.append(hx(lit))
                lit = []
            out.append("%02x*%d" % (bs[i], j - i))
        else:
            lit += bs[i:j]
        i = j
    if lit:
        out.append(hx(lit))
    return ",".join(out)


def unchunk(tok):
    out = []
    if tok == "":
        return out
    for c in tok.split(","):
        if "*" in c:
            b, n = c.split("*")
            out += [int(b, 16)] * int(n)
        else:
            out += [int(c[i:i + 2], 16) for i in range(0, len(c), 2)]
    return out


def items_tok(items):
    if not items:
        return "~"

    def one(t):
        if t[0] == "o":
            return "(o:%s:%s)" % (chunked(t[1]), chunked(t[2]))
        return "(s:%s:%s)" % (chunked(t[1]), "".join(one(k) for k in t[2]))
    return "".join(one(t) for t in items)


def parse_items(s):
    pos = [0]

    def field():
        j = pos[0]
        while j < len(s) and s[j] not in ":()":
            j += 1
        f = s[pos[0]:j]
        pos[0] = j
        return f

    def forest():
        out = []
        while pos[0] < len(s) and s[pos[0]] == "(":
            kind = s[pos[0] + 1]
            pos[0] += 3
            name = unchunk(field())
            pos[0] += 1
            if kind == "o":
                out.append(("o", name, unchunk(field())))
            else:
                out.append(("s", name, forest()))
            pos[0] += 1
        return out
    return [] if s == "~" else forest()


def deco_tok(d):
    return ":".join([hx(d["lead"]), "|".join(hx(c) for c in d["com"]), hx(d["ind"]), hx(d["m1"]), hx(d["m2"]),
                     str(d["q"]), hx(d["tr"]), "-" if d["tc"] is None else "c" + hx(d["tc"]), "1" if d["nl"] else "0"])


def count_items(items):
    return sum(1 if t[0] == "o" else 2 + count_items(t[2]) for t in items)


class C09(DiffProperty):
    pid = "C09"
    claimed = True
    coq_dir = "C08"
    propfile = "Properties_C09.v"
    extract_vo = "C08/Extract09.vo"
    mlname = "c09_model"
    driver = "c09_driver.ml"
    harness_src = "c09_roundtrip.c"
    libs = ["mptcore"]
    harness_env = dict(vcheck.ASAN_LEAK_ENV, ASAN_OPTIONS=vcheck.ASAN_LEAK_ENV["ASAN_OPTIONS"] + ":symbolize=0")
    harness_args = ("4",)
    quick_n = 6000
    thorough_n = 100000

    # ---- model first (it prints the text), then the implementation on that text
    def evaluate(self, cases, workdir, tagsuffix=""):
        hxe = build_harness(self.harness_src, self.libs, extra=self.extra_harness_flags)
        mx = build_model(self.mlname, self.driver, self.extract_vo)
        ided = ["c%d %s" % (i, c) for i, c in enumerate(cases)]
        for f in glob.glob(os.path.join(workdir, "model%s_*.out" % tagsuffix)):
            os.unlink(f)
        M, e2 = run_cases(mx, ided, workdir, "model" + tagsuffix, args=("--raw",) if PATCHED_OPTION_NAME_BLANK else ())
        xs = []
        for f in glob.glob(os.path.join(workdir, "model%s_*.out" % tagsuffix)):
            for line in open(f, errors="replace"):
                if line.startswith("X "):
                    xs.append(line[2:].rstrip("\n"))
        I, e1 = run_cases(hxe, xs, workdir, "impl" + tagsuffix, env=self.harness_env, args=self.harness_args) if xs else ({}, [])
        res = []
        for i, c in enumerate(cases):
            k = "c%d" % i
            res.append(self.compare(c, I.get("I", {}).get(k), M.get("M", {}).get(k), M.get("S", {}).get(k)))
        return res, e1 + e2

    def corpus(self):
        """a corpus line `@OPTION_NAME_BLANK <case>` is used only when the named PATCHED_ switches are on"""
        out = []
        for line in DiffProperty.corpus(self):
            if line.startswith("@"):
                need, line = line[1:].split(None, 1)
                if not all(globals().get("PATCHED_" + n, False) for n in need.split(",")):
                    continue
            out.append(line)
        return out

    def split(self, case):
        t = case.split()
        if t[0] == "m":
            return t[:2], [[o] for o in t[2:]]
        return t[:2], [[t[2]], [t[3]]]

    def classify_meta(self, case):
        t = case.split()
        n = len(unchunk(t[1])) if t[1] != "-" else 0
        cl = {"value-store", "store:" + ("basic" if n <= 249 else "buffer")}
        if 248 <= n <= 251:
            cl.add("store-length-248..251")
        if n >= 65535:
            cl.add("store-length>=65535")
        for o in ("clone", "iter", "news", "newi", "newg", "newb"):
            if o in t[2:]:
                cl.add("store-op:" + o)
        return cl

    def classify(self, case):
        if case.startswith("m "):
            return self.classify_meta(case)
        st, acc, items, decos = case.split()
        cl = {"style:" + st}
        if acc != "N":
            cl.add("name-flags")
        its = parse_items(items)

        def walk(l, depth):
            names = [tuple(t[1]) for t in l]
            if len(set(names)) < len(names):
                cl.add("duplicate-names")
            for t in l:
                if t[0] == "s":
                    cl.add("depth>=%d" % min(depth + 1, 3))
                    if not t[2]:
                        cl.add("empty-section")
                    walk(t[2], depth + 1)
                else:
                    n = len(t[2])
                    if n == 0:
                        cl.add("empty-value")
                    if 249 <= n <= 257:
                        cl.add("value-249..257")
                    if 65534 <= n <= 65537:
                        cl.add("value-65534..65537")
                    if any(b in (34, 39) for b in t[2]):
                        cl.add("value-with-quote")
                    if t[2] and (t[2][0] in (32, 9) or t[2][-1] in (32, 9)):
                        cl.add("value-edge-blank")
                    if 10 in t[2]:
                        cl.add("value-with-newline")
                if len(t[1]) > 255:
                    cl.add("name>255")
                if st != "p" and any(c in (9, 11, 12, 13, 32) for c in t[1][1:-1]):
                    cl.add("name-inner-blank:" + st + t[0])
                if st != "p" and any(c in b"[]%=" for c in t[1]):
                    cl.add("name-with-delimiter:" + st + t[0])
        walk(its, 0)
        if st == "x" and any(t[0] == "s" for t in its) and any(len(r.split(":")) > 7 and r.split(":")[7] != "-" for r in decos.split(";")):
            cl.add("section-name-ended-by-comment")
        if decos != "~":
            cl.add("decorated")
            if "|" in decos or any(r.split(":")[1] for r in decos.split(";")):
                cl.add("comment-lines")
        return cl

    def shrink_candidates(self, case):
        if case.startswith("m "):
            t = case.split()
            for k in range(3, len(t)):
                yield " ".join(t[:k] + t[k + 1:])
            v = unchunk(t[1]) if t[1] != "-" else []
            for nv in (v[:len(v) // 2], v[1:], [0x76] * len(v)):
                if nv != v:
                    yield " ".join([t[0], chunked(nv) or "-"] + t[2:])
            return
        st, acc, items, decos = case.split()
        its = parse_items(items)
        mk = lambda a, i, d: " ".join([st, a, items_tok(i), d])
        if decos != "~":
            yield mk(acc, its, "~")
            ds = decos.split(";")
            for k in range(len(ds)):
                yield mk(acc, its, ";".join(ds[:k] + ds[k + 1:]) or "~")
        if acc != "N":
            yield mk("N", its, decos)

        def variants(l):
            for k in range(len(l)):
                yield l[:k] + l[k + 1:]
                t = l[k]
                if t[0] == "s":
                    yield l[:k] + t[2] + l[k + 1:]
                    for v in variants(t[2]):
                        yield l[:k] + [("s", t[1], v)] + l[k + 1:]
                    if len(t[1]) > 1:
                        yield l[:k] + [("s", t[1][:len(t[1]) // 2], t[2])] + l[k + 1:]
                else:
                    for nv in (t[2][:len(t[2]) // 2], t[2][1:], t[2][:-1]):
                        if len(nv) < len(t[2]):
                            yield l[:k] + [("o", t[1], nv)] + l[k + 1:]
                    if len(t[1]) > 1:
                        yield l[:k] + [("o", t[1][:len(t[1]) // 2], t[2])] + l[k + 1:]
        n = 0
        for v in variants(its):
            yield mk(acc, v, decos)
            n += 1
            if n > 300:
                break

    # ---- generator
    def gen_name(self, rng, st, acc, level, role="o"):
        r = rng.random()
        n = rng.choice([1, 1, 2, 3, 5, 8])
        if acc in (None, b"ESNWBFCesnwbfc"):
            pool = NAME_ALNUM * 3 + NAME_DIG + NAME_SPECIAL + ([0x80, 0xe9, 0xff, 0x7f, 1] if r < 0.2 else [])
            nm = [rng.choice(pool) for _ in range(n)]
            if st == "p" and n >= 3 and rng.random() < 0.25:
                nm[rng.randrange(1, n - 1)] = rng.choice([32, 9])
        elif acc in (b"ns", b"nsNS", b"Esc"):
            nm = [rng.choice(NAME_ALNUM * 3 + NAME_DIG + NAME_SPECIAL) for _ in range(n)]
            if acc == b"Esc" and nm[0] in NAME_DIG:
                nm[0] = 0x61
        elif acc == b"nswNSW":
            nm = [rng.choice(NAME_ALNUM * 3 + NAME_DIG + NAME_SPECIAL) for _ in range(n)]
            if st == "p" and n >= 3:
                nm[1] = 32
        elif acc == b"fcFC":
            nm = [rng.choice(NAME_ALNUM * 2 + NAME_DIG) for _ in range(n)]
        else:
            nm = [rng.choice(NAME_ALNUM)] + [rng.choice(NAME_ALNUM + NAME_DIG) for _ in range(n - 1)]
        # the delimiter and assign characters where the other styles read them back (inside option names, anywhere in
        # section names)
        if st != "p" and acc in (None, b"ESNWBFCesnwbfc", b"ns", b"nsNS", b"nswNSW") and rng.random() < 0.15:
            nm[rng.randrange(0, len(nm))] = rng.choice(list(b"[]%{}=" if role == "s" else b"[]%{}"))
        # characters no name can be written with are replaced most of the time
        if rng.random() < 0.97:
            bad = {10, 35, 46, 0}
            if st == "p":
                bad |= {61, 123, 125}
            elif role == "o":
                bad |= {61}
            elif st == "s":
                bad |= {93}
            if st != "p":
                bad |= {9, 11, 12, 13, 32}
            nm = [0x6b if c in bad else c for c in nm]
            if st != "p" and role == "o" and nm[0] == (37 if st == "x" else 91):
                nm[0] = 0x6b
            # white space inside the names of the other styles, where the style can carry it: option names (not behind the
            # first character before docs/C09_option_name_blank.diff) and section names of the separated style
            if st != "p" and acc in (None, b"ESNWBFCesnwbfc", b"nswNSW") and (role == "o" or st == "s") and rng.random() < 0.3:
                first = 1 if (role == "s" or PATCHED_OPTION_NAME_BLANK) else 2
                for _ in range(rng.choice([1, 1, 2])):
                    if len(nm) > first + 1:
                        nm[rng.randrange(first, len(nm) - 1)] = rng.choice(NAME_BLANKS)
        return self.opt_name(st, nm) if role == "o" else nm

    @staticmethod
    def opt_name(st, nm):
        """docs/C09_option_name_blank.diff not committed: no option name of the styles x / s / y has white space behind its
        first character"""
        if not PATCHED_OPTION_NAME_BLANK and st != "p" and len(nm) > 1 and nm[1] in (9, 10, 11, 12, 13, 32):
            return [nm[0], 0x6b] + nm[2:]
        return nm

    def gen_value(self, rng):
        k = rng.random()
        if k < 0.08:
            return []
        n = rng.choice([1, 2, 3, 5, 8, 13, 30])
        if k < 0.55:
            v = [rng.choice(VAL_PLAIN) for _ in range(n)]
            if n > 2 and rng.random() < 0.4:
                v[rng.randrange(1, n - 1)] = 32
            return v
        v = [rng.choice(VAL_PLAIN + VAL_HARD * 2) for _ in range(n)]
        if rng.random() < 0.7 and v[-1] == 92:
            v[-1] = 0x61
        return v

    def gen_items(self, rng, st, acc, depth, fan, names):
        out = []
        for _ in range(rng.randrange(0, fan + 1)):
            sec = depth > 0 and rng.random() < 0.4
            nm = rng.choice(names) if names and rng.random() < 0.25 else self.gen_name(rng, st, acc, depth, "s" if sec else "o")
            names.append(nm)
            if sec:
                out.append(("s", nm, self.gen_items(rng, st, acc, depth - 1, fan, names)))
            else:
                out.append(("o", self.opt_name(st, nm), self.gen_value(rng)))
        return out

    def gen_flat(self, rng, st, acc):
        names = []
        opts = [("o", self.gen_name(rng, st, acc, 0), self.gen_value(rng)) for _ in range(rng.randrange(0, 4))]
        secs = []
        for _ in range(rng.randrange(0, 5)):
            nm = rng.choice(names) if names and rng.random() < 0.25 else self.gen_name(rng, st, acc, 0, "s")
            names.append(nm)
            secs.append(("s", nm, [("o", self.gen_name(rng, st, acc, 1), self.gen_value(rng)) for _ in range(rng.randrange(0, 5))]))
        return opts + secs

    def gen_deco(self, rng, level):
        if level == 0:
            return dict(lead=[], com=[], ind=[], m1=[32], m2=[32], q=0, tr=[], tc=None, nl=False)
        r = rng.random
        junk = lambda n: [rng.choice(VAL_PLAIN + [32, 32, 35, 34, 39, 92, 10, 0, 0xff]) for _ in range(n)]
        return dict(lead=[rng.choice(WSCH) for _ in range(rng.choice([0, 0, 1, 2, 4]))],
                    com=[junk(rng.choice([0, 3, 9, 20])) for _ in range(rng.choice([0, 0, 0, 1, 2]))],
                    ind=[rng.choice(WSCH) for _ in range(rng.choice([0, 1, 2, 4]))],
                    m1=[rng.choice(HWSCH + ([10] if r() < 0.1 else [])) for _ in range(rng.choice([0, 0, 1, 1, 2, 5]))],
                    m2=[rng.choice(HWSCH + ([10] if r() < 0.1 else [])) for _ in range(rng.choice([0, 0, 1, 1, 2, 5]))],
                    q=rng.choice([0, 0, 0, 34, 39, 7]),
                    tr=[rng.choice(HWSCH) for _ in range(rng.choice([0, 0, 1, 3]))],
                    tc=junk(rng.choice([0, 4, 12])) if r() < 0.15 else None,
                    nl=r() < 0.2)

    def gen_meta(self, rng, tier):
        """the value store behind a node: mpt_meta_new and every view of the two metatype kinds"""
        cases = []
        views = ["kind", "str", "vec", "iter", "self", "buf", "ref"]
        lens = [0, 1, 2, 20, 21, 100, 247, 248, 249, 250, 251, 252, 255, 256, 257, 1000, 65534, 65535, 65536]
        # sizes at which the buffer allocator rounds (blocks of 128 bytes with a 64 byte header): a reservation that is one
        # byte short (no room for the terminator) only shows at len = 128*k - 64
        lens += [128 * k - 64 + d for k in (3, 4, 5, 8, 12) for d in (-1, 0, 1)] + [65471, 65472, 65473, 65600]

        def value(n):
            if n > 300 or rng.random() < 0.3:
                return [rng.choice([0x76, 0x20, 0xff, 0x01])] * n
            return [rng.randrange(1, 256) for _ in range(n)]

        def can_clone(n):
            return PATCHED_GENINFO_CLONE or n > 249
        for n in lens:
            for new in ("newv", "news", "newg", "newb"):
                ops = [new] + views + (["clone"] + views + ["clone", "vec", "str"] if can_clone(n) or new == "newb" else [])
                cases.append(" ".join(["m", chunked(value(n)) or "-"] + ops))
        cases.append("m 6162 newi kind str newv str newi vec")
        for _ in range(400 if tier == "quick" else 6000):
            n = rng.choice(lens + [rng.randrange(0, 300)] * 6 + [rng.randrange(240, 260)] * 4 + [128 * rng.randrange(3, 40) - 64 + rng.choice([-1, 0, 0, 1])] * 4)
            ops = [rng.choice(["newv", "newv", "news", "newg", "newb"])]
            basic = ops[0] == "newg" or (ops[0] != "newb" and n <= 249)
            for _ in range(rng.randrange(1, 12)):
                o = rng.choice(views + views + ["clone", "clone", "clone", "newv", "news", "newi", "newg", "newb"])
                if o == "clone" and basic and not PATCHED_GENINFO_CLONE:
                    o = "vec"
                if o.startswith("new"):
                    basic = o == "newg" or (o in ("newv", "news") and n <= 249)
                ops.append(o)
            cases.append(" ".join(["m", chunked(value(n)) or "-"] + ops))
        return cases

    def generate(self, rng, tier):
        cases = self.gen_meta(rng, tier)
        n = self.quick_n if tier == "quick" else self.thorough_n
        # value lengths across the representation limits, plain and quoted, in the three styles
        lens = [248, 249, 250, 251, 254, 255, 256, 257, 319, 320, 321, 448, 576, 1472] + ([65472, 65534, 65535, 65536, 65537, 65600] if tier == "thorough" else [65472, 65535, 65536])
        for ln in lens:
            for st in "pxsy":
                for q in ((0, 34) if ln < 1000 else (0,)):
                    its = [("o", list(b"k"), [0x76] * ln)] if st in "py" else [("s", list(b"sec"), [("o", list(b"kk"), [0x76] * ln)])]
                    d = self.gen_deco(rng, 0)
                    d["q"] = q
                    cases.append(" ".join([st, "N", items_tok(its), ";".join([deco_tok(d)] * 3)]))
        for ln in (255, 256, 257, 65534, 65535):
            for st in "pxs":
                its = [("s", [0x6e] * ln, [("o", [0x6d] * ln, list(b"1"))])]
                cases.append(" ".join([st, "N", items_tok(its), "~"]))
            cases.append(" ".join(["y", "N", items_tok([("o", [0x6d] * ln, list(b"1"))]), "~"]))
        for i in range(n):
            st = rng.choice("pppxxssy")
            acc = rng.choice(ACCEPTS)
            if st == "p":
                its = self.gen_items(rng, st, acc, rng.choice([0, 1, 2, 3, 5]), rng.choice([1, 2, 3, 6]), [])
            elif st == "y":
                its = self.gen_items(rng, st, acc, 0 if rng.random() < 0.9 else 1, rng.choice([0, 1, 3, 6]), [])
            elif rng.random() < 0.9:
                its = self.gen_flat(rng, st, acc)
            else:
                its = self.gen_items(rng, st, acc, 2, 3, [])
            level = rng.choice([0, 1, 1, 1])
            nd = count_items(its) + 1
            decos = ";".join(deco_tok(self.gen_deco(rng, level)) for _ in range(nd)) if level or rng.random() < 0.5 else "~"
            cases.append(" ".join([st, cstr(acc), items_tok(its), decos]))
        return cases

    rule = ("two families.  (1) a case = style (prefix '*' default format / enclosed \"%x% = #\" / separated \"[ ] = #\" / enclosed with "
            "distinct delimiters \"[x] = #\", option lists only) x name-flag string x tree x decoration list; the text is produced "
            "by the extracted Gallina printer (print style deco tree) and handed to the C parser; "
            "trees: depth <= 5, fan-out <= 6, duplicate names (25%), empty sections, empty values, names over letters/digits/special "
            "characters/blanks/high bytes as the flags permit; in the enclosed / separated styles names with white space inside "
            "(option names, section names of the separated style: 30% where the flags permit, never behind the first character of "
            "an option name while PATCHED_OPTION_NAME_BLANK is off) and with the delimiter / assign characters where the code reads "
            "them back (15%); values plain, with inner blanks, with quotes, backslashes, comment "
            "characters, newlines, edge blanks, high bytes; value lengths 248..257 plain and quoted and 65535, 65536 (thorough: "
            "65534..65537) in all styles; names of 255..257 and 65534, 65535 bytes; decorations: blank lines, indentation with "
            "all six white space characters, comment lines and trailing comments with arbitrary bytes (the printer removes newlines), "
            "blanks around delimiters, quoting choice, opening brace on the next line, section name of the enclosed style ended by "
            "white space or by a comment; 3% of the names keep characters that cannot be written and 10% of the enclosed/separated "
            "trees are nested deeper than the style can carry: for those the specification makes no claim (r* d*).  "
            "(2) the value store behind a node: m <text> <operations>, texts of 0..300 bytes (dense at 240..260) and 1000, "
            "65534..65536 bytes and the allocator's rounding sizes 128*k-64 (+-1), created from a vector of char (what the parser hands over), a string pointer, an int (refused), by mpt_meta_geninfo (refused above 249 bytes) or by mpt_meta_buffer over an array without terminator, "
            "histories of up to 12 conversions (type list, string, vector, iterator, metatype, buffer), addref and clone (clones of "
            "the basic metatype only with PATCHED_GENINFO_CLONE).  A case is non-trivial always; distinct = distinct case text")
    modelled = ("as C08 (every parser function of mptcore/parse, both variants of mpt_parse_option: as it is / with "
                "docs/C09_option_name_blank.diff, selected by allow.araw) plus parse/node_append.c (child after a section start, "
                "sibling otherwise) and the value store: meta/meta_new.c, meta/meta_geninfo.c, misc/geninfo*.c, array/meta_buffer.c "
                "as kind (basic up to 249 bytes / buffer) and text, with the conversions each kind answers, addref = 0 and clone "
                "(coq/C08/MetaModel.v; the clone of the basic metatype AS PATCHED by docs/C09_geninfo_clone.diff); the printer and "
                "the well-formedness conditions are Gallina definitions (coq/C08/PrintModel.v).  Not modelled, compared with nothing: "
                "allocation failure paths; mpt_meta_arguments and the entry converter of meta_buffer.c (not used by the parser, "
                "driven by C19); the relative-position entry points of node/node_insert.c (mpt_node_add / mpt_node_insert, driven "
                "by C14; mpt_node_append uses mpt_gnode_insert / mpt_gnode_add with position 0 only: in node_insert.c the lines 25, "
                "29-31, 34, 42, 63-70, 86, 92-105 cannot be reached from the parser, see docs/notes_C09.md; repeated names are "
                "appended as further siblings without any lookup).  The path of the model carries the SepBinary flag since the C08 "
                "caller-loop family; every C09 theorem is about mpt_parse_node, whose path never has it (the lemmas carry "
                "pbin = false through every element call)")
    trusted = ["harness/c09_roundtrip.c reads names with mpt_node_ident, values through the metatype's own conversion (vector of "
               "char, terminating zero removed; the string and iterator views, where answered, are compared with it: !str / !iter) "
               "and checks parent/prev links directly",
               "the text the C parser receives is the one the model printed: length and FNV hash are compared (token t)",
               "an empty value and no value are the same observation (both dumped as n)",
               "value store family: the harness asks every view through the metatype's vtable and prints text, lengths and return "
               "classes; which views a metatype answers is taken from the model by the specification (the interface allows both)"]
    level_text = ("proof: Coq theorems C09_print_parse_roundtrip and C09_decoration_irrelevant state for the prefix style '*' (default "
                  "format) that for EVERY well-formed tree (any depth and fan-out, duplicate names, empty sections, empty values, names "
                  "with inner blanks, values of any length below 2^31 bytes, plain or quoted), EVERY decoration list (blank lines, "
                  "indentation, comment lines, blanks around delimiters, trailing comments, quoting choice, brace placement) and "
                  "EVERY name-flag set, parsing the printed text succeeds and yields exactly the tree (quotes removed, escaped quotes "
                  "kept), hence the result does not depend on the decoration; C09_print_parse_roundtrip_{enc,sep,encd} and "
                  "C09_decoration_irrelevant_{enc,sep} state the same for the enclosed, separated and options-only enclosed style "
                  "for every tree those styles can carry (options first, then sections holding options), with names that hold white "
                  "space, the assign character and the section delimiters wherever the code reads them back; "
                  "C09_{enc,sep}_flat_only, C09_encd_options_only and C09_{enc,sep}_inexpressible state for EVERY byte string as "
                  "input (not only printed texts) that mpt_parse_node builds nothing but such flat forests in these styles, so a "
                  "tree with nesting below a section or an option behind a section is the parse of no text at all "
                  "(C09_nested_sections_flattened, C09_option_after_section_joins, C09_enc_section_name_blank_differs: what the "
                  "printed text of such a tree is read as, witnesses); C09_value_views_faithful, C09_value_reads_text and "
                  "C09_clone_keeps_text state for every text and every history of conversions and clones that each view a node "
                  "value answers shows exactly the text stored; all theorems hold for both variants of mpt_parse_option (allow.araw), "
                  "C09_option_name_blank_refuted / _witness show the defect of the variant as it is.  By induction over the tree "
                  "/ the input on top of symbolic-execution lemmas for the transcribed parser.  The model is tied to the code on "
                  "every run: the extracted printer produces the text, the C parser reads it under ASan/UBSan/LeakSanitizer, the "
                  "resulting tree is compared with the source tree and with the model's parse; the value store is driven through "
                  "every view of both metatype kinds")
    level_note = ("trusted: Coq kernel; hand transcription of the parser and of the value store (validated by the correspondence run, "
                  "not verified); extraction and OCaml driver; harness.  The round trip theorems assume well-formedness (wf_items): "
                  "names non-empty, accepted by the flags, at most 65534 bytes, without blanks at the ends and without the "
                  "characters that end a name in its style and role (newline, comment character, path separator '.' everywhere; "
                  "braces and '=' in the prefix style; '=' and a leading section start character in option names of the other "
                  "styles; white space in section names of the enclosed family — the first white space ends the name; ']' in "
                  "section names of the separated style), values of bytes 1..255 that can be written plain or do not end in a "
                  "backslash; enclosed / separated style: the flat shape the flat_only theorems prove to be all these styles carry "
                  "(those theorems assume the name flag 'empty' is off for options: with it a nameless data line adopts the next "
                  "element as a child, mpt_node_append treats a data-only element like a section start).  "
                  "OPEN in /repo, switches off in props/c09.py: (1) PATCHED_OPTION_NAME_BLANK, docs/C09_option_name_blank.diff: "
                  "mpt_parse_option drops the white space (newlines, comments) behind the first character of an option name in "
                  "the enclosed and separated styles ('a b = 1' is stored as 'ab'); the model runs the variant as it is "
                  "(araw = false), the theorems hold there for names whose second character is no white space, the specification "
                  "claims all names, such names are generated only after the switch is on; (2) PATCHED_GENINFO_CLONE, "
                  "docs/C09_geninfo_clone.diff: the clone of a basic metatype takes its terminator for text (one zero byte more per "
                  "clone, a cloned 249 byte value no longer answers the string conversion); the model is the code as patched, "
                  "clones of basic metatypes are generated only after the switch is on.  An empty value and no value are the same "
                  "observation.  The theorems hold for /repo main with the fix: commits listed in docs/notes_C09.md.  All 20 "
                  "theorems are closed under the global context (no axioms).")
    technique = "Coq proof (print/parse round trip by induction over the tree; shape invariant over all inputs) + differential correspondence check"
    assumptions = ["allocation succeeds", "value lengths stay below 2^32 (width of parser_context.valid after the fix) and INT_MAX"]


PROP = C09()
