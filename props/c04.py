"""C04 — copy-on-write arrays behave as independent values (mptcore/array/*.c)."""
import os
import vcheck
from vcheck import DiffProperty, ASAN_ENV

HDR, PAGE = 64, 128
ARITY = {"app": 2, "appz": 2, "ins": 3, "set": 4, "setz": 4, "slc": 3, "slw": 3, "rsv": 3, "cln": 2, "clr": 1,
         "red": 1, "bins": 3, "bcut": 3, "bset": 4, "bsetz": 4, "prt": 2, "str": 1, "new": 3, "flg": 2,
         "mks": 4, "wr": 4, "wrz": 3,
         "xcp": 2, "xclr": 1, "xapp": 2, "xins": 3, "xset": 2, "xsetz": 2, "xsets": 2, "xasl": 2, "xmks": 2,
         "xshf": 2, "xtrm": 2}
HEXARG = {"app": 1, "ins": 2, "set": 3, "slw": 2, "bins": 2, "bset": 3, "prt": 1, "wr": 3,
          "xapp": 1, "xins": 2, "xset": 1, "xsets": 1}   # index of the hex argument
CXX_OPS = ("xcp", "xclr", "xapp", "xins", "xset", "xsetz", "xsets", "xasl", "xmks", "xshf", "xtrm")
MUTATORS = ("app", "appz", "ins", "set", "setz", "slc", "slw", "rsv", "red", "prt", "str", "wr", "wrz",
            "xapp", "xins", "xset", "xsetz", "xsets", "xasl", "xshf", "xtrm")


def asz(n):
    return ((n + HDR - 1) // PAGE + 1) * PAGE - HDR


class Bytes:
    """distinct-looking non-zero data bytes"""
    def __init__(self, rng):
        self.rng = rng
        self.c = rng.randrange(1, 250)

    def take(self, n, zero_ok=True):
        out = []
        for _ in range(n):
            self.c = self.c % 253 + 1
            b = self.c
            if zero_ok and self.rng.random() < 0.04:
                b = 0
            out.append(b)
        return "".join("%02x" % b for b in out) if out else "-"


def around(rng, vals, lo=0):
    v = rng.choice(vals) + rng.choice([-1, 0, 0, 0, 1])
    return max(lo, v)


class C04(DiffProperty):
    pid = "C04"
    claimed = True
    coq_dir = "C04"
    extract_vo = "C04/Extract.vo"
    mlname = "c04_model"
    driver = "c04_driver.ml"
    harness_src = "c04_array.c"
    libs = ["mptcore"]
    harness_env = dict(ASAN_ENV, ASAN_OPTIONS=ASAN_ENV["ASAN_OPTIONS"]
                       + ":symbolize=0:malloc_fill_byte=190:max_malloc_fill_size=1048576")
    quick_n = 3000
    thorough_n = 300000
    rule = ("a case = a history of 1-25 operations over 4 array handles and 2 slice handles, all starting without a buffer. "
            "C API cases (harness/c04_array.c): append (data / zero), insert, typed set (offset from start or end), slice (with "
            "and without a store), reserve (raw / char / 4-byte elements), clone, clear, reduce, the in-place "
            "mpt_buffer_insert/cut/set (private mutable buffers only), printf(\"%s\"), string, new buffer with flags, flags set in "
            "the header, slice creation and mpt_slice_write (data / zero / prepare form). C++ API cases (harness/c04_cxx.cpp, "
            "mpt::array / mpt::slice objects): copy assignment, clear, append, set(len,data / zero), array = slice, slice(array), "
            "slice::shift / trim, printf, string, slice::write, header flags; array::insert and array::set(string value) are "
            "generated only when the tree under test contains the patches of docs/C04_cxx_patches.diff (they are defective "
            "on the unpatched tree, replays docs/C04_cxx_replay_*.json). quick: a directed sweep for each API {content length "
            "0,1,3,63,64,65,200} x {raw, char} x {flags} x {private, shared with an array, shared with a slice} x every operation "
            "with offsets and lengths at 0, 1, used-1, used, used+1, size-used, size-used+1, size-1, size, size+1 and the 64-byte "
            "printf steps, then 3000 (C) + 1500 (C++) random histories with arguments drawn around used, size, the free space and "
            "the 128-byte allocation granule. After EACH operation all six handles are read back (element type, bytes, length), "
            "with the sharing partition, _used, _size, reference count and flags of every buffer. A case is non-trivial when some "
            "handle holds data when a mutating operation runs; distinct = distinct case text")
    modelled = ("mptcore/array/{buffer_alloc,array_append,array_insert,array_set,array_slice,array_reserve,array_clone,"
                "array_reduce,buffer_insert,buffer_cut,buffer_set,slice_write,printf,array_string}.c and the C++ entry points of "
                "mpt++/array.cpp + mptcore/array.h (reference assignment, array::append/set/operator=(slice), slice ctor/shift/trim; "
                "array::insert and array::set(value) as they are AFTER docs/C04_cxx_patches.diff) transcribed in "
                "coq/C04/ArrayModel.v for raw buffers and POD element types (no init/fini callbacks; those are C05); "
                "malloc failure, SIZE_MAX overflow guards, errno kinds and vsnprintf formats other than \"%s\" are not modelled; "
                "typed_array / unique_array / pointer_array / map templates are not modelled")
    trusted = ["harness/c04_array.c and harness/c04_cxx.cpp read every handle back from the header fields and the bytes behind "
               "the header, not through the library (the C harness includes buffer_alloc.c, the C++ harness mirrors the layouts "
               "and checks their sizes)",
               "the C++ harness compiles mpt++/array.cpp into its own translation unit without UBSan's vptr check (C-made "
               "buffers carry a C function table, not a C++ vtable); all other sanitizer checks stay on",
               "vsnprintf(\"%s\") is modelled as bounded copy + NUL; malloc succeeds; fresh heap memory reads as the ASan fill byte 0xbe"]
    level_text = ("proof: Coq theorems C04_cow_step / C04_others_unchanged / C04_cow_histories / C04_refused_unchanged / "
                  "C04_model_no_fault / C04_ref_inv over the transcribed mechanism (heap of reference-counted buffers + array and "
                  "slice handles): for EVERY state satisfying the heap invariant and every one of the 24 modelled operations (C API: "
                  "append, insert, typed set, slice, reserve, clone/clear, reduce, in-place buffer insert/cut/set, printf, string, new "
                  "buffer, flags, slice creation, slice write; C++ API: array copy/assignment, append, set, set(string value), "
                  "array = slice, slice(array), slice::shift/trim), the value read through the target handle is exactly the plain "
                  "vector operation of coq/C04/ArraySpec.v (gaps zero, lengths exact), every other handle reads what it read before, "
                  "the reference count of every buffer equals the number of handles on it, no model access leaves the block, refused "
                  "operations change no value; lifted to all mixed C/C++ histories by induction (no bound on handles, lengths, "
                  "history length). The model is tied to the code on every run by differential execution of two harness binaries "
                  "(C and C++) under ASan/UBSan")
    level_note = ("full strength for the modelled C and C++ entry points on raw and POD-typed buffers; all theorems closed under the "
                  "global context. Trusted: Coq kernel; hand transcription (validated by the correspondence run, not verified); "
                  "extraction + OCaml driver; harnesses. The specification is told (hint_of) the NoCopy/shared/immutable flags and "
                  "capacity of the target's buffer where the interface leaves the verdict to them (NoCopy refusal, capacity "
                  "precondition of the in-place mpt_buffer_* functions, partial slice writes) and whether a slice window lies inside "
                  "the data (harness guard of slice::shift/trim and array = slice). mpt++ array::insert (double offset, new buffer never installed, heap overflow) and array::set(const value&) "
                  "(always failed) were found defective and repaired in /repo (74201ae, aa1131c). Not covered: typed_array / unique_array / pointer_array / map templates (negative "
                  "slice::shift/trim, too), buffers with init/fini callbacks (C05), malloc failure paths. See docs/notes_C04.md.")
    technique = "Coq refinement proof (refcounted buffer heap -> value vectors) + differential correspondence check"
    assumptions = ["malloc succeeds", "buffers carry no init/fini callbacks (raw or POD element types)",
                   "vsnprintf(\"%s\") copies at most cap-1 bytes, stores a NUL and returns the text length"]

    # ------------------------------------------------------------ token handling
    def project(self, tok):
        p = tok.split("|")
        res = p[0].split("/")[0]
        return res + "|" + (p[1] if len(p) > 1 else "")

    def split(self, case):
        t = case.split()
        ops, i = [], 0
        while i < len(t):
            n = ARITY.get(t[i], 1)
            ops.append(t[i:i + n + 1])
            i += n + 1
        return [], ops

    def shrink_candidates(self, case):
        _, ops = self.split(case)
        n = len(ops)
        for k in range(1, n):
            yield self.join([], ops[:k])
        for k in range(n):
            yield self.join([], ops[:k] + ops[k + 1:])
        for k, o in enumerate(ops):
            hi = HEXARG.get(o[0])
            if hi is not None and o[hi + 1] != "-" and len(o[hi + 1]) > 2 and o[0] != "wr":
                h = o[hi + 1]
                for nh in (h[:len(h) // 4 * 2] or "-", h[:-2]):
                    yield self.join([], ops[:k] + [o[:hi + 1] + [nh] + o[hi + 2:]] + ops[k + 1:])
            for ai in range(2, len(o)):
                if ai - 1 == hi:
                    continue
                try:
                    v = int(o[ai])
                except ValueError:
                    continue
                for nv in (0, v // 2, v - 1):
                    if 0 <= nv < v:
                        yield self.join([], ops[:k] + [o[:ai] + [str(nv)] + o[ai + 1:]] + ops[k + 1:])

    def classify(self, case):
        _, ops = self.split(case)
        cl = set()
        have = False
        for o in ops:
            cl.add("op:" + o[0])
            if o[0] in MUTATORS and have:
                cl.add("mutate-nonempty")
            if o[0] in ("app", "ins", "set", "slw", "prt", "setz", "appz", "slc"):
                have = True
            if o[0] in ("cln", "mks"):
                cl.add("shared")
            if o[0] in ("new", "flg") and o[-1] != "0":
                cl.add("flags:" + o[-1])
        if len(ops) > 1:
            cl.add("history")
        if "mutate-nonempty" not in cl and len(ops) < 2:
            return set()
        return cl

    # ------------------------------------------------------------ two harness binaries
    cxx_harness_src = "c04_cxx.cpp"
    cxx_libs = ["mpt++", "mptcore"]
    # the C buffers carry a C function table instead of a C++ vtable: UBSan's vptr check rejects every virtual
    # call on them, so the translation unit that contains mpt++/array.cpp is built without that one check
    cxx_flags = ["-fno-sanitize=vptr"]

    @staticmethod
    def is_cxx(case):
        return any(t in CXX_OPS for t in case.split())

    def evaluate(self, cases, workdir, tagsuffix=""):
        """cases that use the C++ API go to harness/c04_cxx.cpp, the others to harness/c04_array.c; one model run"""
        hx = vcheck.build_harness(self.harness_src, self.libs, extra=self.extra_harness_flags)
        mx = vcheck.build_model(self.mlname, self.driver, self.extract_vo)
        ided = ["c%d %s" % (i, c) for i, c in enumerate(cases)]
        c_cases = [l for l, c in zip(ided, cases) if not self.is_cxx(c)]
        x_cases = [l for l, c in zip(ided, cases) if self.is_cxx(c)]
        I, errs = {"I": {}}, []
        if c_cases:
            r, e = vcheck.run_cases(hx, c_cases, workdir, "impl" + tagsuffix, env=self.harness_env, args=self.harness_args)
            I["I"].update(r.get("I", {})); errs += e
        if x_cases:
            cx = vcheck.build_harness(self.cxx_harness_src, self.cxx_libs, extra=self.cxx_flags)
            r, e = vcheck.run_cases(cx, x_cases, workdir, "implcxx" + tagsuffix, env=self.harness_env, args=self.harness_args)
            I["I"].update(r.get("I", {})); errs += e
        M, e2 = vcheck.run_cases(mx, ided, workdir, "model" + tagsuffix)
        res = []
        for i, c in enumerate(cases):
            k = "c%d" % i
            res.append(self.compare(c, I["I"].get(k), M.get("M", {}).get(k), M.get("S", {}).get(k)))
        return res, errs + e2

    def cxx_patched(self):
        """array::insert and array::set(const value&) were repaired in /repo (fix: commits 74201ae, aa1131c; known_findings.json
        kind "fixed"); both are always driven, so a return of either defect is reported as a VIOLATION"""
        return True, True

    def cxx_sweep(self, rng):
        ins_ok, sets_ok = self.cxx_patched()
        by = Bytes(rng)
        cases = []
        for L in (0, 1, 3, 63, 64, 65, 200):
            for typed in (0, 1):
                for fl in (0, 1, 2):
                    for sh in (0, 1, 2):       # private / shared with an array / shared with a slice
                        pre = (["prt", "0", by.take(L, False)] if typed else ["xapp", "0", by.take(L, False)])
                        if fl:
                            pre += ["flg", "0", str(fl)]
                        if sh == 1:
                            pre += ["xcp", "1", "0"]
                        if sh == 2:
                            pre += ["xmks", "4", "0"]
                        u, s = L, asz(L)
                        free = s - u
                        ops = []
                        for n in sorted(set([0, 1, free, free + 1])):
                            ops.append(["xapp", "0", by.take(n)])
                            ops.append(["xset", "0", by.take(n)])
                        for n in sorted(set([0, max(0, u - 1), u, u + 1, s, s + 1])):
                            ops.append(["xset", "0", by.take(n)])
                            ops.append(["xsetz", "0", str(n)])
                        ops += [["xclr", "0"], ["xcp", "0", "1"], ["xcp", "0", "2"], ["xcp", "2", "0"], ["xcp", "0", "0"],
                                ["str", "0"], ["prt", "0", by.take(3, False)], ["xmks", "5", "0"], ["xmks", "4", "2"]]
                        if ins_ok:
                            for p in sorted(set([0, 1, u // 2, u, u + 2, 40])):
                                for n in sorted(set([0, 1, 20, free, free + 1])):
                                    ops.append(["xins", "0", str(p), by.take(n)])
                        if sets_ok:
                            for n in (0, 1, 3, 63, 64, 65):
                                ops.append(["xsets", "0", by.take(n, False)])
                        for n1 in sorted(set([0, 1, u, u + 1])):
                            for n2 in sorted(set([0, 1, max(0, u - n1), max(0, u - n1) + 1])):
                                tail = ["xmks", "5", "0", "xshf", "5", str(n1), "xtrm", "5", str(n2)]
                                ops.append(tail + ["xasl", "1", "5"])
                                ops.append(tail + ["xasl", "0", "5"])
                                ops.append(tail + ["wr", "5", "2", "1", by.take(2), "xasl", "2", "5"])
                        for o in ops:
                            cases.append(" ".join(pre + o))
        return cases

    def gen_cxx_history(self, rng, nops):
        ins_ok, sets_ok = self.cxx_patched()
        by = Bytes(rng)
        u = [0] * 6
        names = (["xapp"] * 12 + ["xset"] * 7 + ["xsetz"] * 2 + ["xcp"] * 12 + ["xclr"] * 2 + ["xasl"] * 6 + ["xmks"] * 8
                 + ["xshf"] * 5 + ["xtrm"] * 5 + ["prt"] * 4 + ["str"] * 2 + ["wr"] * 6 + ["wrz"] * 2 + ["flg"] * 3
                 + (["xins"] * 10 if ins_ok else []) + (["xsets"] * 4 if sets_ok else []))
        ops = []
        for _ in range(nops):
            op = rng.choice(names)
            x = rng.choice([0, 1, 0, 1, 2, 3]) if rng.random() < 0.97 else rng.randrange(0, 7)
            ux = u[x] if x < 6 else 0
            s = asz(ux)
            free = s - ux
            ln = lambda: rng.choice([0, 1, 1, 2, 3, 4, 8, max(0, free - 1), free, free + 1, 64, 128, rng.randrange(0, 200)])
            sidx = rng.choice([4, 4, 5]) if rng.random() < 0.97 else rng.randrange(0, 7)
            if op == "xapp":
                n = ln(); ops.append([op, str(x), by.take(n)])
                if x < 4: u[x] += n
            elif op == "xins":
                p = around(rng, [0, 1, ux // 2, ux, ux + 1, 40, s]); n = ln()
                ops.append([op, str(x), str(p), by.take(n)])
                if x < 4: u[x] = max(ux, p) + n
            elif op in ("xset", "xsetz"):
                n = rng.choice([0, 1, max(0, ux - 1), ux, ux + 1, s, s + 1, ln()])
                ops.append([op, str(x), by.take(n) if op == "xset" else str(n)])
                if x < 4: u[x] = n
            elif op == "xsets":
                n = rng.choice([0, 1, 5, 63, 64, rng.randrange(0, 100)])
                ops.append([op, str(x), by.take(n, False)])
                if x < 4: u[x] = n + 1
            elif op == "xcp":
                y = rng.randrange(0, 4) if rng.random() < 0.97 else rng.randrange(0, 7)
                ops.append([op, str(x), str(y)])
                if x < 4 and y < 4: u[x] = u[y]
            elif op == "xclr":
                ops.append([op, str(x)])
                if x < 4: u[x] = 0
            elif op == "xasl":
                ops.append([op, str(x), str(sidx)])
                if x < 4 and sidx in (4, 5): u[x] = u[sidx]
            elif op == "xmks":
                y = rng.randrange(0, 4) if rng.random() < 0.97 else rng.randrange(0, 7)
                ops.append([op, str(sidx), str(y)])
                if sidx in (4, 5) and y < 4:
                    u[sidx] = u[y]
                    if rng.random() < 0.3:
                        ops.append(["xclr", str(y)]); u[y] = 0
            elif op in ("xshf", "xtrm"):
                us = u[sidx] if sidx < 6 else 0
                n = rng.choice([0, 1, 1, 2, us // 2, us, us + 1])
                ops.append([op, str(sidx), str(n)])
                if sidx in (4, 5) and n <= us: u[sidx] = us - n
            elif op == "prt":
                n = rng.choice([0, 1, 5, max(0, free - 1), free, 63, 64, 65])
                ops.append([op, str(x), by.take(n, False)])
            elif op == "str":
                ops.append([op, str(x)])
            elif op == "flg":
                ops.append([op, str(x), str(rng.choice([0, 1, 2, 3]))])
            else:
                us = u[sidx] if sidx < 6 else 0
                fr = asz(us) - us
                es = rng.choice([1, 1, 2, 3, 8, 0, max(1, fr), fr + 1])
                nb = rng.choice([0, 1, 2, 3, (fr // es if es else fr), (fr // es + 1 if es else fr + 1)])
                if op == "wr" and es:
                    ops.append(["wr", str(sidx), str(nb), str(es), by.take(nb * es)])
                else:
                    ops.append(["wrz", str(sidx), str(nb), str(es)])
                if sidx in (4, 5) and es: u[sidx] = us + nb * es
        return " ".join(t for o in ops for t in o)

    # ------------------------------------------------------------ generators
    def sweep(self, rng):
        cases = []
        by = Bytes(rng)
        for L in (0, 1, 3, 63, 64, 65, 200):
            for tr in (0, 1):
                for fl in (0, 1, 2, 3):
                    for sh in (0, 1):
                        pre = []
                        if tr == 0:
                            pre += ["app", "0", by.take(L, False)] if L else ["new", "0", "0", "0"]
                        else:
                            pre += ["set", "0", "1", "0", by.take(L, False)]
                        if fl:
                            pre += ["flg", "0", str(fl)]
                        if sh:
                            pre += ["cln", "1", "0"]
                        u, s = L, asz(L)
                        free = s - u
                        ops = []
                        for n in sorted(set([0, 1, free, free + 1])):
                            ops.append(["app", "0", by.take(n)])
                        ops.append(["appz", "0", "2"])
                        for p in sorted(set([0, u // 2, u, u + 2])):
                            for n in sorted(set([0, 1, free, free + 1])):
                                ops.append(["ins", "0", str(p), by.take(n)])
                        for off in sorted(set([0, 1, u, u + 1, -1, -u, -(u + 1)])):
                            for n in (1, 2):
                                ops.append(["set", "0", "1", str(off), by.take(n)])
                        ops.append(["set", "0", "4", "0", by.take(4)])
                        ops.append(["setz", "0", "1", str(u + 1), "2"])
                        for off in sorted(set([0, max(0, u - 1), u, u + 1, s, s + 1])):
                            for n in (0, 1, 2):
                                ops.append(["slw", "0", str(off), by.take(n)])
                                ops.append(["slc", "0", str(off), str(n)])
                        for ln in sorted(set([0, max(0, u - 1), u + 1, s + 1])):
                            for t2 in (0, 1, 4):
                                ops.append(["rsv", "0", str(ln), str(t2)])
                        ops += [["red", "0"], ["clr", "0"], ["cln", "0", "1"], ["cln", "0", "2"], ["cln", "2", "0"], ["str", "0"]]
                        for off in sorted(set([0, 1, max(0, u - 1), u, u + 1])):
                            for ln in sorted(set([0, 1, u, u + 1])):
                                ops.append(["bcut", "0", str(off), str(ln)])
                        for p in sorted(set([0, u, u + 1, max(0, s - 1), s])):
                            for n in (0, 1, 2):
                                ops.append(["bset", "0", str(tr), str(p), by.take(n)])
                                ops.append(["bins", "0", str(p), by.take(n)])
                        ops.append(["bsetz", "0", str(tr), str(u + 2), "2"])
                        ops.append(["bset", "0", str(1 - tr), "0", by.take(1)])
                        for n in sorted(set([0, 1, max(0, free - 1), free, free + 1, 63, 64, 65, 127, 128, 129])):
                            ops.append(["prt", "0", by.take(n, False)])
                        for off in sorted(set([0, 1, u])):
                            for ln in sorted(set([0, max(0, u - off), u - off + 1 if u >= off else 1])):
                                for (nb, es) in ((0, 1), (1, 1), (2, 3), (1, free + 1), (free + 2, 1), (3, 0), (0, 0), (s + 1, 0)):
                                    w = ["wr", "4", str(nb), str(es), by.take(nb * es)] if es and rng.random() < 0.7 \
                                        else ["wrz", "4", str(nb), str(es)]
                                    if es == 0 and nb and rng.random() < 0.3:
                                        w = ["wr", "4", str(nb), "0", "-"]
                                    ops.append(["clr", "1", "clr", "0", "mks", "4", "0", str(off), str(ln)] + w
                                               if not sh and rng.random() < 0.5 else
                                               ["mks", "4", "0", str(off), str(ln)] + w)
                        for o in ops:
                            cases.append(" ".join(pre + o))
        return cases

    def gen_history(self, rng, nops):
        by = Bytes(rng)
        u = [0] * 6       # estimated used length per handle
        tr = [None] * 6   # estimated element type (None = no buffer)
        ops = []
        weights = [("app", 14), ("appz", 2), ("ins", 10), ("set", 8), ("setz", 2), ("slw", 6), ("slc", 3), ("rsv", 5),
                   ("cln", 13), ("clr", 2), ("red", 4), ("bins", 4), ("bcut", 7), ("bset", 5), ("bsetz", 1), ("prt", 6),
                   ("str", 3), ("new", 4), ("flg", 6), ("mks", 6), ("wr", 7), ("wrz", 3)]
        names = [w[0] for w in weights for _ in range(w[1])]
        for _ in range(nops):
            op = rng.choice(names)
            x = rng.randrange(0, 4) if rng.random() < 0.97 else rng.randrange(0, 7)
            if rng.random() < 0.5:
                x = rng.choice([0, 1])
            ux = u[x] if x < 6 else 0
            s = asz(ux)
            free = s - ux
            pos = lambda: around(rng, [0, 1, ux // 2, ux, ux, ux + 1, s, 64, 128, 192, rng.randrange(0, s + 70)])
            ln = lambda: rng.choice([0, 1, 1, 2, 3, 4, 8, max(0, free - 1), free, free + 1, 64, 128,
                                     rng.randrange(0, 12), rng.randrange(0, 200)])
            esz = tr[x] if (x < 6 and tr[x]) else 1
            if op in ("app", "appz"):
                n = ln()
                ops.append([op, str(x), by.take(n) if op == "app" else str(n)])
                if x < 4 and not tr[x]:
                    u[x] += n; tr[x] = 0
            elif op == "ins":
                p, n = pos(), ln()
                if esz > 1 and rng.random() < 0.8:
                    p, n = p // esz * esz, n // esz * esz
                ops.append([op, str(x), str(p), by.take(n)])
                if x < 4:
                    u[x] = max(u[x], p) + n; tr[x] = tr[x] or 0
            elif op in ("set", "setz"):
                t = rng.choice([tr[x] if x < 6 and tr[x] else 1, 1, 1, 4, 0]) if rng.random() < 0.8 else rng.choice([0, 1, 4])
                e = t or 1
                n = rng.choice([0, 1, 2, 3, ln() // e]) * e
                if rng.random() < 0.05:
                    n += 1
                off = rng.choice([0, 1, ux // e, ux // e + 1, -1, -(ux // e), -(ux // e) - 1, rng.randrange(-3, 80)])
                ops.append([op, str(x), str(t), str(off), by.take(n) if op == "set" else str(n)])
                if x < 4 and t and (tr[x] is None or tr[x] == t):
                    p = off * e if off >= 0 else ux + off * e
                    if p >= 0:
                        u[x] = max(ux, p + n); tr[x] = t
            elif op in ("slw", "slc"):
                p, n = pos(), rng.choice([0, 1, 2, 4, ln()])
                if esz > 1 and rng.random() < 0.8:
                    p, n = p // esz * esz, n // esz * esz
                ops.append([op, str(x), str(p), by.take(n) if op == "slw" else str(n)])
                if x < 4:
                    u[x] = max(ux, p + n); tr[x] = tr[x] or 0
            elif op == "rsv":
                t = rng.choice([0, 0, 1, 4, tr[x] if x < 6 and tr[x] is not None else 0])
                ops.append([op, str(x), str(around(rng, [0, ux, s, s + 1, 200, rng.randrange(0, 400)])), str(t)])
                if x < 4:
                    if tr[x] != t:
                        u[x] = 0
                    tr[x] = t
            elif op == "cln":
                y = rng.randrange(0, 4) if rng.random() < 0.97 else rng.randrange(0, 7)
                ops.append([op, str(x), str(y)])
                if x < 4 and y < 4 and (tr[x] is None or tr[y] is None or tr[x] == tr[y]):
                    u[x], tr[x] = u[y], tr[y]
            elif op in ("clr", "red", "str"):
                ops.append([op, str(x)])
                if op == "clr" and x < 4:
                    u[x], tr[x] = 0, None
            elif op == "bins":
                p, n = pos(), rng.choice([0, 1, 2, free, free + 1, ln()])
                ops.append([op, str(x), str(p), by.take(n)])
                if x < 4 and max(ux, p) + n <= s:
                    u[x] = max(ux, p) + n
            elif op == "bcut":
                p = around(rng, [0, 1, ux // 2, ux, ux + 1])
                n = rng.choice([0, 0, 1, 2, max(0, ux - p), max(0, ux - p + 1), ux, ux + 1])
                ops.append([op, str(x), str(p), str(n)])
                if x < 4 and n <= ux and (p <= ux - n if n else p <= ux):
                    u[x] = ux - n if n else p
            elif op in ("bset", "bsetz"):
                t = (tr[x] or 0) if x < 6 and rng.random() < 0.85 else rng.choice([0, 1, 4])
                p, n = pos(), rng.choice([0, 1, 2, 4, ln()])
                if rng.random() < 0.7:
                    p = around(rng, [ux, ux + 1, ux + 3, max(0, s - 1), s])
                ops.append([op, str(x), str(t), str(p), by.take(n) if op == "bset" else str(n)])
                if x < 4 and p + n <= s:
                    u[x] = max(ux, p + n)
            elif op == "prt":
                n = rng.choice([0, 1, 2, 5, max(0, free - 1), free, free + 1, 63, 64, 65, 127, 128, 129, rng.randrange(0, 150)])
                ops.append([op, str(x), by.take(n, False)])
                if x < 4 and tr[x] in (None, 1):
                    u[x] += n; tr[x] = 1
            elif op == "new":
                ops.append([op, str(x), str(rng.choice([0, 1, 64, 65, 192, 193, rng.randrange(0, 300)])),
                            str(rng.choice([0, 0, 1, 2, 3]))])
                if x < 4:
                    u[x], tr[x] = 0, 0
            elif op == "flg":
                ops.append([op, str(x), str(rng.choice([0, 1, 1, 2, 2, 3]))])
            elif op == "mks":
                sidx = rng.choice([4, 4, 5]) if rng.random() < 0.97 else rng.randrange(0, 7)
                y = rng.randrange(0, 4) if rng.random() < 0.97 else rng.randrange(0, 7)
                uy = u[y] if y < 6 else 0
                off = around(rng, [0, 0, 1, uy // 2, uy, uy + 1])
                n = around(rng, [0, max(0, uy - off), max(0, uy - off), max(0, uy - off) + 1, 2])
                ops.append([op, str(sidx), str(y), str(off), str(n)])
                if sidx in (4, 5) and y < 4:
                    u[sidx] = max(0, min(n, uy - off)); tr[sidx] = tr[y]
                    if rng.random() < 0.4:
                        # hand the buffer over to the slice alone (fast path of slice_write)
                        ops.append(["clr", str(y)])
                        u[y], tr[y] = 0, None
            else:
                sidx = rng.choice([4, 4, 5]) if rng.random() < 0.97 else rng.randrange(0, 7)
                us = u[sidx] if sidx < 6 else 0
                fr = asz(us) - us
                es = rng.choice([1, 1, 1, 2, 3, 4, 8, 0, 0, max(1, fr), fr + 1, 64])
                nb = rng.choice([0, 1, 1, 2, 3, 5, (fr // es if es else fr), (fr // es + 1 if es else fr + 1), rng.randrange(0, 40)])
                if op == "wr" and (es or rng.random() < 0.5):
                    ops.append(["wr", str(sidx), str(nb), str(es), by.take(nb * es)])
                else:
                    ops.append(["wrz", str(sidx), str(nb), str(es)])
                if sidx in (4, 5) and es and not tr[sidx]:
                    u[sidx] = us + nb * es; tr[sidx] = 0
        return " ".join(t for o in ops for t in o)

    def generate(self, rng, tier):
        cases = self.sweep(rng)
        n = self.quick_n if tier == "quick" else self.thorough_n
        for i in range(n):
            cases.append(self.gen_history(rng, rng.choice([1, 2, 3, 4, 6, 8, 10, 12, 16, 20, 25])))
        cases += self.cxx_sweep(rng)
        for i in range(n // 2):
            cases.append(self.gen_cxx_history(rng, rng.choice([1, 2, 3, 4, 6, 8, 10, 12, 16, 20, 25])))
        return cases


PROP = C04()
