"""C04 — copy-on-write arrays behave as independent values (mptcore/array/*.c)."""
import os
import struct
import vcheck
from vcheck import DiffProperty, ASAN_ENV

HDR, PAGE = 64, 128
ARITY = {"app": 2, "appz": 2, "ins": 3, "set": 4, "setz": 4, "slc": 3, "slw": 3, "rsv": 3, "cln": 2, "clr": 1,
         "red": 1, "bins": 3, "bcut": 3, "bset": 4, "bsetz": 4, "prt": 2, "str": 1, "new": 3, "flg": 2,
         "mks": 4, "wr": 4, "wrz": 3,
         "xcp": 2, "xclr": 1, "xapp": 2, "xins": 3, "xset": 2, "xsetz": 2, "xsets": 2, "xasl": 2, "xmks": 2,
         "xshf": 2, "xtrm": 2,
         "xnew": 2, "xiov": 2, "xaiov": 2, "xasp": 2, "xpre": 2, "xinsz": 3, "xsetc": 3, "xsetr": 2, "xsetv": 3,
         "xlen": 2, "xscp": 2, "xssc": 3,
         "epush": 2, "efin": 1, "eprep": 2, "eshf": 2, "ecp": 2, "epm": 3,
         "tcp": 2, "tcc": 2, "tclr": 1, "tnew": 2, "tins": 3, "tset": 3, "trsv": 2, "trsz": 2, "tdet": 1, "tget": 2,
         "toff": 2, "tcmp": 1, "tswp": 3, "tunu": 1, "mset": 3, "mapp": 3, "mget": 2, "mval": 2, "mall": 1}
HEXARG = {"app": 1, "ins": 2, "set": 3, "slw": 2, "bins": 2, "bset": 3, "prt": 1, "wr": 3,
          "xapp": 1, "xins": 2, "xset": 1, "xsets": 1,
          "xiov": 1, "xaiov": 1, "xasp": 1, "xpre": 1, "xsetc": 2, "xsetv": 2, "xssc": 2, "epush": 1}   # index of the hex argument
CXX_OPS = ("xcp", "xclr", "xapp", "xins", "xset", "xsetz", "xsets", "xasl", "xmks", "xshf", "xtrm",
           "xnew", "xiov", "xaiov", "xasp", "xpre", "xinsz", "xsetc", "xsetr", "xsetv", "xlen", "xscp", "xssc")
ENC_OPS = ("epush", "efin", "eprep", "eshf", "ecp", "epm")
# class templates of mptcore/array.h (harness/c04_tpl.cpp): family token -> element size
FAMS = {"Td": 8, "Tu": 4, "Tk": 12, "Tq": 8, "Tr": 12, "Tp": 8, "Tm": 8}
UNIQ = ("Tq", "Tr")
TPL_MUT = ("tins", "tset", "trsv", "trsz", "tdet", "tcmp", "tswp", "mset", "mapp")
# One switch per proposed patch of docs/C04_<topic>.diff (mptcore/array.h).  The model is the code AS PATCHED; while a
# patch is not in the tree under test, the cases that need it are not generated.  Set to True once the patch is committed.
PATCHED_RESERVE_NEG = True       # C04_reserve_negative.diff: unique_array::reserve(len < 0) reads length() of the detached reference
#                                   (on shared / immutable data the negative cases need RESERVE_KEEP, too)
PATCHED_RESERVE_KEEP = True      # C04_reserve_keep.diff: reserve/resize below the length on shared data cuts the private copy
PATCHED_RESERVE_FAIL = True      # C04_reserve_fail.diff: reserve reports success when detach failed (shared NoCopy data written in place)
PATCHED_MAP_GET = True           # C04_map_get.diff: map::get returns the value behind the end iterator
PATCHED_MAP_SET = True           # C04_map_set_shared.diff: map::set writes an existing key into shared data (needs MAP_GET, too)
PATCHED_SWAP_BOUNDS = True       # C04_swap_bounds.diff: swap(span, p1, p2) accepts p == length and negative positions
PATCHED_PTR_SWAP_SHARED = True   # C04_ptr_swap_shared.diff: pointer_array::swap exchanges elements of shared data in place
# struct encode_array of mpt++/array.cpp (cases that start with E; specification coq/C04/ArrayEnc.v = the code AS PATCHED)
PATCHED_ENC_PREPARE = True       # C04_enc_prepare.diff: encode_array::prepare zeroes the content (array::set(len) assigns zeros)
PATCHED_ENC_SHIFT = True         # C04_enc_shift.diff: encode_array::shift(0) reads in front of the data, zeroes what it moved,
#                                   writes shared data in place (precedence of `max = length() <= len`, memcpy, array::set)
PATCHED_RAW_PUSH_CONSUMED = True   # C04_raw_push_consumed.diff (array_push.c, raw mode): a push behind consumed data (after shift(n)) overwrote the live bytes
PATCHED_ENC_PUSHMSG = True       # C04_enc_push_message.diff: encode_array::push(message) never advances (no end) and skips the
#                                   continuation parts
_SWITCHES = ("ENC_PREPARE", "ENC_SHIFT", "ENC_PUSHMSG", "RESERVE_NEG", "RESERVE_KEEP", "RESERVE_FAIL", "MAP_GET", "MAP_SET", "SWAP_BOUNDS", "PTR_SWAP_SHARED")
# all patches are committed in /repo: constants, nothing at run time decides them
MUTATORS = ("app", "appz", "ins", "set", "setz", "slc", "slw", "rsv", "red", "prt", "str", "wr", "wrz",
            "xapp", "xins", "xset", "xsetz", "xsets", "xasl", "xshf", "xtrm",
            "xiov", "xaiov", "xasp", "xpre", "xinsz", "xsetc", "xsetr", "xsetv", "xlen", "xssc")


def asz(n):
    return ((n + HDR - 1) // PAGE + 1) * PAGE - HDR


class Bytes:
    """distinct-looking non-zero data bytes"""
    def __init__(self, rng):
        self.rng = rng
        self.c = rng.randrange(1, 250)

    def take(self, n, zero_ok=True):
        out = []
        for _ in range(n):
            self.c = self.c % 253 + 1
            b = self.c
            if zero_ok and self.rng.random() < 0.04:
                b = 0
            out.append(b)
        return "".join("%02x" % b for b in out) if out else "-"


def around(rng, vals, lo=0):
    v = rng.choice(vals) + rng.choice([-1, 0, 0, 0, 1])
    return max(lo, v)


class C04(DiffProperty):
    pid = "C04"
    claimed = True
    coq_dir = "C04"
    extract_vo = "C04/Extract.vo"
    mlname = "c04_model"
    driver = "c04_driver.ml"
    harness_src = "c04_array.c"
    libs = ["mptcore"]
    harness_env = dict(ASAN_ENV, ASAN_OPTIONS=ASAN_ENV["ASAN_OPTIONS"]
                       + ":symbolize=0:malloc_fill_byte=190:max_malloc_fill_size=1048576")
    quick_n = 3000
    thorough_n = 300000
    rule = ("a case = a history of 1-25 operations over 4 array handles and 2 slice handles, all starting without a buffer. "
            "C API cases (harness/c04_array.c): append (data / zero), insert, typed set (offset from start or end), slice (with "
            "and without a store), reserve (raw / char / 4-byte elements), clone, clear, reduce, the in-place "
            "mpt_buffer_insert/cut/set (private mutable buffers only), printf(\"%s\"), string, new buffer with flags, flags set in "
            "the header, slice creation and mpt_slice_write (data / zero / prepare form). C++ API cases (harness/c04_cxx.cpp, "
            "mpt::array / mpt::slice objects): copy assignment, clear, append, set(len,data / zero), array = slice, slice(array), "
            "slice::shift / trim, printf, string, slice::write, header flags, array::insert, array::set(string value), and the "
            "further entry points of mpt++/array.cpp: array(size_t), operator=(iovec), operator+=(iovec / span<uint8_t>), "
            "prepend, insert without data, set(convertable&) with a source that answers TypeVector / the character vector / "
            "'s' / 's' with result 0 / nothing, set(reference<buffer>), set(value) for TypeVector, vectors of char / uint32 / "
            "double (lengths that are no multiple of the element size included) and one scalar of these types, "
            "array::content::set_length (private mutable blocks), the slice copy constructor, slice::set(convertable&). "
            "Cases that start with E drive struct encode_array (two objects without encoder): push, push(0,0), prepare, "
            "shift(n), shift(0), copy assignment, push(message with a continuation part); sweep = 9 prepared states "
            "(empty, message in progress, finished, consumed in part / completely, shared copy, contents that fill the first "
            "allocation step exactly) x 32 continuations, then 500 random histories; a push behind consumed data is never "
            "generated (mpt_array_push inserts at done+scratch from the START of the array: defect outside this property, "
            "see docs/notes_C04.md), prepare on an object with data, shift(0) with consumed data in front of data, and "
            "push(message) with data need docs/C04_enc_{prepare,shift,push_message}.diff (PATCHED_ENC_* switches). quick: a directed sweep for each API {content length "
            "0,1,3,63,64,65,200} x {raw, char} x {flags} x {private, shared with an array, shared with a slice} x every operation "
            "with offsets and lengths at 0, 1, used-1, used, used+1, size-used, size-used+1, size-1, size, size+1 and the 64-byte "
            "printf steps, then 3000 (C) + 1500 (C++) random histories with arguments drawn around used, size, the free space and "
            "the 128-byte allocation granule. Class template cases (harness/c04_tpl.cpp; first token = family of the four "
            "handles: typed_array<double>, typed_array<uint32_t>, typed_array<Counted> (12-byte element whose constructors / "
            "destructor count live instances), unique_array<double>, unique_array<Counted>, pointer_array<Obj>, "
            "map<uint32_t,uint32_t>): copy assignment, copy construction, clear, construction with a length, insert, set, "
            "reserve, resize, detach, get, offset, pointer_array::compact / swap / unused, map::set / append / get / values, "
            "header flags; positions and lengths are C longs (negative = from the end). quick: a directed sweep per family "
            "{0,1,2,3 elements and the element counts that fill the first (64-byte) and second (192-byte) allocation step "
            "exactly, one less, one more} x {private, shared by assignment (operation through the original / through the "
            "copy), shared by copy construction, immutable, shared+immutable, shared+NoCopy} x every operation with "
            "positions 0, 1, len/2, len-2, len-1, len, len+1, len+3, -1, -2, -len, -len-1, -len-2 and lengths 0, 1, len-1, "
            "len, len+1, the block capacities +0/+1, -1, -len, -len-1; maps with 0..24 keys (existing first / middle / last "
            "key, new key, duplicate keys), then 1500 random histories of 2-40 operations whose positions are aimed by a "
            "value-level picture of the handles. While a patch of docs/C04_<topic>.diff is not in the tree its PATCHED_<TOPIC> "
            "switch keeps the cases that need it out (negative reserve/resize, reserve/resize below the length on shared "
            "data, copies of unique arrays and NoCopy flags, map::get / map::set of an existing key, swap outside the "
            "elements, swap on shared data). After EACH operation all six handles are read back (element type, bytes, length), "
            "with the sharing partition, _used, _size, reference count and flags of every buffer. A case is non-trivial when some "
            "handle holds data when a mutating operation runs; distinct = distinct case text. Template handles are read "
            "back twice: from the header and the bytes behind it, and through the template API (length, get with positive "
            "and negative positions, begin/end, elements(), map iteration) - a difference is reported in the token; the "
            "Counted families add the number of live objects, which must equal the elements of all live blocks")
    modelled = ("mptcore/array/{buffer_alloc,array_append,array_insert,array_set,array_slice,array_reserve,array_clone,"
                "array_reduce,buffer_insert,buffer_cut,buffer_set,slice_write,printf,array_string}.c and the C++ entry points of "
                "mpt++/array.cpp + mptcore/array.h (reference assignment, array::append/set/operator=(slice), slice ctor/shift/trim, "
                "array::insert, array::set(value) for string / vector / scalar values, array::set(reference<buffer>), "
                "array::content::set_length, slice copy constructor, slice::set(convertable); the wrappers array(size_t), "
                "operator=(iovec), operator+=, prepend, insert(off, len, 0), array::set(convertable) are mapped by the driver to "
                "the modelled operation they call) transcribed in "
                "coq/C04/ArrayModel.v for raw buffers and POD element types (no init/fini callbacks; those are C05); "
                "malloc failure, SIZE_MAX overflow guards, errno kinds and vsnprintf formats other than \"%s\" are not modelled. "
                "The class templates of mptcore/array.h (content<T>, unique_array<T>, typed_array<T>, pointer_array<T>, "
                "map<K,V>: constructors, copy / assignment, insert, set, get, reserve, resize, detach, offset, elements, "
                "compact, swap, unused, map::set / append / get / values) are transcribed as compositions of the modelled "
                "detach / mpt_buffer_insert / buffer::trim / element stores plus the index arithmetic on C long positions, "
                "AS THEY ARE AFTER docs/C04_{reserve_negative,reserve_keep,reserve_fail,map_get,map_set_shared,swap_bounds,"
                "ptr_swap_shared}.diff; element types are identified by their size (traits with init/fini that copy bitwise and "
                "zero-initialise behave as POD: the instance count of such a type is checked against the model heap); the static "
                "default_data object is the handle without buffer; mpt_array_compact's in-place loop is modelled by its result "
                "(used pointers in order at the front; the bytes behind the new length are not content and not compared); "
                "item_array / reference_array (element types with identifier / reference members) are not modelled. struct "
                "encode_array (prepare / shift / push / push(message) / data / copy) has NO mechanism model of its own: it is "
                "compared with the value-level specification coq/C04/ArrayEnc.v (array bytes + the counters done / scratch; "
                "AS PATCHED by docs/C04_enc_{prepare,shift,push_message}.diff), mpt_array_push underneath belongs to the encoder "
                "properties (C01/C02). Not driven: the tostring path of array::set(value) (TypeArray / TypeBufferPtr values), "
                "negative slice::shift / trim, operator+=(content const&), the copy<> specialisations (mpt_copy64/32/df/fd "
                "wrappers), encode_array with an encoder")
    trusted = ["harness/c04_array.c and harness/c04_cxx.cpp read every handle back from the header fields and the bytes behind "
               "the header, not through the library (the C harness includes buffer_alloc.c, the C++ harness mirrors the layouts "
               "and checks their sizes)",
               "the C++ harness compiles mpt++/array.cpp into its own translation unit without UBSan's vptr check (C-made "
               "buffers carry a C function table, not a C++ vtable); all other sanitizer checks stay on",
               "harness/c04_tpl.cpp (class templates) finds the block of a handle from the address of its first element "
               "(begin() is right behind the header) and reads it as the other harnesses do; it is built like c04_cxx.cpp",
               "vsnprintf(\"%s\") is modelled as bounded copy + NUL; malloc succeeds; fresh heap memory reads as the ASan fill byte 0xbe"]
    level_text = ("proof: Coq theorems C04_cow_step / C04_others_unchanged / C04_cow_histories / C04_refused_unchanged / "
                  "C04_model_no_fault / C04_ref_inv (+ C04_template_insert_value / C04_template_read_only / C04_view_is_value) "
                  "over the transcribed mechanism (heap of reference-counted buffers + array and "
                  "slice handles): for EVERY state satisfying the heap invariant and every one of the 39 modelled operations (C API: "
                  "append, insert, typed set, slice, reserve, clone/clear, reduce, in-place buffer insert/cut/set, printf, string, new "
                  "buffer, flags, slice creation, slice write; C++ API: array copy/assignment, append, set, set(string value), "
                  "array = slice, slice(array), slice::shift/trim, set(reference<buffer>), set(vector / scalar value), "
                  "content::set_length, slice copy constructor, slice::set(convertable); class templates typed_array / unique_array / pointer_array / map: "
                  "construction with a length, insert, set, reserve, resize, detach, read-only methods, compact, swap, map::set), "
                  "the value read through the target handle is exactly the plain "
                  "vector operation of coq/C04/ArraySpec.v (gaps zero, lengths exact), every other handle reads what it read before, "
                  "the reference count of every buffer equals the number of handles on it, no model access leaves the block, refused "
                  "operations change no value; lifted to all mixed C/C++ histories by induction (no bound on handles, lengths, "
                  "history length). struct encode_array: C04_enc_* (9 theorems over the value-level specification "
                  "coq/C04/ArrayEnc.v): in every history the counters describe a part of the array, an operation changes its "
                  "target only, a refused one nothing, prepare changes nothing readable, push / push(message) append to the "
                  "message in progress and leave the finished data, push(0,0) hands the message out, shift(n) consumes exactly "
                  "n finished bytes, shift(0) drops exactly the consumed bytes. The model is tied to the code on every run by "
                  "differential execution of three harness binaries (C, C++ array/slice/encode_array, C++ class templates) "
                  "under ASan/UBSan")
    level_note = ("full strength for the modelled C and C++ entry points on raw and POD-typed buffers; all theorems closed under the "
                  "global context. Trusted: Coq kernel; hand transcription (validated by the correspondence run, not verified); "
                  "extraction + OCaml driver; harnesses. The specification is told (hint_of) the NoCopy/shared/immutable flags and "
                  "capacity of the target's buffer where the interface leaves the verdict to them (NoCopy refusal, capacity "
                  "precondition of the in-place mpt_buffer_* functions, partial slice writes) and whether a slice window lies inside "
                  "the data (harness guard of slice::shift/trim and array = slice). mpt++ array::insert (double offset, new buffer never installed, heap overflow) and array::set(const value&) "
                  "(always failed) were found defective and repaired in /repo (74201ae, aa1131c). Class templates: template operations are "
                  "applied to handles of their own element type only (static typing: guard t_ok), pointer_array::swap only to a "
                  "handle that owns a block; seven defects of the unmodified templates were found by driving them (replays "
                  "docs/C04_replay_*.json, one patch each under docs/C04_<topic>.diff, verified on a scratch tree with ctest 29/29): "
                  "unique_array::reserve with a negative length always refused; reserve/resize below the length cuts the private "
                  "copy of shared data; reserve reports success after a failed detach (shared NoCopy data then written in place); "
                  "map::get returns the value behind the end iterator (heap overflow through map::set on a full block); map::set "
                  "writes an existing key into shared data; swap(span) accepts p == length and negative positions (heap overflow "
                  "on a full block); pointer_array::swap exchanges elements of shared data in place. The model is the code as "
                  "patched; until a patch is committed its PATCHED_<TOPIC> switch in props/c04.py keeps the cases that need it out, "
                  "so those behaviours are NOT exercised on the unpatched tree. encode_array (driven since coverage round 5, "
                  "specification-level comparison only): three defects OPEN in /repo, one patch each: prepare(len) zeroes "
                  "the content (docs/C04_enc_prepare.diff, PATCHED_ENC_PREPARE), shift(0) reads in front of the data area, "
                  "zeroes what it moved and writes shared data in place (docs/C04_enc_shift.diff, PATCHED_ENC_SHIFT), "
                  "push(message) never ends and ignores continuation parts (docs/C04_enc_push_message.diff, "
                  "PATCHED_ENC_PUSHMSG); replays docs/C04_replay_enc_*.json. Not covered: item_array / reference_array, "
                  "negative slice::shift/trim, buffers with init/fini callbacks that do not copy bitwise (C05), malloc failure "
                  "paths. See docs/notes_C04.md.")
    technique = "Coq refinement proof (refcounted buffer heap -> value vectors) + differential correspondence check"
    assumptions = ["malloc succeeds", "buffers carry no init/fini callbacks (raw or POD element types)",
                   "vsnprintf(\"%s\") copies at most cap-1 bytes, stores a NUL and returns the text length"]

    # ------------------------------------------------------------ token handling
    def project(self, tok):
        p = tok.split("|")
        res = p[0].split("/")[0]
        return res + "|" + (p[1] if len(p) > 1 else "")

    def split(self, case):
        t = case.split()
        hdr = []
        if t and (t[0] in FAMS or t[0] == "E"):   # class template cases start with the family of the four handles,
            hdr, t = t[:1], t[1:]                  # encode_array cases with E
        ops, i = [], 0
        while i < len(t):
            n = ARITY.get(t[i], 1)
            ops.append(t[i:i + n + 1])
            i += n + 1
        return hdr, ops

    def shrink_candidates(self, case):
        hdr, ops = self.split(case)
        n = len(ops)
        for k in range(1, n):
            yield self.join(hdr, ops[:k])
        for k in range(n):
            yield self.join(hdr, ops[:k] + ops[k + 1:])
        for k, o in enumerate(ops):
            hi = HEXARG.get(o[0])
            if hi is not None and o[hi + 1] != "-" and len(o[hi + 1]) > 2 and o[0] != "wr":
                h = o[hi + 1]
                for nh in (h[:len(h) // 4 * 2] or "-", h[:-2]):
                    yield self.join(hdr, ops[:k] + [o[:hi + 1] + [nh] + o[hi + 2:]] + ops[k + 1:])
            for ai in range(2, len(o)):
                if ai - 1 == hi:
                    continue
                try:
                    v = int(o[ai])
                except ValueError:
                    continue
                for nv in (0, v // 2, v - 1) if v >= 0 else (-1, v // 2, v + 1):
                    if 0 <= nv < v or v < nv < 0:
                        yield self.join(hdr, ops[:k] + [o[:ai] + [str(nv)] + o[ai + 1:]] + ops[k + 1:])

    def classify(self, case):
        hdr, ops = self.split(case)
        cl = set()
        have = False
        if hdr and hdr[0] == "E":
            cl.add("family:E")
            for o in ops:
                cl.add("op:" + o[0])
                if o[0] in ("eprep", "eshf", "ecp", "efin") and have:
                    cl.add("mutate-nonempty")
                if o[0] in ("epush", "epm"):
                    if have:
                        cl.add("mutate-nonempty")
                    have = True
                if o[0] == "ecp":
                    cl.add("shared")
            if len(ops) > 1:
                cl.add("history")
            return cl if len(ops) >= 2 else set()
        if hdr:
            cl.add("family:" + hdr[0])
            for o in ops:
                cl.add("op:" + o[0])
                if o[0] in TPL_MUT and have:
                    cl.add("mutate-nonempty")
                if o[0] in ("tins", "trsz", "mset", "mapp"):
                    have = True
                if o[0] in ("tcp", "tcc"):
                    cl.add("shared")
                if o[0] == "flg" and o[-1] != "0":
                    cl.add("flags:" + o[-1])
            if len(ops) > 1:
                cl.add("history")
            return cl if ("mutate-nonempty" in cl or len(ops) >= 2) else set()
        for o in ops:
            cl.add("op:" + o[0])
            if o[0] in MUTATORS and have:
                cl.add("mutate-nonempty")
            if o[0] in ("app", "ins", "set", "slw", "prt", "setz", "appz", "slc"):
                have = True
            if o[0] in ("cln", "mks"):
                cl.add("shared")
            if o[0] in ("new", "flg") and o[-1] != "0":
                cl.add("flags:" + o[-1])
        if len(ops) > 1:
            cl.add("history")
        if "mutate-nonempty" not in cl and len(ops) < 2:
            return set()
        return cl

    # ------------------------------------------------------------ two harness binaries
    cxx_harness_src = "c04_cxx.cpp"
    cxx_libs = ["mpt++", "mptcore"]
    # the C buffers carry a C function table instead of a C++ vtable: UBSan's vptr check rejects every virtual
    # call on them, so the translation unit that contains mpt++/array.cpp is built without that one check
    cxx_flags = ["-fno-sanitize=vptr"]

    @staticmethod
    def is_cxx(case):
        return case.startswith("E ") or case == "E" or any(t in CXX_OPS for t in case.split())

    def evaluate(self, cases, workdir, tagsuffix=""):
        """cases of the class templates (family token first) go to harness/c04_tpl.cpp, cases that use the C++ array /
        slice API to harness/c04_cxx.cpp, the others to harness/c04_array.c; one model run"""
        hx = vcheck.build_harness(self.harness_src, self.libs, extra=self.extra_harness_flags)
        mx = vcheck.build_model(self.mlname, self.driver, self.extract_vo)
        ided = ["c%d %s" % (i, c) for i, c in enumerate(cases)]
        t_cases = [l for l, c in zip(ided, cases) if self.is_tpl(c)]
        c_cases = [l for l, c in zip(ided, cases) if not self.is_tpl(c) and not self.is_cxx(c)]
        x_cases = [l for l, c in zip(ided, cases) if not self.is_tpl(c) and self.is_cxx(c)]
        I, errs = {"I": {}}, []
        if c_cases:
            r, e = vcheck.run_cases(hx, c_cases, workdir, "impl" + tagsuffix, env=self.harness_env, args=self.harness_args)
            I["I"].update(r.get("I", {})); errs += e
        if x_cases:
            cx = vcheck.build_harness(self.cxx_harness_src, self.cxx_libs, extra=self.cxx_flags)
            r, e = vcheck.run_cases(cx, x_cases, workdir, "implcxx" + tagsuffix, env=self.harness_env, args=self.harness_args)
            I["I"].update(r.get("I", {})); errs += e
        if t_cases:
            tx = vcheck.build_harness(self.tpl_harness_src, self.cxx_libs, extra=self.cxx_flags)
            r, e = vcheck.run_cases(tx, t_cases, workdir, "impltpl" + tagsuffix, env=self.harness_env, args=self.harness_args)
            I["I"].update(r.get("I", {})); errs += e
        M, e2 = vcheck.run_cases(mx, ided, workdir, "model" + tagsuffix)
        res = []
        for i, c in enumerate(cases):
            k = "c%d" % i
            res.append(self.compare(c, I["I"].get(k), M.get("M", {}).get(k), M.get("S", {}).get(k)))
        return res, errs + e2

    def cxx_patched(self):
        """array::insert and array::set(const value&) were repaired in /repo (fix: commits 74201ae, aa1131c; known_findings.json
        kind "fixed"); both are always driven, so a return of either defect is reported as a VIOLATION"""
        return True, True

    def cxx_sweep(self, rng):
        ins_ok, sets_ok = self.cxx_patched()
        by = Bytes(rng)
        cases = []
        for L in (0, 1, 3, 63, 64, 65, 200):
            for typed in (0, 1):
                for fl in (0, 1, 2):
                    for sh in (0, 1, 2):       # private / shared with an array / shared with a slice
                        pre = (["prt", "0", by.take(L, False)] if typed else ["xapp", "0", by.take(L, False)])
                        if fl:
                            pre += ["flg", "0", str(fl)]
                        if sh == 1:
                            pre += ["xcp", "1", "0"]
                        if sh == 2:
                            pre += ["xmks", "4", "0"]
                        u, s = L, asz(L)
                        free = s - u
                        ops = []
                        for n in sorted(set([0, 1, free, free + 1])):
                            ops.append(["xapp", "0", by.take(n)])
                            ops.append(["xset", "0", by.take(n)])
                        for n in sorted(set([0, max(0, u - 1), u, u + 1, s, s + 1])):
                            ops.append(["xset", "0", by.take(n)])
                            ops.append(["xsetz", "0", str(n)])
                        ops += [["xclr", "0"], ["xcp", "0", "1"], ["xcp", "0", "2"], ["xcp", "2", "0"], ["xcp", "0", "0"],
                                ["str", "0"], ["prt", "0", by.take(3, False)], ["xmks", "5", "0"], ["xmks", "4", "2"]]
                        if ins_ok:
                            for p in sorted(set([0, 1, u // 2, u, u + 2, 40])):
                                for n in sorted(set([0, 1, 20, free, free + 1])):
                                    ops.append(["xins", "0", str(p), by.take(n)])
                        if sets_ok:
                            for n in (0, 1, 3, 63, 64, 65):
                                ops.append(["xsets", "0", by.take(n, False)])
                        # further entry points of mpt++/array.cpp
                        if fl < 2 and L in (0, 1, 63, 64, 200):
                            for n in sorted(set([0, 1, free + 1])):
                                ops.append(["xiov", "0", by.take(n)])
                                ops.append(["xpre", "0", by.take(n)])
                                if n:
                                    ops.append(["xaiov", "0", by.take(n)])
                                    ops.append(["xasp", "0", by.take(n)])
                            ops.append(["xaiov", "0", "-"])
                            for n in sorted(set([0, 1, 65, u])):
                                ops.append(["xnew", "0", str(n)])
                            ops.append(["xnew", "2", str(s + 1), "xapp", "2", by.take(3)])
                            for p in sorted(set([0, u // 2, u + 2])):
                                for n in sorted(set([1, free + 1])):
                                    ops.append(["xinsz", "0", str(p), str(n)])
                            for k in "vcsen":
                                for n in sorted(set([0, 1, u, u + 1, s + 1])) if k in "vs" else (u,):
                                    ops.append(["xsetc", "0", k, by.take(n, False)])
                                ops.append(["xmks", "5", "0", "xshf", "5", "1", "xssc", "5", k, by.take(u + 1, False)])
                            ops.append(["xmks", "5", "0", "xssc", "5", "s", by.take(3, False)])
                            ops += [["xsetr", "1", "0"], ["xsetr", "0", "1"], ["xsetr", "0", "0"], ["xsetr", "0", "2"],
                                    ["xsetr", "2", "0", "xapp", "2", by.take(2)], ["xsetr", "2", "0", "xapp", "0", by.take(2)]]
                            for k, e in (("V", 1), ("c", 1), ("u", 4), ("d", 8)):
                                for n in sorted(set([0, e, 2 * e + 1, 72])):
                                    ops.append(["xsetv", "0", k, by.take(n)])
                            for k, e in (("C", 1), ("U", 4), ("D", 8)):
                                ops.append(["xsetv", "2", k, by.take(e), "xcp", "3", "2", "xsetv", "2", k, by.take(e)])
                            for n in sorted(set([0, max(0, u - 1), u, u + 1, s, s + 1])):
                                ops.append(["xlen", "0", str(n), "xapp", "0", by.take(2)])
                            for n1 in (0, 1):
                                ops.append(["xmks", "5", "0", "xshf", "5", str(n1), "xscp", "4", "5", "wr", "4", "1", "1", by.take(1)])
                                ops.append(["xmks", "5", "0", "xtrm", "5", str(n1), "xscp", "4", "5", "xscp", "5", "5", "xclr", "0"])
                            ops.append(["xscp", "4", "5"])
                        for n1 in sorted(set([0, 1, u, u + 1])):
                            for n2 in sorted(set([0, 1, max(0, u - n1), max(0, u - n1) + 1])):
                                tail = ["xmks", "5", "0", "xshf", "5", str(n1), "xtrm", "5", str(n2)]
                                ops.append(tail + ["xasl", "1", "5"])
                                ops.append(tail + ["xasl", "0", "5"])
                                ops.append(tail + ["wr", "5", "2", "1", by.take(2), "xasl", "2", "5"])
                        for o in ops:
                            cases.append(" ".join(pre + o))
        return cases

    def gen_cxx_history(self, rng, nops):
        ins_ok, sets_ok = self.cxx_patched()
        by = Bytes(rng)
        u = [0] * 6
        names = (["xapp"] * 12 + ["xset"] * 7 + ["xsetz"] * 2 + ["xcp"] * 12 + ["xclr"] * 2 + ["xasl"] * 6 + ["xmks"] * 8
                 + ["xshf"] * 5 + ["xtrm"] * 5 + ["prt"] * 4 + ["str"] * 2 + ["wr"] * 6 + ["wrz"] * 2 + ["flg"] * 3
                 + (["xins"] * 10 if ins_ok else []) + (["xsets"] * 4 if sets_ok else [])
                 + ["xnew"] * 2 + ["xiov"] * 2 + ["xaiov"] * 3 + ["xasp"] * 2 + ["xpre"] * 3 + ["xinsz"] * 3 + ["xsetc"] * 5
                 + ["xsetr"] * 5 + ["xsetv"] * 6 + ["xlen"] * 5 + ["xscp"] * 4 + ["xssc"] * 4)
        ops = []
        for _ in range(nops):
            op = rng.choice(names)
            x = rng.choice([0, 1, 0, 1, 2, 3]) if rng.random() < 0.97 else rng.randrange(0, 7)
            ux = u[x] if x < 6 else 0
            s = asz(ux)
            free = s - ux
            ln = lambda: rng.choice([0, 1, 1, 2, 3, 4, 8, max(0, free - 1), free, free + 1, 64, 128, rng.randrange(0, 200)])
            sidx = rng.choice([4, 4, 5]) if rng.random() < 0.97 else rng.randrange(0, 7)
            if op == "xapp":
                n = ln(); ops.append([op, str(x), by.take(n)])
                if x < 4: u[x] += n
            elif op == "xins":
                p = around(rng, [0, 1, ux // 2, ux, ux + 1, 40, s]); n = ln()
                ops.append([op, str(x), str(p), by.take(n)])
                if x < 4: u[x] = max(ux, p) + n
            elif op in ("xset", "xsetz"):
                n = rng.choice([0, 1, max(0, ux - 1), ux, ux + 1, s, s + 1, ln()])
                ops.append([op, str(x), by.take(n) if op == "xset" else str(n)])
                if x < 4: u[x] = n
            elif op == "xsets":
                n = rng.choice([0, 1, 5, 63, 64, rng.randrange(0, 100)])
                ops.append([op, str(x), by.take(n, False)])
                if x < 4: u[x] = n + 1
            elif op == "xnew":
                ops.append([op, str(x), str(rng.choice([0, 0, 1, 64, 65, 200]))])
                if x < 4: u[x] = 0
            elif op in ("xiov", "xaiov", "xasp", "xpre"):
                n = ln()
                if n == 0 and op in ("xaiov", "xasp") and rng.random() < 0.9: n = 1
                ops.append([op, str(x), by.take(n)])
                if x < 4: u[x] = n if op == "xiov" else ux + n
            elif op == "xinsz":
                p = around(rng, [0, 1, ux // 2, ux, ux + 1, 40, s]); n = ln()
                ops.append([op, str(x), str(p), str(n)])
                if x < 4: u[x] = max(ux, p) + n
            elif op in ("xsetc", "xssc"):
                k = rng.choice("vvccsssen")
                n = rng.choice([0, 1, max(0, ux - 1), ux, ux + 1, s, s + 1, ln()])
                t = x if op == "xsetc" else sidx
                ops.append([op, str(t), k, by.take(n, False)])
                if t < 6 and k in "vcs": u[t] = n + (k == "s")
            elif op == "xsetr":
                y = rng.randrange(0, 4) if rng.random() < 0.97 else rng.randrange(0, 7)
                ops.append([op, str(x), str(y)])
                if x < 4 and y < 4: u[x] = u[y]
            elif op == "xsetv":
                k, e = rng.choice([("V", 1), ("c", 1), ("u", 4), ("d", 8), ("C", 1), ("U", 4), ("D", 8)])
                n = e if k in "CUD" else rng.choice([0, 1, 2, 3, 8]) * e + (1 if rng.random() < 0.1 else 0)
                ops.append([op, str(x), k, by.take(n)])
                if x < 4: u[x] = n
            elif op == "xlen":
                n = rng.choice([0, max(0, ux - 1), ux, ux + 1, ux + 7, max(0, s - 1), s, s + 1])
                ops.append([op, str(x), str(n)])
                if x < 4 and n <= s: u[x] = n
            elif op == "xscp":
                t2 = rng.choice([4, 5, 4, 5, sidx]) if rng.random() < 0.97 else rng.randrange(0, 7)
                ops.append([op, str(sidx), str(t2)])
                if sidx in (4, 5) and t2 in (4, 5): u[sidx] = u[t2]
            elif op == "xcp":
                y = rng.randrange(0, 4) if rng.random() < 0.97 else rng.randrange(0, 7)
                ops.append([op, str(x), str(y)])
                if x < 4 and y < 4: u[x] = u[y]
            elif op == "xclr":
                ops.append([op, str(x)])
                if x < 4: u[x] = 0
            elif op == "xasl":
                ops.append([op, str(x), str(sidx)])
                if x < 4 and sidx in (4, 5): u[x] = u[sidx]
            elif op == "xmks":
                y = rng.randrange(0, 4) if rng.random() < 0.97 else rng.randrange(0, 7)
                ops.append([op, str(sidx), str(y)])
                if sidx in (4, 5) and y < 4:
                    u[sidx] = u[y]
                    if rng.random() < 0.3:
                        ops.append(["xclr", str(y)]); u[y] = 0
            elif op in ("xshf", "xtrm"):
                us = u[sidx] if sidx < 6 else 0
                n = rng.choice([0, 1, 1, 2, us // 2, us, us + 1])
                ops.append([op, str(sidx), str(n)])
                if sidx in (4, 5) and n <= us: u[sidx] = us - n
            elif op == "prt":
                n = rng.choice([0, 1, 5, max(0, free - 1), free, 63, 64, 65])
                ops.append([op, str(x), by.take(n, False)])
            elif op == "str":
                ops.append([op, str(x)])
            elif op == "flg":
                ops.append([op, str(x), str(rng.choice([0, 1, 2, 3]))])
            else:
                us = u[sidx] if sidx < 6 else 0
                fr = asz(us) - us
                es = rng.choice([1, 1, 2, 3, 8, 0, max(1, fr), fr + 1])
                nb = rng.choice([0, 1, 2, 3, (fr // es if es else fr), (fr // es + 1 if es else fr + 1)])
                if op == "wr" and es:
                    ops.append(["wr", str(sidx), str(nb), str(es), by.take(nb * es)])
                else:
                    ops.append(["wrz", str(sidx), str(nb), str(es)])
                if sidx in (4, 5) and es: u[sidx] = us + nb * es
        return " ".join(t for o in ops for t in o)

    # ------------------------------------------------------------ class templates of mptcore/array.h
    tpl_harness_src = "c04_tpl.cpp"

    def corpus(self):
        """a corpus line `@RESERVE_NEG,MAP_GET <case>` is used only when all the named PATCHED_ switches are on"""
        out = []
        for line in DiffProperty.corpus(self):
            if line.startswith("@"):
                need, line = line[1:].split(None, 1)
                if not all(globals().get("PATCHED_" + n, False) for n in need.split(",")):
                    continue
            out.append(line)
        return out

    @staticmethod
    def is_tpl(case):
        return case[:2] in FAMS and case[2:3] in (" ", "")

    @staticmethod
    def tpl_elem(fam, rng):
        """one element as hex: doubles with integer values (bit equality = value equality), pointers 0x1000*k or null"""
        if fam in ("Td", "Tq"):
            return struct.pack("<d", float(rng.randrange(1, 250))).hex()
        if fam == "Tu":
            return struct.pack("<I", rng.randrange(1, 1 << 32)).hex()
        if fam in ("Tk", "Tr"):
            return struct.pack("<III", rng.randrange(1, 1000), rng.randrange(0, 1 << 32), rng.randrange(0, 5)).hex()
        if fam == "Tp":
            return "00" * 8 if rng.random() < 0.35 else struct.pack("<Q", 0x1000 * rng.randrange(1, 4000)).hex()
        raise ValueError(fam)

    def tpl_fill(self, fam, rng, L, x="0"):
        """operations that give handle x exactly L elements with recognisable content"""
        if L <= 4:
            return [t for i in range(L) for t in ("tins", x, str(i), self.tpl_elem(fam, rng))]
        ops = ["trsz", x, str(L)]
        for i in sorted(set([0, 1, L // 2, L - 2, L - 1])):
            ops += ["tset", x, str(i), self.tpl_elem(fam, rng)]
        return ops

    def tpl_sweep(self, rng):
        cases = []
        for fam in ("Td", "Tu", "Tk", "Tq", "Tr", "Tp"):
            e = FAMS[fam]
            c1, c2 = 64 // e, 192 // e            # elements in the first / second allocation step
            uq = fam in UNIQ
            modes = [("priv", [], "0"), ("cp", ["tcp", "1", "0"], "0")]
            rest = [("cp1", ["tcp", "1", "0"], "1"), ("cc", ["tcc", "1", "0"], "1"), ("imm", ["flg", "0", "1"], "0"),
                    ("cpimm", ["tcp", "1", "0", "flg", "0", "1"], "0"), ("nc", ["flg", "0", "2", "tcp", "1", "0"], "0")]
            for L in sorted(set([0, 1, 2, 3, c1 - 1, c1, c1 + 1, c2, c2 + 1])):
                for (mode, mk, x) in modes + (rest if L in (1, c1, c1 + 1) else []):
                    shared = mode in ("cp", "cp1", "cc", "cpimm", "nc")
                    if (uq and shared) or mode == "nc":
                        if not PATCHED_RESERVE_FAIL:
                            continue
                    clean = mode == "priv"
                    pre = [fam] + self.tpl_fill(fam, rng, L) + mk
                    ops = []
                    for pos in sorted(set([0, 1, L // 2, L - 2, L - 1, L, L + 1, L + 3, -1, -2, -L, -L - 1, -L - 2])):
                        ops.append(["tins", x, str(pos), self.tpl_elem(fam, rng)])
                        ops.append(["tset", x, str(pos), self.tpl_elem(fam, rng)])
                    for n in sorted(set([0, 1, L - 1, L, L + 1, c1, c1 + 1, c2 + 1, -1, -L, -L - 1])):
                        if n < 0 and not PATCHED_RESERVE_NEG:
                            continue
                        if n < L and not (PATCHED_RESERVE_KEEP or clean):     # (a negative length is below the length, too)
                            continue
                        ops.append(["trsv", x, str(n)])
                        ops.append(["trsz", x, str(n)])
                    ops += [["tdet", x], ["tclr", x], ["tnew", x, "-1"], ["tnew", x, "0"], ["tnew", x, str(c1 + 1)],
                            ["tcp", "2", x], ["tcp", x, "2"], ["tcc", "2", x], ["tcp", x, x]]
                    reads = []
                    for pos in sorted(set([0, 1, L - 1, L, -1, -L, -L - 1])):
                        reads += ["tget", x, str(pos)]
                    reads += ["toff", x, self.tpl_elem(fam, rng), "toff", x, "00" * e]
                    ops.append(reads)
                    if fam == "Tp":
                        ops.append(["tunu", x, "tcmp", x, "tunu", x])
                        for p1 in sorted(set([0, 1, L - 1, L, L + 1, -1])):
                            for p2 in sorted(set([0, L - 1, L, -1])):
                                inr = 0 <= p1 < L and 0 <= p2 < L
                                if not inr and not PATCHED_SWAP_BOUNDS:
                                    continue
                                if not clean and not PATCHED_PTR_SWAP_SHARED:
                                    continue
                                ops.append(["tswp", x, str(p1), str(p2)])
                    for o in ops:
                        cases.append(" ".join(pre + o))
        # map<uint32_t, uint32_t>
        by = 1
        for n in (0, 1, 2, 7, 8, 9, 24):
            for (mode, mk, x) in (("priv", [], "0"), ("cp", ["tcp", "1", "0"], "0"), ("cp1", ["tcp", "1", "0"], "1"),
                                  ("cc", ["tcc", "1", "0"], "1")):
                pre = ["Tm"]
                for k in range(n):
                    pre += ["mset", "0", str(k + 1), str(100 + k)]
                pre += mk
                keys = sorted(set([1, max(1, n // 2), max(1, n)])) if n else []
                ops = []
                for k in keys:
                    if PATCHED_MAP_GET and PATCHED_MAP_SET:
                        ops.append(["mset", x, str(k), str(7000 + k)])
                    ops.append(["mapp", x, str(k), str(8000 + k), "mval", x, str(k), "mall", x]
                               + (["mget", x, str(k)] if PATCHED_MAP_GET else []))
                    if PATCHED_MAP_GET:
                        ops.append(["mget", x, str(k)])
                    ops.append(["mval", x, str(k)])
                ops += [["mset", x, str(n + 5), "9"], ["mapp", x, str(n + 5), "9"], ["mget", x, str(n + 5)],
                        ["mval", x, str(n + 5)], ["mall", x], ["tclr", x], ["tcp", "2", x]]
                for o in ops:
                    cases.append(" ".join(pre + o))
        return cases

    def gen_tpl_history(self, rng, nops):
        fam = rng.choice(["Td", "Td", "Tu", "Tk", "Tk", "Tq", "Tr", "Tp", "Tp", "Tm", "Tm"])
        if fam == "Tm":
            return self.gen_map_history(rng, nops)
        e = FAMS[fam]
        c1, c2 = 64 // e, 192 // e
        uq = fam in UNIQ
        zero = "00" * e
        v = [[] for _ in range(4)]        # value-level picture of the handles (aims positions, keeps unpatched cases out)
        clean = [True] * 4                # the handle holds private, unflagged data for sure
        fuzzy = [False] * 4               # the picture may be wrong (refusals of NoCopy data, immutable compact)
        flagged = False
        names = (["tins"] * 16 + ["tset"] * 6 + ["trsv"] * 5 + ["trsz"] * 6 + ["tdet"] * 2 + ["tcp"] * 10 + ["tcc"] * 3
                 + ["tclr"] * 2 + ["tnew"] * 2 + ["tget"] * 3 + ["toff"] * 1 + ["flg"] * 2
                 + (["tcmp"] * 5 + ["tswp"] * 6 + ["tunu"] * 2 if fam == "Tp" else []))
        ops = []
        for _ in range(nops):
            op = rng.choice(names)
            x = rng.choice([0, 1, 0, 1, 2, 3]) if rng.random() < 0.97 else rng.randrange(0, 7)
            ok = 0 <= x < 4
            L = len(v[x]) if ok else 0
            sure = ok and clean[x] and not fuzzy[x]
            may_block = flagged or uq         # a mutation through a handle that is not clean may be refused
            pos = lambda: rng.choice([0, 1, L // 2, L - 2, L - 1, L, L, L + 1, L + 3, -1, -2, -L, -L - 1,
                                      c1 - 1, c1, c2, rng.randrange(-3, L + 4)])
            if op == "tins":
                p = pos(); el = self.tpl_elem(fam, rng)
                ops.append([op, str(x), str(p), el])
                if ok:
                    if not clean[x] and may_block: fuzzy[x] = True
                    q = p + L if p < 0 else p
                    if q >= 0:
                        v[x] = v[x] + [zero] * (q - L); v[x].insert(q, el)
            elif op == "tset":
                p = pos(); el = self.tpl_elem(fam, rng)
                ops.append([op, str(x), str(p), el])
                if ok:
                    if not clean[x] and may_block: fuzzy[x] = True
                    q = p + L if p < 0 else p
                    if 0 <= q < L: v[x][q] = el
            elif op in ("trsv", "trsz"):
                n = rng.choice([0, 1, L - 1, L, L + 1, c1, c1 + 1, c2, c2 + 1, -1, -L, -L - 1, rng.randrange(0, L + 9)])
                if n < 0 and not PATCHED_RESERVE_NEG:
                    n = L + 1
                if ok and fuzzy[x] and not PATCHED_RESERVE_KEEP:
                    continue                                              # the real length is not known for sure
                if n < L and not (PATCHED_RESERVE_KEEP or sure):          # (a negative length is below the length, too)
                    n = L + rng.choice([0, 1, c1])
                ops.append([op, str(x), str(n)])
                if ok:
                    if not clean[x] and may_block: fuzzy[x] = True
                    if op == "trsz" and n >= 0:
                        v[x] = v[x][:n] + [zero] * (n - L)
            elif op == "tdet":
                ops.append([op, str(x)])
            elif op in ("tcp", "tcc"):
                y = rng.randrange(0, 4) if rng.random() < 0.97 else rng.randrange(0, 7)
                if uq and not PATCHED_RESERVE_FAIL:
                    continue
                if op == "tcc" and x == y:
                    op = "tcp"
                ops.append([op, str(x), str(y)])
                if ok and 0 <= y < 4 and x != y:
                    v[x] = list(v[y]); clean[x] = clean[y] = False; fuzzy[x] = fuzzy[y]
            elif op == "tclr":
                ops.append([op, str(x)])
                if ok: v[x] = []; clean[x] = True; fuzzy[x] = False
            elif op == "tnew":
                ops.append([op, str(x), str(rng.choice([-1, 0, 1, c1, c1 + 1, c2 + 1]))])
                if ok: v[x] = []; clean[x] = True; fuzzy[x] = False
            elif op == "tget":
                ops.append([op, str(x), str(pos())])
            elif op == "toff":
                ops.append([op, str(x), rng.choice(v[x]) if ok and v[x] and rng.random() < 0.7 else self.tpl_elem(fam, rng)])
            elif op == "flg":
                f = rng.choice([0, 1, 1, 2, 3]) if PATCHED_RESERVE_FAIL else rng.choice([0, 1])
                ops.append([op, str(x), str(f)])
                if ok:
                    clean[x] = False
                    if f & 2: flagged = True
                    if fam == "Tp" and f & 1:
                        fuzzy = [fz or not cl for fz, cl in zip(fuzzy, clean)]
            elif op == "tcmp":
                ops.append([op, str(x)])
                if ok: v[x] = [el for el in v[x] if el != zero]
            elif op == "tunu":
                ops.append([op, str(x)])
            elif op == "tswp":
                p1, p2 = (rng.choice([0, 1, L // 2, L - 1, L, L + 1, -1, rng.randrange(0, L + 2)]) for _ in range(2))
                if ok:
                    if not clean[x] and not PATCHED_PTR_SWAP_SHARED:
                        continue
                    if not PATCHED_SWAP_BOUNDS:
                        if fuzzy[x] or L == 0:
                            continue
                        p1, p2 = rng.randrange(0, L), rng.randrange(0, L)
                    if not clean[x] and may_block: fuzzy[x] = True
                ops.append([op, str(x), str(p1), str(p2)])
                if ok and 0 <= p1 < L and 0 <= p2 < L:
                    v[x][p1], v[x][p2] = v[x][p2], v[x][p1]
        return " ".join([fam] + [t for o in ops for t in o])

    def gen_map_history(self, rng, nops):
        keys = [set() for _ in range(4)]
        ops = []
        for _ in range(nops):
            op = rng.choice(["mset"] * 10 + ["mapp"] * 4 + ["mget"] * 4 + ["mval"] * 3 + ["mall"] * 2 + ["tcp"] * 6
                            + ["tcc"] * 2 + ["tclr"] + ["flg"])
            x = rng.choice([0, 1, 0, 1, 2, 3]) if rng.random() < 0.97 else rng.randrange(0, 7)
            ok = 0 <= x < 4
            have = keys[x] if ok else set()
            k = rng.choice([1, 2, 3, 4, 5, 6, 7, 8, 9, 10, rng.randrange(0, 1 << 32)])
            if op == "mset":
                if k in have and not (PATCHED_MAP_GET and PATCHED_MAP_SET):
                    k = max(have | {10}) + 1
                ops.append([op, str(x), str(k), str(rng.randrange(0, 1 << 32))])
                if ok: keys[x].add(k)
            elif op == "mapp":
                ops.append([op, str(x), str(k), str(rng.randrange(0, 1 << 32))])
                if ok: keys[x].add(k)
            elif op == "mget":
                if k in have and not PATCHED_MAP_GET:
                    k = max(have | {10}) + 1
                ops.append([op, str(x), str(k)])
            elif op == "mval":
                ops.append([op, str(x), str(k)])
            elif op in ("mall", "tclr"):
                ops.append([op, str(x)])
                if ok and op == "tclr": keys[x] = set()
            elif op in ("tcp", "tcc"):
                y = rng.randrange(0, 4) if rng.random() < 0.97 else rng.randrange(0, 7)
                if op == "tcc" and x == y:
                    op = "tcp"
                ops.append([op, str(x), str(y)])
                if ok and 0 <= y < 4: keys[x] = set(keys[y])
            elif op == "flg":
                ops.append([op, str(x), str(rng.choice([0, 1]))])
        return " ".join(["Tm"] + [t for o in ops for t in o])

    # ------------------------------------------------------------ struct encode_array (cases E ...)
    @staticmethod
    def enc_apply(v, o):
        """value-level picture (bytes, done, scratch) of the objects: keeps the cases that need an uncommitted patch
        (and a push behind consumed data: defect of mpt_array_push, outside this property) out.  Returns False when the
        operation must not be generated in state v."""
        e = int(o[1])
        if not 0 <= e <= 1:
            return True
        n, d, sc = v[e]
        cons = n - d - sc
        if o[0] == "epush":
            ln = 0 if o[2] == "-" else len(o[2]) // 2
            if ln and cons and not PATCHED_RAW_PUSH_CONSUMED:
                return False
            if ln: v[e] = (n + ln, d, sc + ln)
        elif o[0] == "efin":
            v[e] = (n, d + sc, 0)
        elif o[0] == "eprep":
            if n and not PATCHED_ENC_PREPARE:
                return False
        elif o[0] == "eshf":
            k = int(o[2])
            if k == 0:
                if cons and d + sc and not PATCHED_ENC_SHIFT:
                    return False
                if cons: v[e] = (d + sc, d, sc)
            elif k <= d:
                v[e] = (n, d - k, sc)
        elif o[0] == "ecp":
            f = int(o[2])
            if 0 <= f <= 1: v[e] = v[f]
        elif o[0] == "epm":
            l1 = 0 if o[2] == "-" else len(o[2]) // 2
            l2 = 0 if o[3] == "-" else len(o[3]) // 2
            if (l1 or l2) and (cons or not PATCHED_ENC_PUSHMSG):
                return False
            v[e] = (n + l1 + l2, d, sc + l1 + l2)
        return True

    def enc_cases(self, rng, nrand):
        by = Bytes(rng)
        pres = [[], ["epush", "0", by.take(3)], ["epush", "0", by.take(3), "efin", "0"],
                ["epush", "0", by.take(5), "efin", "0", "epush", "0", by.take(2)],
                ["epush", "0", by.take(5), "efin", "0", "eshf", "0", "2"],
                ["epush", "0", by.take(6), "efin", "0", "eshf", "0", "2", "ecp", "1", "0"],
                ["epush", "0", by.take(60), "efin", "0", "epush", "0", by.take(4), "ecp", "1", "0"],
                ["epush", "0", by.take(64), "efin", "0", "eshf", "0", "64"],
                ["epush", "0", by.take(70), "efin", "0", "eshf", "0", "3", "epush", "1", by.take(2)]]
        tails = [["epush", "0", by.take(1)], ["epush", "0", by.take(64)], ["epush", "0", "-"], ["efin", "0"],
                 ["eprep", "0", "0"], ["eprep", "0", "1"], ["eprep", "0", "64"], ["eprep", "0", "200"],
                 ["eprep", "0", "10", "epush", "0", by.take(2), "efin", "0"],
                 ["eshf", "0", "0"], ["eshf", "0", "1"], ["eshf", "0", "3"], ["eshf", "0", "5"], ["eshf", "0", "6"], ["eshf", "0", "71"],
                 ["eshf", "0", "0", "epush", "0", by.take(2), "efin", "0", "eshf", "0", "0"],
                 ["eshf", "0", "1", "eshf", "0", "0", "eshf", "0", "0"],
                 ["ecp", "1", "0"], ["ecp", "0", "1"], ["ecp", "0", "0"], ["ecp", "1", "0", "epush", "1", by.take(2), "efin", "1"],
                 ["ecp", "1", "0", "eshf", "1", "0"], ["ecp", "1", "0", "eshf", "0", "0", "efin", "1"],
                 ["ecp", "1", "0", "eprep", "0", "100", "efin", "1"],
                 ["epm", "0", "-", "-"], ["epm", "0", by.take(3), "-"], ["epm", "0", "-", by.take(2)],
                 ["epm", "0", by.take(3), by.take(70)], ["epm", "0", by.take(2), by.take(2), "efin", "0", "epm", "0", by.take(1), by.take(1)],
                 ["ecp", "1", "0", "epm", "1", by.take(2), by.take(3)], ["epush", "2", by.take(1)], ["ecp", "0", "2"]]
        out = []

        def admit(toks):
            ops, i, v = [], 0, [(0, 0, 0), (0, 0, 0)]
            while i < len(toks):
                k = ARITY[toks[i]]
                o = toks[i:i + k + 1]
                if not self.enc_apply(v, o):
                    break
                ops += o
                i += k + 1
            return ops
        for p in pres:
            for t in tails:
                ops = admit(p + t)
                if len(ops) > len(p) or not t:
                    out.append(" ".join(["E"] + ops))
        names = ["epush"] * 10 + ["efin"] * 6 + ["eprep"] * 4 + ["eshf"] * 8 + ["ecp"] * 4 + ["epm"] * 4
        for _ in range(nrand):
            v = [(0, 0, 0), (0, 0, 0)]
            ops = []
            for _ in range(rng.choice([2, 3, 4, 6, 8, 12, 16, 24])):
                op = rng.choice(names)
                e = rng.choice([0, 0, 1]) if rng.random() < 0.98 else rng.randrange(0, 4)
                n, d, sc = v[e] if 0 <= e <= 1 else (0, 0, 0)
                if op == "epush":
                    o = [op, str(e), by.take(rng.choice([1, 1, 2, 3, 8, 60, 64, 65, 130]))]
                elif op == "efin":
                    o = [op, str(e)]
                elif op == "eprep":
                    o = [op, str(e), str(rng.choice([0, 1, 10, 64, 65, 200]))]
                elif op == "eshf":
                    o = [op, str(e), str(rng.choice([0, 0, 0, 1, 1, 2, d // 2, d, d + 1]))]
                elif op == "ecp":
                    o = [op, str(e), str(rng.choice([0, 1]) if rng.random() < 0.97 else 2)]
                else:
                    o = [op, str(e), by.take(rng.choice([0, 1, 3, 64])), by.take(rng.choice([0, 1, 2, 70]))]
                if self.enc_apply(v, o):
                    ops += o
            if ops:
                out.append(" ".join(["E"] + ops))
        return out

    # ------------------------------------------------------------ generators
    def sweep(self, rng):
        cases = []
        by = Bytes(rng)
        for L in (0, 1, 3, 63, 64, 65, 200):
            for tr in (0, 1):
                for fl in (0, 1, 2, 3):
                    for sh in (0, 1):
                        pre = []
                        if tr == 0:
                            pre += ["app", "0", by.take(L, False)] if L else ["new", "0", "0", "0"]
                        else:
                            pre += ["set", "0", "1", "0", by.take(L, False)]
                        if fl:
                            pre += ["flg", "0", str(fl)]
                        if sh:
                            pre += ["cln", "1", "0"]
                        u, s = L, asz(L)
                        free = s - u
                        ops = []
                        for n in sorted(set([0, 1, free, free + 1])):
                            ops.append(["app", "0", by.take(n)])
                        ops.append(["appz", "0", "2"])
                        for p in sorted(set([0, u // 2, u, u + 2])):
                            for n in sorted(set([0, 1, free, free + 1])):
                                ops.append(["ins", "0", str(p), by.take(n)])
                        for off in sorted(set([0, 1, u, u + 1, -1, -u, -(u + 1)])):
                            for n in (1, 2):
                                ops.append(["set", "0", "1", str(off), by.take(n)])
                        ops.append(["set", "0", "4", "0", by.take(4)])
                        ops.append(["setz", "0", "1", str(u + 1), "2"])
                        for off in sorted(set([0, max(0, u - 1), u, u + 1, s, s + 1])):
                            for n in (0, 1, 2):
                                ops.append(["slw", "0", str(off), by.take(n)])
                                ops.append(["slc", "0", str(off), str(n)])
                        for ln in sorted(set([0, max(0, u - 1), u + 1, s + 1])):
                            for t2 in (0, 1, 4):
                                ops.append(["rsv", "0", str(ln), str(t2)])
                        ops += [["red", "0"], ["clr", "0"], ["cln", "0", "1"], ["cln", "0", "2"], ["cln", "2", "0"], ["str", "0"]]
                        for off in sorted(set([0, 1, max(0, u - 1), u, u + 1])):
                            for ln in sorted(set([0, 1, u, u + 1])):
                                ops.append(["bcut", "0", str(off), str(ln)])
                        for p in sorted(set([0, u, u + 1, max(0, s - 1), s])):
                            for n in (0, 1, 2):
                                ops.append(["bset", "0", str(tr), str(p), by.take(n)])
                                ops.append(["bins", "0", str(p), by.take(n)])
                        ops.append(["bsetz", "0", str(tr), str(u + 2), "2"])
                        ops.append(["bset", "0", str(1 - tr), "0", by.take(1)])
                        for n in sorted(set([0, 1, max(0, free - 1), free, free + 1, 63, 64, 65, 127, 128, 129])):
                            ops.append(["prt", "0", by.take(n, False)])
                        for off in sorted(set([0, 1, u])):
                            for ln in sorted(set([0, max(0, u - off), u - off + 1 if u >= off else 1])):
                                for (nb, es) in ((0, 1), (1, 1), (2, 3), (1, free + 1), (free + 2, 1), (3, 0), (0, 0), (s + 1, 0)):
                                    w = ["wr", "4", str(nb), str(es), by.take(nb * es)] if es and rng.random() < 0.7 \
                                        else ["wrz", "4", str(nb), str(es)]
                                    if es == 0 and nb and rng.random() < 0.3:
                                        w = ["wr", "4", str(nb), "0", "-"]
                                    ops.append(["clr", "1", "clr", "0", "mks", "4", "0", str(off), str(ln)] + w
                                               if not sh and rng.random() < 0.5 else
                                               ["mks", "4", "0", str(off), str(ln)] + w)
                        for o in ops:
                            cases.append(" ".join(pre + o))
        return cases

    def gen_history(self, rng, nops):
        by = Bytes(rng)
        u = [0] * 6       # estimated used length per handle
        tr = [None] * 6   # estimated element type (None = no buffer)
        ops = []
        weights = [("app", 14), ("appz", 2), ("ins", 10), ("set", 8), ("setz", 2), ("slw", 6), ("slc", 3), ("rsv", 5),
                   ("cln", 13), ("clr", 2), ("red", 4), ("bins", 4), ("bcut", 7), ("bset", 5), ("bsetz", 1), ("prt", 6),
                   ("str", 3), ("new", 4), ("flg", 6), ("mks", 6), ("wr", 7), ("wrz", 3)]
        names = [w[0] for w in weights for _ in range(w[1])]
        for _ in range(nops):
            op = rng.choice(names)
            x = rng.randrange(0, 4) if rng.random() < 0.97 else rng.randrange(0, 7)
            if rng.random() < 0.5:
                x = rng.choice([0, 1])
            ux = u[x] if x < 6 else 0
            s = asz(ux)
            free = s - ux
            pos = lambda: around(rng, [0, 1, ux // 2, ux, ux, ux + 1, s, 64, 128, 192, rng.randrange(0, s + 70)])
            ln = lambda: rng.choice([0, 1, 1, 2, 3, 4, 8, max(0, free - 1), free, free + 1, 64, 128,
                                     rng.randrange(0, 12), rng.randrange(0, 200)])
            esz = tr[x] if (x < 6 and tr[x]) else 1
            if op in ("app", "appz"):
                n = ln()
                ops.append([op, str(x), by.take(n) if op == "app" else str(n)])
                if x < 4 and not tr[x]:
                    u[x] += n; tr[x] = 0
            elif op == "ins":
                p, n = pos(), ln()
                if esz > 1 and rng.random() < 0.8:
                    p, n = p // esz * esz, n // esz * esz
                ops.append([op, str(x), str(p), by.take(n)])
                if x < 4:
                    u[x] = max(u[x], p) + n; tr[x] = tr[x] or 0
            elif op in ("set", "setz"):
                t = rng.choice([tr[x] if x < 6 and tr[x] else 1, 1, 1, 4, 0]) if rng.random() < 0.8 else rng.choice([0, 1, 4])
                e = t or 1
                n = rng.choice([0, 1, 2, 3, ln() // e]) * e
                if rng.random() < 0.05:
                    n += 1
                off = rng.choice([0, 1, ux // e, ux // e + 1, -1, -(ux // e), -(ux // e) - 1, rng.randrange(-3, 80)])
                ops.append([op, str(x), str(t), str(off), by.take(n) if op == "set" else str(n)])
                if x < 4 and t and (tr[x] is None or tr[x] == t):
                    p = off * e if off >= 0 else ux + off * e
                    if p >= 0:
                        u[x] = max(ux, p + n); tr[x] = t
            elif op in ("slw", "slc"):
                p, n = pos(), rng.choice([0, 1, 2, 4, ln()])
                if esz > 1 and rng.random() < 0.8:
                    p, n = p // esz * esz, n // esz * esz
                ops.append([op, str(x), str(p), by.take(n) if op == "slw" else str(n)])
                if x < 4:
                    u[x] = max(ux, p + n); tr[x] = tr[x] or 0
            elif op == "rsv":
                t = rng.choice([0, 0, 1, 4, tr[x] if x < 6 and tr[x] is not None else 0])
                ops.append([op, str(x), str(around(rng, [0, ux, s, s + 1, 200, rng.randrange(0, 400)])), str(t)])
                if x < 4:
                    if tr[x] != t:
                        u[x] = 0
                    tr[x] = t
            elif op == "cln":
                y = rng.randrange(0, 4) if rng.random() < 0.97 else rng.randrange(0, 7)
                ops.append([op, str(x), str(y)])
                if x < 4 and y < 4 and (tr[x] is None or tr[y] is None or tr[x] == tr[y]):
                    u[x], tr[x] = u[y], tr[y]
            elif op in ("clr", "red", "str"):
                ops.append([op, str(x)])
                if op == "clr" and x < 4:
                    u[x], tr[x] = 0, None
            elif op == "bins":
                p, n = pos(), rng.choice([0, 1, 2, free, free + 1, ln()])
                ops.append([op, str(x), str(p), by.take(n)])
                if x < 4 and max(ux, p) + n <= s:
                    u[x] = max(ux, p) + n
            elif op == "bcut":
                p = around(rng, [0, 1, ux // 2, ux, ux + 1])
                n = rng.choice([0, 0, 1, 2, max(0, ux - p), max(0, ux - p + 1), ux, ux + 1])
                ops.append([op, str(x), str(p), str(n)])
                if x < 4 and n <= ux and (p <= ux - n if n else p <= ux):
                    u[x] = ux - n if n else p
            elif op in ("bset", "bsetz"):
                t = (tr[x] or 0) if x < 6 and rng.random() < 0.85 else rng.choice([0, 1, 4])
                p, n = pos(), rng.choice([0, 1, 2, 4, ln()])
                if rng.random() < 0.7:
                    p = around(rng, [ux, ux + 1, ux + 3, max(0, s - 1), s])
                ops.append([op, str(x), str(t), str(p), by.take(n) if op == "bset" else str(n)])
                if x < 4 and p + n <= s:
                    u[x] = max(ux, p + n)
            elif op == "prt":
                n = rng.choice([0, 1, 2, 5, max(0, free - 1), free, free + 1, 63, 64, 65, 127, 128, 129, rng.randrange(0, 150)])
                ops.append([op, str(x), by.take(n, False)])
                if x < 4 and tr[x] in (None, 1):
                    u[x] += n; tr[x] = 1
            elif op == "new":
                ops.append([op, str(x), str(rng.choice([0, 1, 64, 65, 192, 193, rng.randrange(0, 300)])),
                            str(rng.choice([0, 0, 1, 2, 3]))])
                if x < 4:
                    u[x], tr[x] = 0, 0
            elif op == "flg":
                ops.append([op, str(x), str(rng.choice([0, 1, 1, 2, 2, 3]))])
            elif op == "mks":
                sidx = rng.choice([4, 4, 5]) if rng.random() < 0.97 else rng.randrange(0, 7)
                y = rng.randrange(0, 4) if rng.random() < 0.97 else rng.randrange(0, 7)
                uy = u[y] if y < 6 else 0
                off = around(rng, [0, 0, 1, uy // 2, uy, uy + 1])
                n = around(rng, [0, max(0, uy - off), max(0, uy - off), max(0, uy - off) + 1, 2])
                ops.append([op, str(sidx), str(y), str(off), str(n)])
                if sidx in (4, 5) and y < 4:
                    u[sidx] = max(0, min(n, uy - off)); tr[sidx] = tr[y]
                    if rng.random() < 0.4:
                        # hand the buffer over to the slice alone (fast path of slice_write)
                        ops.append(["clr", str(y)])
                        u[y], tr[y] = 0, None
            else:
                sidx = rng.choice([4, 4, 5]) if rng.random() < 0.97 else rng.randrange(0, 7)
                us = u[sidx] if sidx < 6 else 0
                fr = asz(us) - us
                es = rng.choice([1, 1, 1, 2, 3, 4, 8, 0, 0, max(1, fr), fr + 1, 64])
                nb = rng.choice([0, 1, 1, 2, 3, 5, (fr // es if es else fr), (fr // es + 1 if es else fr + 1), rng.randrange(0, 40)])
                if op == "wr" and (es or rng.random() < 0.5):
                    ops.append(["wr", str(sidx), str(nb), str(es), by.take(nb * es)])
                else:
                    ops.append(["wrz", str(sidx), str(nb), str(es)])
                if sidx in (4, 5) and es and not tr[sidx]:
                    u[sidx] = us + nb * es; tr[sidx] = 0
        return " ".join(t for o in ops for t in o)

    def generate(self, rng, tier):
        cases = self.sweep(rng)
        n = self.quick_n if tier == "quick" else self.thorough_n
        for i in range(n):
            cases.append(self.gen_history(rng, rng.choice([1, 2, 3, 4, 6, 8, 10, 12, 16, 20, 25])))
        cases += self.cxx_sweep(rng)
        for i in range(n // 2):
            cases.append(self.gen_cxx_history(rng, rng.choice([1, 2, 3, 4, 6, 8, 10, 12, 16, 20, 25])))
        cases += self.enc_cases(rng, n // 6)
        cases += self.tpl_sweep(rng)
        for i in range(n // 2):
            cases.append(self.gen_tpl_history(rng, rng.choice([2, 3, 4, 6, 8, 10, 12, 16, 20, 25, 32, 40])))
        return cases


PROP = C04()
