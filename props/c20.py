"""C20 — layout object properties round-trip and do not interfere
(mptplot/layout/*_property.c, color_*.c, lattr_set.c, string_set.c, mptcore/object/{object_set_string,
object_set_value,object_set_property,property_match}.c, mpt++/layout.cpp, mpt++/graph.cpp; with them mpt++/item_group.cpp and
the parts of object.cpp / collection.cpp / cycle.cpp that layout files, copies by properties and bound worlds go through)."""
import hashlib, os, re, subprocess
import vcheck
from vcheck import DiffProperty


def hx(b):
    if isinstance(b, str):
        b = b.encode("latin-1")
    return "".join("%02x" % c for c in b) if b else "-"


KINDS = ["axis", "line", "text", "graph", "world"]
# listed property -> (settable names, field type)
PROPS = {
    "axis": [("title", ["title"], "str"), ("begin", ["begin"], "f64"), ("end", ["end"], "f64"), ("tlen", ["tlen"], "f32"),
             ("exponent", ["exp", "exponent"], "i16"), ("intervals", ["int", "intv", "intervals"], "intv"),
             ("subtick", ["sub", "subtick"], "u8"), ("decimals", ["dec", "decimals"], "u8"),
             ("lpos", ["lpos", "labelpos", "label position"], "chrkey"), ("tpos", ["tpos", "titlepos", "title position"], "chrkey")],
    "line": [("color", ["color"], "col"), ("x1", ["x1"], "f32"), ("x2", ["x2"], "f32"), ("y1", ["y1"], "f32"), ("y2", ["y2"], "f32"),
             ("width", ["width"], "attr10"), ("style", ["style"], "attr5"), ("symbol", ["symbol"], "attr8"), ("size", ["size"], "attr20")],
    "text": [("color", ["color"], "col"), ("pos", ["pos"], "pt1"), ("size", ["size"], "u8"), ("align", ["align"], "chr"),
             ("angle", ["angle"], "f64"), ("value", ["value"], "str"), ("font", ["font"], "str"), ("x", ["x"], "f32"), ("y", ["y"], "f32")],
    "graph": [("axes", ["axes"], "str"), ("worlds", ["worlds"], "str"), ("foreground", ["fg", "foreground"], "col"),
              ("background", ["bg", "background"], "col"), ("pos", ["pos", "position"], "pt1"), ("scale", ["scale"], "ptmax"),
              ("grid", ["type", "grid", "gridtype"], "chr"), ("align", ["align", "alignment"], "align"),
              ("clip", ["clip", "clipping"], "clip"), ("lpos", ["lpos"], "chr")],
    "world": [("color", ["color", "colour"], "col"), ("cycles", ["cyc", "cycles"], "u32"), ("width", ["width"], "attr10"),
              ("style", ["style"], "attr5"), ("symbol", ["sym", "symbol"], "attr8"), ("size", ["size"], "attr20"), ("alias", ["alias"], "str")],
}
LISTED = {k: [p[0] for p in v if not (k == "text" and p[0] in ("x", "y"))] for k, v in PROPS.items()}
FLOATY = ("f64", "f32", "pt1", "ptmax")

INT_TEXTS = ["0", "1", "7", "9", "10", "11", "127", "128", "254", "255", "256", "300", "32767", "32768", "-32768", "-32769", "65535",
             "65536", "4294967295", "4294967296", "2147483647", "2147483648", "-2147483649", "18446744073709551615", "18446744073709551616",
             "-1", "-0", "+5", " 7", "7 ", "\t 12", "0x10", "0X1f", "0x", "010", "08", "12abc", "abc", "", " ", "  \t", "1e3", "2.5", "-", "+", "--1",
             "5", "6", "8", "20", "21", "99999999999999999999999", "\x80", "1\xff"]
FLT_TEXTS = ["0", "-0", "1", "1.5", "-2.25", ".5", "5.", "1e10", "1e38", "3.4028235e38", "3.4028236e38", "1e39", "-1e39", "1e308", "1e309",
             "1e-46", "1e-320", "inf", "-inf", "nan", "-nan", "0x1p-3", "0x1.8p1", "abc", "", " ", "1.5x", "16777217", "0.1", "0.3", " 2", "2 ",
             "1e", "e5", ".", "-", "9007199254740993", "0.5", "0.25", "1.0", "1.0000001", "0.99999994",
             # the negative side of both range ends (finite below -FLT_MAX: refused by a float field, fine for a double one)
             "-1e38", "-3.4028235e38", "-3.4028236e38", "-3.5e38", "-1e300", "-1e308", "-1.7976931348623157e308", "-1e309", "-1e-46", "-1e-320"]
PT_TEXTS = ["0.25", "0.25 0.75", "0.25,0.75", "1 1", "1.5 0", "0 1.5", "0 -0.1", "-0", "-0 -0", "nan", "nan nan", "0.5x", "0.5,", "1e39", "1 1e39",
            "0.25 abc", "abc", "", "0.25  0.5", "0.25 ", "0.25;0.5", "0.25/0.5:9", "1 2 3", "3.4028235e38 1", "3.4028236e38", "inf", "1e-46 0",
            "0.5\t0.25", "0x1p-1 0x1p-2", "1.0000001", "1 1.0000001", "2", "100 200", " ", "  \t", "\t0.5", "0.5 ", " 0.5 0.25", "0", "1", "0.25  ", "0.25 \t", "0.25   0.5 ", "0.25 0.5  ", "0.5\t\t", "1 \t 1", "0.25 ,0.5", "  0.25  "]
STR_TEXTS = ["", "a", "Hello", "two words", " lead", "trail ", "x" * 255, "y" * 256, "\xff\x80\x7f\x01", "#ff0000", "12", "log", "z" * 1000]
COL_TEXTS = ["black", "red", "green", "blue", "cyan", "magenta", "yellow", "white", "RED", "Blue", "red ", "red\tx", "redx", "re", " red", "blue green",
             "#f00", "#ff0000", "#00ff00", "#0000ff", "#ff000080", "#12345678", "#123456ff", "#12345600", "#ff", "#ffff", "#", "#ff00000", "#gg0000",
             "#ff00gg", "# f0000", "#+f-01 ", "#0x1122", "#ff0000801", "#ff00008012", "#-10000", "#1g2h3i", "#    ", "#ABCDEF", "#abcdef01", "", " ", "grey",
             "#\xff\xff", "magenta ", "whitewash", "#00"]
CHR_TEXTS = ["a", "Z", " b", "", " ", "\x01", "\x80", "\xff", "left", "5", "~", "!", "\x7f", "  \x02x", "\t"]
INTV_TEXTS = ["log", "LOG", "Logarithmic", "lo", "logx", "xlog", " log"]
ALIGN_TEXTS = ["b", "e", "z", "bez", "BEZB", "bbbbb", "q", "bq", "zzz", "eeee", "ebz "]
CLIP_TEXTS = ["x", "y", "z", "xy", "yx", "xyz", "zyx", "q", "xq", "xx", "X", "x y"]

F32_BITS = [0, 0x80000000, 1, 0x3f800000, 0x3f800001, 0x3f7fffff, 0xbf800000, 0x7f7fffff, 0x7f800000, 0xff800000, 0x7fc00000, 0x3e800000, 0x3f000000,
            0x00800000, 0x007fffff, 0x40490fdb]
F64_BITS = [0, 0x8000000000000000, 1, 0x3ff0000000000000, 0x3ff0000000000001, 0x3fefffffffffffff, 0x47efffffe0000000, 0x47effffff0000000, 0x47f0000000000000,
            0x7fefffffffffffff, 0x7ff0000000000000, 0xfff0000000000000, 0x7ff8000000000000, 0x3fd0000000000000, 0x3fe0000000000000, 0x36a0000000000000,
            0x3690000000000000, 0x400921fb54442d18, 0x3ff0000010000000, 0xc7f0000000000000,
            # -FLT_MAX, the first doubles rounding to -inf as float, -DBL_MAX, negative values that round to -0 / the smallest float
            0xc7efffffe0000000, 0xc7effffff0000000, 0xc7efffffefffffff, 0xffefffffffffffff, 0xb690000000000000, 0xb6a0000000000000]
INT_VALS = {"b": [-128, -1, 0, 1, 33, 65, 127], "y": [0, 1, 5, 6, 8, 9, 10, 11, 20, 21, 65, 127, 128, 200, 255], "n": [-32768, -1, 0, 255, 256, 32767],
            "q": [0, 255, 256, 32767, 32768, 65535], "i": [-2147483648, -32769, -1, 0, 7, 255, 256, 32768, 65536, 16777217, 2147483647],
            "u": [0, 255, 256, 65536, 2147483648, 4294967295], "x": [-9223372036854775808, -2147483649, -1, 0, 255, 256, 4294967296, 9223372036854775807],
            "t": [0, 255, 256, 4294967295, 4294967296, 9223372036854775808, 18446744073709551615]}


# ---- switches for proposed patches (docs/C20_<topic>.diff): set to True after the patch is committed in /repo; the model is
# AS PATCHED, the generator cases that tell the difference are left out until then ----
# graph "grid" takes the number it shows ('y') when the source is no character: values 0..255 outside the visible
# characters, and every copy of a graph by its properties (object::set: oset on graphs, `graph x : y` in a layout file)
PATCHED_GRID_BY_VALUE = True
# the whole-object query (property "") of axis / world / graph compares the struct members, not the tail padding
PATCHED_TOTAL_PADDING = True
# layout::graph::cycle / set_cycle with a position behind the bound worlds
PATCHED_CYCLE_RANGE = True
# docs/C07_convert_string_space.diff (mptcore/convert/convert_string.c: white space only = nothing converted): a blank text
# then resets a numeric / character / attribute property like the empty text does instead of leaving it as it is.
# The model is as patched; while False no blank (white-space-only) text is generated for such properties and the
# corpus cases with one are skipped.
PATCHED_STRING_SPACE = True


def blank_tok(tok):
    """T token (or layout entry holding one) whose text is not empty and white space only"""
    m = re.search(r"(?:^|:)T([0-9a-f]+)(?:~|$)", tok)
    if not m:
        return False
    try:
        t = bytes.fromhex(m.group(1))
    except ValueError:
        return False
    return len(t) > 0 and all(c in b" \t\n\v\f\r" for c in t)


def name_variants(rng, n):
    vs = [n, n.upper(), n.capitalize()]
    if len(n) > 1:
        vs.append(n[0] + n[1:].upper())
    return vs


class C20(DiffProperty):
    pid = "C20"
    claimed = True
    coq_dir = "C20"
    extract_vo = "C20/Extract.vo"
    mlname = "c20_model"
    driver = "c20_driver.ml"
    harness_src = "c20_layout.c"
    libs = ["mptplot", "mptcore"]
    cxx_src = "c20_cxx.cpp"
    cxx_libs = ["mpt++", "mptplot", "mptcore", "mptio"]
    # the C++ harness compiles mpt++/{array,item_group,graph,layout}.cpp into its own translation unit without UBSan's vptr check
    # (C-made buffers of the item arrays), every other check stays on
    cxx_flags = ["-fno-sanitize=vptr"]
    harness_env = dict(vcheck.ASAN_LEAK_ENV, ASAN_OPTIONS=vcheck.ASAN_LEAK_ENV["ASAN_OPTIONS"] + ":symbolize=0")

    # ------------------------------------------------------------------ probe: regenerate Gen_Layout.v
    def probe(self):
        dst = os.path.join(vcheck.COQ, "C20", "Gen_Layout.v")
        try:
            exe = vcheck.build_harness("c20_probe.c", ["mptplot", "mptcore"])
            rc, o = vcheck.sh([exe], env=vcheck.ASAN_ENV, timeout=60)
        except Exception as ex:   # the tree does not build: the harness build reports it
            vcheck.log("[C20] probe failed: %s" % str(ex)[-400:])
            return
        if rc != 0 or not o.startswith("(* GENERATED"):
            vcheck.log("[C20] probe run failed (exit %s), Gen_Layout.v kept: %s" % (rc, o[-300:]))
            return
        old = open(dst).read() if os.path.exists(dst) else None
        if old != o:
            with vcheck.locked("coq"):
                with open(dst, "w") as fh:
                    fh.write(o)
            vcheck.log("[C20] Gen_Layout.v regenerated from %s (content changed)" % vcheck.REPO)

    # ------------------------------------------------------------------ oracle (libc strtof/strtod, FPU casts)
    def oracle_exe(self):
        src = os.path.join(vcheck.VERIF, "harness", "c20_oracle.c")
        h = hashlib.sha1(open(src, "rb").read()).hexdigest()[:10]
        d = os.path.join(vcheck.OUT, "build")
        os.makedirs(d, exist_ok=True)
        exe = os.path.join(d, "c20_oracle_" + h)
        if not os.path.exists(exe):
            tmp = exe + ".tmp%d" % os.getpid()
            rc, o = vcheck.sh(["gcc", "-O1", "-o", tmp, src, "-lm"])
            if rc:
                raise vcheck.BuildError("oracle build failed: " + o)
            os.rename(tmp, exe)
        return exe

    def oracle(self, queries):
        """queries: list of 'T <hex>' / 'I <dec>' / 'F <hex>' / 'D <hex>' -> answers"""
        if not queries:
            return []
        p = subprocess.run([self.oracle_exe()], input="\n".join(queries) + "\n", stdout=subprocess.PIPE, text=True, check=True)
        out = p.stdout.split("\n")[:-1]
        assert len(out) == len(queries), (len(out), len(queries))
        return out

    # ------------------------------------------------------------------ run both harnesses
    def ops_flags(self):
        h = hashlib.sha1(open(os.path.join(vcheck.VERIF, "harness", "c20_ops.h"), "rb").read()).hexdigest()[:8]
        return ["-DC20_OPS_HASH=0x" + h]

    def evaluate(self, cases, workdir, tagsuffix=""):
        hc = vcheck.build_harness(self.harness_src, self.libs, extra=self.ops_flags())
        need_x = any(c.startswith("x ") for c in cases)
        hxx = vcheck.build_harness(self.cxx_src, self.cxx_libs, extra=self.ops_flags() + self.cxx_flags) if need_x else None
        mx = vcheck.build_model(self.mlname, self.driver, self.extract_vo)
        ided = ["c%d %s" % (i, c) for i, c in enumerate(cases)]
        ci = [l for l, c in zip(ided, cases) if not c.startswith("x ")]
        xi = [l for l, c in zip(ided, cases) if c.startswith("x ")]
        I, errs = {}, []
        if ci:
            r, e = vcheck.run_cases(hc, ci, workdir, "implc" + tagsuffix, env=self.harness_env, args=self.harness_args)
            I.update(r.get("I", {}))
            errs += e
        if xi:
            r, e = vcheck.run_cases(hxx, xi, workdir, "implx" + tagsuffix, env=self.harness_env, args=self.harness_args)
            I.update(r.get("I", {}))
            errs += e
        M, e2 = vcheck.run_cases(mx, ided, workdir, "model" + tagsuffix)
        res = []
        for i, c in enumerate(cases):
            k = "c%d" % i
            res.append(self.compare(c, I.get(k), M.get("M", {}).get(k), M.get("S", {}).get(k)))
        return res, errs + e2

    def layout_patched(self):
        """class layout: properties readable as strings, reset, font released; text::set_value / set_font report success when
        they clear.  Constant since the four layout fixes are committed in /repo: a returning defect is reported."""
        return True

    def warm(self):
        vcheck.build_harness("c20_probe.c", ["mptplot", "mptcore"])
        vcheck.build_harness(self.harness_src, self.libs, extra=self.ops_flags())
        vcheck.build_harness(self.cxx_src, self.cxx_libs, extra=self.ops_flags() + self.cxx_flags)
        vcheck.build_model(self.mlname, self.driver, self.extract_vo)
        self.oracle_exe()

    # ------------------------------------------------------------------ views
    STAR_XY = re.compile(r",(x|y)=(f:[0-9a-f]{8})\*")

    def project(self, tok):
        """property level view: error kinds are not constrained; the return value of the by-name x / y lookup of a
        text is not a property value"""
        head, sep, rest = tok.partition("|")
        if head[:1] in ("L", "W"):
            head = self.STAR_XY.sub(r",\1=\2", head)      # views of items: the same rule for the x / y of a text
        if re.fullmatch(r"E\d*", head):
            head = "R"
        elif head == "qE":
            head = "qR"
        elif head in ("B0", "B1"):
            head = "B"          # bool of the direct C++ setters (text::set_value reports false when it clears the text)
        elif head.startswith("G:x=") or head.startswith("G:y="):
            head = head.rstrip("*")
        if rest:
            rest = self.STAR_XY.sub(r",\1=\2", rest)
        return head + sep + rest

    ARITY = {"set": 3, "get": 2, "sp": 4, "clone": 1, "cpy": 1, "cset": 3, "conv": 2, "lreset": 1, "gadd": 3, "gitem": 5, "gbind": 1, "gtr": 1,
             "oset": 2, "tot": 1, "pinfo": 1, "gview": 1, "gcyc": 2, "gscyc": 2, "gbindl": 1, "gbindo": 1, "lagain": 1, "lopen": 2}

    def split(self, case):
        t = case.split()
        if t[1] in ("pm", "col", "lat"):
            return t, []
        hdr, rest = t[:2], t[2:]
        ops = []
        i = 0
        while i < len(rest):
            if rest[i] == "lload" and i + 2 < len(rest) + 1:
                n = 2 + int(rest[i + 2])      # target, count, entries
            else:
                n = self.ARITY.get(rest[i], 0)
            ops.append(rest[i:i + n + 1])
            i += n + 1
        return hdr, ops

    def shrink_candidates(self, case):
        hdr, ops = self.split(case)
        if not ops:
            if hdr[1] == "pm" and len(hdr) > 5:
                for k in range(4, len(hdr)):
                    yield " ".join(hdr[:k] + hdr[k + 1:])
            return
        for k in range(len(ops)):
            yield self.join(hdr, ops[:k] + ops[k + 1:])
        for k in range(1, len(ops)):
            yield self.join(hdr, ops[:k])
        if len(ops) > 4:
            yield self.join(hdr, ops[len(ops) // 2:])
        # layout files: drop one section (with what is inside) or one property entry
        for k, o in enumerate(ops):
            if o[0] != "lload":
                continue
            ents = o[3:]
            spans = []
            i = 0
            while i < len(ents):
                if ents[i].startswith("i:"):
                    depth, j = 1, i + 1
                    while j < len(ents) and depth:
                        depth += 1 if ents[j].startswith("i:") else (-1 if ents[j] == "e" else 0)
                        j += 1
                    spans.append((i, j))
                    inner = i + 1
                    while inner < j - 1:       # entries inside the section, one at a time (nested sections as a whole)
                        if ents[inner].startswith("i:"):
                            d2, j2 = 1, inner + 1
                            while j2 < j and d2:
                                d2 += 1 if ents[j2].startswith("i:") else (-1 if ents[j2] == "e" else 0)
                                j2 += 1
                            spans.append((inner, j2))
                            inner = j2
                        else:
                            spans.append((inner, inner + 1))
                            inner += 1
                    i = j
                else:
                    spans.append((i, i + 1))
                    i += 1
            for (a, b) in spans:
                rest = ents[:a] + ents[b:]
                yield self.join(hdr, ops[:k] + [o[:2] + [str(len(rest))] + rest] + ops[k + 1:])
        if hdr[0] == "x" and hdr[1] != "layout":
            yield self.join(["c", hdr[1]], ops)

    def classify(self, case):
        hdr, ops = self.split(case)
        cl = {"impl:" + hdr[0], "kind:" + hdr[1]}
        for o in ops:
            cl.add("op:" + o[0])
            if o[0] in ("set", "sp"):
                src = o[-1]
                cl.add("src:" + (src[:2] if src[0] == "V" else src[0]))
                nm = o[2] if o[0] == "set" else o[3]
                if nm in ("N", "E"):
                    cl.add("assign:" + nm + ":" + src[0])
        if len(ops) > 3:
            cl.add("history")
        return cl

    # ------------------------------------------------------------------ generator
    def text_tok(self, s, floaty):
        """T token; float oracle attached for float / point targets"""
        h = hx(s)
        if not floaty or s == "":
            return "T" + h, None
        return "T" + h, "T " + h

    def gen_sources(self, rng, ftype, tier, grid=False):
        """list of source tokens (oracle placeholders resolved later): (token, oracle query or None)"""
        out = self.gen_sources0(rng, ftype, tier)
        if grid and not PATCHED_GRID_BY_VALUE:
            # numbers that are no visible character: refused by the tree as it is, accepted as patched
            def changed(tok):
                m = re.match(r"V[bynqiuxt]:(-?\d+)$", tok)
                return bool(m) and 0 <= int(m.group(1)) <= 255 and not (33 <= int(m.group(1)) <= 126)
            out = [x for x in out if not changed(x[0])]
        if not PATCHED_STRING_SPACE and ftype not in ("str", "col"):
            out = [x for x in out if not blank_tok(x[0])]
        return out

    def corpus(self):
        """regression cases; a line `#~<topic> <case>` is a case that needs the patch of that topic in the tree"""
        gate = {"grid": PATCHED_GRID_BY_VALUE, "total": PATCHED_TOTAL_PADDING, "cycle": PATCHED_CYCLE_RANGE, "space": PATCHED_STRING_SPACE}
        d = os.path.join(vcheck.VERIF, "corpus", self.pid)
        cs = []
        for f in sorted(os.listdir(d)) if os.path.isdir(d) else []:
            for line in open(os.path.join(d, f)):
                line = line.strip()
                m = re.match(r"#~(\w+) +(.*)$", line)
                if m:
                    if gate.get(m.group(1)):
                        cs.append(m.group(2))
                elif line and not line.startswith("#"):
                    cs.append(line)
        if not PATCHED_STRING_SPACE:
            cs = [c for c in cs if not any(blank_tok(t) for t in c.split())]
        return cs

    def gen_sources0(self, rng, ftype, tier):
        out = []
        floaty = ftype in FLOATY

        def T(s):
            out.append(self.text_tok(s, floaty))

        def V(tok, q=None):
            out.append((tok, q))
        out.append(("R", None))
        out.append(("TN", None))
        if ftype in ("u8", "i16", "u32", "intv", "align", "clip") or ftype.startswith("attr"):
            for s in INT_TEXTS:
                T(s)
            for t, vs in INT_VALS.items():
                for v in vs:
                    V("V%s:%d" % (t, v), "I %d" % v)
            V("Vd:4014000000000000", "D 4014000000000000")
            V("Vs:" + hx("12"))
            V("Vc:53")
            if ftype == "intv":
                for s in INTV_TEXTS:
                    T(s)
                V("Vs:" + hx("log"))
            if ftype == "align":
                for s in ALIGN_TEXTS:
                    T(s)
                V("Vs:" + hx("bez"))
            if ftype == "clip":
                for s in CLIP_TEXTS:
                    T(s)
                V("Vs:" + hx("xz"))
                V("Vs:N")
        elif ftype in ("f64", "f32"):
            for s in FLT_TEXTS + ["12", "-7", "0x10"]:
                T(s)
            for b in F64_BITS:
                V("Vd:%016x" % b, "D %016x" % b)
            for b in F32_BITS:
                V("Vf:%08x" % b, "F %08x" % b)
            for t in "iyxt":
                for v in INT_VALS[t]:
                    V("V%s:%d" % (t, v), "I %d" % v)
            V("Vs:" + hx("1.5"))
            V("VC:ff102030")
        elif ftype in ("pt1", "ptmax"):
            for s in PT_TEXTS:
                T(s)
            for (x, y) in [(0, 0), (0x3f800000, 0x3f800000), (0x3f800001, 0), (0, 0x3f800001), (0x80000000, 0), (0x80000001, 0), (0x7fc00000, 0),
                           (0x7f7fffff, 0x7f7fffff), (0x7f800000, 0), (0x3e800000, 0x3f400000), (0xbf800000, 0x3f000000)]:
                V("VP:%08x,%08x" % (x, y))
            V("Vf:3f000000", "F 3f000000")
            V("Vd:3fe0000000000000", "D 3fe0000000000000")
            V("Vi:1", "I 1")
            V("Vs:" + hx("0.5"))
        elif ftype == "str":
            for s in STR_TEXTS:
                T(s)
            for s in ["", "a", "Hello", "q" * 255, "r" * 256, "\xfe\x01"]:
                V("Vs:" + hx(s))
            V("Vs:N")
            for c in (65, 32, 0, -1, 127):
                V("Vc:%d" % c)
            V("Vi:65", "I 65")
            V("VC:ff102030")
        elif ftype == "col":
            for s in COL_TEXTS:
                T(s)
            for c in ("ff000000", "00000000", "80ff0080", "ffffffff", "01020304"):
                V("VC:" + c)
            for s in ("red", "#010203", "#01020380", "nocolor", ""):
                V("Vs:" + hx(s))
            V("Vs:N")
            V("Vi:255", "I 255")
            V("VL:01020304")
        elif ftype in ("chr", "chrkey"):
            for s in CHR_TEXTS:
                T(s)
            for c in (65, 10, 32, 33, 126, 127, -1, 0):
                V("Vc:%d" % c)
            for v in (65, 200, 0, 33, 126, 127, 128):
                V("Vy:%d" % v, "I %d" % v)
            V("Vi:65", "I 65")
            V("Vi:-5", "I -5")
            V("Vs:" + hx("a"))
            V("Vd:4050400000000000", "D 4050400000000000")
        return out

    def resolve(self, items):
        """items: list of (case template with {i} placeholders, [oracle queries]) -> case strings"""
        qs = []
        for _, q in items:
            qs += q
        uq = sorted(set(qs))
        ans = dict(zip(uq, self.oracle(uq)))
        out = []
        for tpl, q in items:
            out.append(tpl.format(*[ans[x] for x in q]) if q else tpl)
        return out

    def src_item(self, tok, q):
        """token text with a format placeholder for the oracle answer"""
        if q is None:
            return tok, []
        return tok + "~{}", [q]

    def prefill(self, kind):
        """operations that move every property of object a away from its default (so that a stray write shows)"""
        pre = {
            "axis": [("title", "Tt0"), ("begin", "T-3.5"), ("end", "T7.25"), ("tlen", "T0.125"), ("exp", "T-3"), ("intv", "T4"), ("sub", "T3"),
                     ("dec", "T2"), ("lpos", "Tl"), ("tpos", "Tt")],
            "line": [("color", "T#10203040"), ("x1", "T0.5"), ("x2", "T1.5"), ("y1", "T2.5"), ("y2", "T3.5"), ("width", "T2"), ("style", "T3"),
                     ("symbol", "T4"), ("size", "T5")],
            "text": [("color", "T#10203040"), ("pos", "T0.25 0.75"), ("size", "T12"), ("align", "T7"), ("angle", "T45"), ("value", "Tvv"), ("font", "Tff")],
            "graph": [("axes", "Tax"), ("worlds", "Twl"), ("fg", "T#10203040"), ("bg", "T#50607080"), ("pos", "T0.25 0.5"), ("scale", "T2 3"),
                      ("type", "Tg"), ("align", "T9"), ("clip", "T5"), ("lpos", "Tp")],
            "world": [("color", "T#10203040"), ("cyc", "T9"), ("width", "T2"), ("style", "T3"), ("sym", "T4"), ("size", "T5"), ("alias", "Tal")],
        }[kind]
        ftypes = {n: ft for (_, names, ft) in PROPS[kind] for n in names}
        items = []
        for n, v in pre:
            tok, q = self.text_tok(v[1:], ftypes[n] in FLOATY)
            t, qq = self.src_item(tok, q)
            items.append((["set", "a", hx(n), t], qq))
        return items


    # ------------------------------------------------------------------ layout files
    UNSAFE = set("{};'\"!=\\")

    def file_safe(self, tok):
        """a T token whose text a layout file can hold as it is: visible ASCII and single inner blanks, not empty"""
        h = tok[1:]
        if h in ("N", "-"):
            return False
        try:
            t = bytes.fromhex(h).decode("latin-1")
        except ValueError:
            return False
        if not t or t != t.strip() or len(t) > 120:
            return False
        return all((33 <= ord(c) <= 126 and c not in self.UNSAFE) or c == " " for c in t) and "  " not in t

    def layout_case(self, rng, val_items):
        """one case on class layout: a file of sections and properties, loaded; reloads, resets"""
        TYPES = ["line", "text", "axis", "xaxis", "yaxis", "zaxis", "world", "graph"]
        kind_of = {"line": "line", "text": "text", "axis": "axis", "xaxis": "axis", "yaxis": "axis", "zaxis": "axis", "world": "world", "graph": "graph"}
        POOL = ["a1", "a2", "w1", "w2", "l1", "t1", "t2", "g1", "g2", "sp aced"]

        def props_of(kind, n):
            out = []
            for (nm, t, qq) in val_items(kind, n, safe=True):
                out.append(("p:%s:%s" % (hx(nm), t), qq))
            if rng.random() < 0.15:
                out.append(("p:%s:T-" % hx(rng.choice(PROPS[kind])[1][0]), []))
            if rng.random() < 0.1:
                out.append(("p:%s:T%s" % (hx("nosuch"), hx("1")), []))
            return out

        def section(level, made):
            ty = rng.choice(TYPES + (["bogus"] if rng.random() < 0.1 else []))
            name = rng.choice(POOL)
            key = ty + " " + name
            same = [n for (n, t) in made if kind_of.get(t) == kind_of.get(ty)]
            inherit_ok = PATCHED_GRID_BY_VALUE or kind_of.get(ty) != "graph"
            if rng.random() < 0.35 and inherit_ok:
                ps = [rng.choice(same)] if same and rng.random() < 0.85 else [rng.choice(POOL)]
                if same and rng.random() < 0.3:
                    ps.append(rng.choice(same))
                key += rng.choice([" : ", ":", " :", ": "]) + " ".join(ps)
            ents = [("i:" + hx(key), [])]
            kind = kind_of.get(ty)
            if kind:
                ents += props_of(kind, rng.choice([0, 1, 2, 4]))
                if kind == "graph":
                    names = [n for (n, t) in made if " " not in n]
                    if rng.random() < 0.5:
                        ws = [rng.choice(names + ["a1", "none", "a1.", "g1.a1"]) for _ in range(rng.choice([1, 2]))]
                        ents.append(("p:%s:T%s" % (hx(rng.choice(["axes", "worlds"])), hx(" ".join(ws))), []))
                    if level == 0:
                        sub = []
                        for _ in range(rng.choice([0, 0, 1, 2, 3])):
                            e, nm, t = section(1, sub + made)
                            ents += e
                            sub.append((nm, t))
                        if sub and rng.random() < 0.5:
                            ws = [rng.choice([n for (n, t) in sub]) for _ in range(rng.choice([1, 2]))]
                            ents.append(("p:%s:T%s" % (hx(rng.choice(["axes", "worlds"])), hx(" ".join(w for w in ws if " " not in w) or "a1")), []))
            ents.append(("e", []))
            return ents, name, ty

        def a_file():
            ents = []
            made = []
            for _ in range(rng.choice([0, 1, 2, 4, 6])):
                if rng.random() < 0.15:
                    nm = rng.choice(["name", "alias", "font", "nosuch", "Name"])
                    ents.append(("p:%s:T%s" % (hx(nm), rng.choice([hx("lay1"), hx("f f"), "-"])), []))
                    continue
                e, nm, t = section(0, made)
                ents += e
                made.append((nm, t))
            return ents

        ops = []
        if rng.random() < 0.1:
            ops.append((["lopen", "a", rng.choice(["N", "X"])], []))
        if rng.random() < 0.05:
            ops.append((["lagain", "a"], []))
        for _ in range(rng.choice([1, 1, 1, 2])):
            tg = rng.choice(["a", "a", "b"])
            if rng.random() < 0.04:
                ops.append((["lload", tg, "1", "r:" + hx("}")], []))
                continue
            ents = a_file()
            toks = [e for e, _ in ents]
            qs = [q for _, qq in ents for q in qq]
            ops.append((["lload", tg, str(len(toks))] + toks, qs))
            r = rng.random()
            if r < 0.15:
                ops.append((["lagain", tg], []))
            elif r < 0.3:
                ops += [(["lreset", tg], []), (["lagain", tg], [])]
            elif r < 0.35:
                ops.append((["lreset", tg], []))
        return ops

    def generate(self, rng, tier):
        quick = tier == "quick"
        items = []    # (template, queries)

        def add(impl, kind, oplist):
            toks, qs = [impl, kind], []
            for o, q in oplist:
                toks += o
                qs += q
            items.append((" ".join(toks), qs))

        # 1. every (kind, settable name incl. aliases, case variants) x every value of the field's value set,
        #    on an object whose other properties are non-default, followed by a reset of the property
        for kind in KINDS:
            pre = self.prefill(kind)
            for listed, names, ftype in PROPS[kind]:
                srcs = self.gen_sources(rng, ftype, tier, grid=(kind == "graph" and listed == "grid"))
                variants = []
                for n in names:
                    variants += name_variants(rng, n)
                for k, (tok, q) in enumerate(srcs):
                    nm = variants[k % len(variants)] if k >= len(names) else names[k % len(names)]
                    t, qq = self.src_item(tok, q)
                    ops = [(["set", "a", hx(nm), t], qq), (["get", "a", hx(listed)], []), (["set", "a", hx(names[0]), "R"], [])]
                    usepre = (k % 3 == 0) or not quick
                    add("c", kind, (pre if usepre else []) + ops)
                    if k % (6 if quick else 2) == 1:
                        add("x", kind, (pre if k % 4 == 1 else []) + ops)
                    # EVERY value of the value set also reaches the setter of the field: a case / alias variant may be a name
                    # the object does not know (x1 / x2 / y1 / y2 of a line are case sensitive: `X1` is refused as unknown name
                    # whatever the value), so the value is given once more under the property's first, exact name, from a
                    # non-default previous value (a refusal has to keep it, an acceptance has to replace it)
                    if nm not in names:
                        first = [p for p in pre if p[0][2] in [hx(n) for n in names]]
                        add("c", kind, (first if k % 2 else []) + [(["set", "a", hx(names[0]), t], qq), (["get", "a", hx(listed)], [])])
                # name variants / unknown names with one plain value
                for nm in variants + [names[0] + "x", names[0][:-1], " " + names[0], names[0] + " "]:
                    tok, q = self.gen_sources(rng, ftype, tier, grid=(kind == "graph" and listed == "grid"))[2]
                    t, qq = self.src_item(tok, q)
                    add("c", kind, [(["set", "a", hx(nm), t], qq), (["set", "a", hx(nm), "R"], [])])
        # 1b. state-dependent pairs: two assignments to the same property (through any of its names) in a row, then read back:
        #     the second value must win whatever state the first one left (e.g. the logarithmic flag of an axis)
        for kind in KINDS:
            for listed, names, ftype in PROPS[kind]:
                srcs = self.gen_sources(rng, ftype, tier, grid=(kind == "graph" and listed == "grid"))
                special = [x for x in srcs if x[0] in ("R", "TN") or (ftype == "intv" and (x[0] == "Vs:" + hx("log") or x[0] in ["T" + hx(t) for t in INTV_TEXTS]))]
                special += rng.sample(srcs, min(3, len(srcs)))
                other = rng.sample(srcs, min(6 if quick else 16, len(srcs)))
                for (a1, a2) in [(x, y) for x in special for y in other] + [(y, x) for x in special for y in other]:
                    t1, q1 = self.src_item(*a1)
                    t2, q2 = self.src_item(*a2)
                    add("x" if rng.random() < 0.2 else "c", kind,
                        [(["set", "a", hx(rng.choice(names)), t1], q1), (["set", "a", hx(rng.choice(names)), t2], q2), (["get", "a", hx(listed)], [])])
        # 2. lookup by every prefix (unique or not), case variants, over-long names
        for kind in KINDS:
            pre = self.prefill(kind)
            names = [p[0] for p in PROPS[kind]]
            seen = set()
            cand = []
            for n in names + ["colour", "nothing", "t", "s", "co", "po"]:
                for k in range(1, len(n) + 1):
                    cand.append(n[:k])
                cand += [n + "x", n + "tail", n.upper(), n[:3] + "zzz", n[:2] + "zzz", " " + n]
            for c in cand:
                if c in seen:
                    continue
                seen.add(c)
                add("c", kind, (pre if len(seen) % 5 == 0 else []) + [(["get", "a", hx(c)], [])])
                if len(seen) % 7 == 0:
                    add("x", kind, [(["get", "a", hx(c)], [])])
        # 3. generic assignment and histories
        nh = 300 if quick else 40000
        for i in range(nh):
            kind = KINDS[i % 5]
            impl = "x" if i % 3 == 0 else "c"
            ops = []
            plist = PROPS[kind]
            for _ in range(rng.choice([2, 3, 5, 8, 12])):
                r = rng.random()
                tg = rng.choice(["a", "b", "b"])
                if r < 0.55:
                    listed, names, ftype = rng.choice(plist)
                    tok, q = rng.choice(self.gen_sources(rng, ftype, tier, grid=(kind == "graph" and listed == "grid")))
                    t, qq = self.src_item(tok, q)
                    ops.append((["set", tg, hx(rng.choice(names)), t], qq))
                elif r < 0.8:
                    ops.append((["set", rng.choice(["a", "b"]), rng.choice(["N", "E"]), "O"], []))
                elif r < 0.9:
                    ops.append((["set", tg, rng.choice(["N", "E"]), rng.choice(["R", "TN", "T-", "T" + hx("name"), "T" + hx("red"), "VC:80112233", "VL:02030405",
                                                                                 "Vs:" + hx("str"), "Vi:5~40a00000/4014000000000000", "T20", "T" + hx("#102030")])], []))
                else:
                    listed, names, ftype = rng.choice(plist)
                    ops.append((["get", tg, hx(rng.choice([listed, listed[:3], listed[:2], listed.upper()]))], []))
            add(impl, kind, ops)
        # whole-object sources, every kind x name mode x source
        for kind in KINDS:
            pre = self.prefill(kind)
            for nm in ("N", "E"):
                for src in ["R", "O", "TN", "T-", "T20", "T" + hx("name"), "T" + hx("red"), "T" + hx("#102030"), "T" + hx("5"), "VC:80112233", "VL:02030405",
                            "VL:ff00ff00", "Vs:" + hx("str"), "Vs:N", "Vs:-", "Vc:65", "Vi:5~40a00000/4014000000000000", "VP:3f000000,3f000000",
                            "Vd:4014000000000000~40a00000", "Vf:40a00000~4014000000000000"]:
                    for impl in ("c", "x"):
                        add(impl, kind, pre + [(["set", "b", hx(PROPS[kind][0][1][0]), "R"], []), (["set", "a", nm, src], []),
                                               (["set", "b", nm, "O"], []), (["set", "a", "E", "R"], [])])
        # 4. mpt_object_set_property
        for kind in KINDS:
            listed, names, ftype = PROPS[kind][2]
            vals = {"f64": "T2.5", "f32": "T2.5", "u8": "T7", "col": "T" + hx("blue"), "str": "Tabc", "attr10": "T4", "pt1": "T0.25", "u32": "T7", "i16": "T7"}
            tok, q = self.text_tok(vals.get(ftype, "T7")[1:], ftype in FLOATY)
            t, qq = self.src_item(tok, q)
            for fl in (0, 16, 32, 64, 128, 48, 112, 240, 176):
                for nm in (hx(names[0]), hx("unknown"), "N", "E"):
                    for (s, sq) in ((t, qq), ("R", []), ("TN", []), ("O", [])):
                        if s == "O" and nm not in ("N", "E"):
                            continue
                        add("c", kind, [(["sp", "a", str(fl), nm, s], sq)])
                        if fl in (48, 240):
                            add("x", kind, [(["sp", "a", str(fl), nm, s], sq)])
        # 4b. mpt++ objects only: constructors with arguments, convert() of every class for every request, clone / struct copy,
        #     direct setters, an object as source of a NAMED property, graph items / bind / transformation, class layout
        REQS = ["me", "cptr", "obj", "meta", "grp", "coll", "otherptr", "str", "bad", "fmt0", "color", "lattr", "line"]
        colour_name = {"text": "color", "world": "color", "graph": "fg", "line": "color", "axis": None}
        for kind in KINDS:
            pre = self.prefill(kind)
            ctor = {"axis": ["axis", "axis:0", "axis:1", "axis:2", "axis:3", "axis:7", "axis:36"], "world": ["world", "world:-5", "world:0", "world:9"]}.get(kind, [kind])
            for kt in ctor:
                add("x", kt, [(["conv", "a", q], []) for q in REQS])
                add("x", kt, [(["set", "a", hx(PROPS[kind][1][1][0]), "R"], []), (["clone", "a"], []), (["set", "a", "E", "R"], [])])
            first = PROPS[kind][0][1][0]
            # clone and struct copy keep the properties and own their strings: change the source afterwards
            add("x", kind, pre + [(["clone", "a"], []), (["cpy", "b"], []), (["set", "a", "E", "R"], []), (["clone", "b"], []),
                                  (["set", "b", hx(first), "R"], []), (["cpy", "a"], []), (["cpy", "a"], []), (["clone", "a"], [])])
            add("x", kind, pre + [(["conv", "a", q], []) for q in ("color", "lattr", "line")])
            # the other object as value of every named property
            for listed, names, ftype in PROPS[kind]:
                ops = list(pre)
                if colour_name[kind]:
                    ops = [(["set", "b", hx(colour_name[kind]), "T" + hx("#10203040")], [])] + ops
                ops += [(["set", "a", hx(names[-1]), "O"], []), (["set", "b", hx(names[0]), "O"], [])]
                add("x", kind, ops)
        for t in ["ab", "x" * 255, "y" * 256, " sp ", "\xff"]:
            add("x", "text", [(["cset", "a", "value", hx(t)], []), (["cset", "b", "font", hx(t)], []), (["clone", "a"], []), (["cset", "a", "font", hx("f")], [])])
            add("x", "world", [(["cset", "a", "alias", hx(t)], []), (["cset", "a", "alias", "-"], []), (["cset", "b", "alias", hx(t)], []), (["cset", "b", "alias", "N"], [])])
        # graph: items of the group, the axes / worlds name lists, bind, transformation
        ITEM_T = ["axis", "xaxis", "yaxis", "zaxis", "world", "line", "text", "graph", "bogus", "axi", "worlds"]
        NAMES = ["ax", "ay", "wl", "w2", "zz"]
        for i in range(60 if quick else 1500):
            ops = []
            for _ in range(rng.choice([2, 4, 6, 9])):
                r = rng.random()
                tg = rng.choice(["a", "a", "b"])
                if r < 0.35:
                    ty = rng.choice(ITEM_T)
                    prop, val = rng.choice([("N", "T-"), ("int", "Tlog"), ("sub", "T3"), ("cyc", "T7"), ("title", "Tt"), ("nosuch", "T1"), ("width", "T4"),
                                            ("begin", "T5"), ("end", "T-2.5")])
                    tok, q = self.text_tok(val[1:], prop in ("begin", "end")) if val != "T-" else ("T-", None)
                    t, qq = self.src_item(tok, q)
                    ops.append((["gitem", tg, hx(ty), rng.choice([hx(n) for n in NAMES] + ["N"]), "N" if prop == "N" else hx(prop), t], qq))
                elif r < 0.5:
                    ops.append((["gadd", tg, rng.choice(["axis", "world"]), rng.choice([hx(n) for n in NAMES] + ["N"])], []))
                elif r < 0.7:
                    nm = rng.choice(["axes", "worlds"])
                    v = rng.choice(["R", "T" + hx("ax"), "T" + hx("ax ay"), "T" + hx(" ay  ax "), "T" + hx("wl"), "T" + hx("wl w2"), "T" + hx("no"), "T" + hx("ax ax"), "T-", "T20"])
                    ops.append((["set", tg, hx(nm), v], []))
                elif r < 0.85:
                    ops.append((["gbind", tg], []))
                elif r < 0.9:
                    ops.append((["gtr", tg], []))
                elif r < 0.95:
                    ops.append((["clone", tg], []))
                else:
                    ops.append((["set", tg, rng.choice(["N", "E"]), "O"], []))
            ops.append((["gbind", "a"], []))
            ops.append((["gtr", "a"], []))
            add("x", "graph", ops)
        # class layout and the clearing direct setters of text: as patched by docs/c20_proposed_layout_object.diff
        if self.layout_patched():
            for t in ["", "a", "la yout", "x" * 255, "y" * 256]:
                add("x", "layout", [(["set", "a", hx("alias"), "T" + hx(t)], []), (["set", "a", hx("FONT"), "T" + hx(t)], []), (["get", "a", hx("name")], []),
                                    (["get", "a", hx("Font")], []), (["set", "b", "N", "T" + hx(t)], []), (["set", "a", hx("Name"), "R"], []),
                                    (["set", "a", hx("font"), "R"], []), (["set", "b", "E", "R"], []), (["set", "b", "N", "R"], [])])
            for src in ["TN", "Vs:" + hx("ab"), "Vs:N", "Vc:65", "Vi:5~40a00000/4014000000000000", "VC:ff102030"]:
                add("x", "layout", [(["set", "a", hx("alias"), src], []), (["set", "b", hx("font"), src], []), (["set", "a", "N", src], [])])
            add("x", "layout", [(["conv", "a", q], []) for q in REQS])
            add("x", "layout", [(["cset", "a", "alias", hx("qq")], []), (["cset", "a", "lfont", hx("rr")], []), (["cset", "b", "lfont", "-"], []), (["lreset", "a"], []),
                                (["set", "a", hx("nosuch"), "T31"], []), (["get", "a", hx("fon")], []), (["get", "a", hx("alia")], [])])
            add("x", "text", [(["cset", "a", "value", hx("cd")], []), (["cset", "a", "value", "-"], []), (["cset", "a", "font", "N"], []), (["cset", "a", "font", hx("ff")], [])])

        # 4c. second round of the coverage audit: copy by properties, whole-object query, cycles, transformation limits,
        #     bind with logger / foreign relation, mpt_lattr_set, layout files
        def val_items(kind, count, safe=False):
            """count (name, T token, queries) of properties of the kind with values of the property's own value set"""
            res = []
            for _ in range(count):
                listed, names, ftype = rng.choice(PROPS[kind])
                srcs = [x for x in self.gen_sources(rng, ftype, tier, grid=(kind == "graph" and listed == "grid")) if x[0][0] == "T" and x[0] != "TN"]
                if safe:
                    srcs = [x for x in srcs if self.file_safe(x[0])]
                if not srcs:
                    continue
                tok, q = rng.choice(srcs)
                t, qq = self.src_item(tok, q)
                nm = rng.choice(names) if not safe else rng.choice([n for n in names if " " not in n])
                res.append((nm, t, qq))
            return res
        for kind in KINDS:
            pre = self.prefill(kind)
            for impl in ("c", "x"):
                tot_ok = PATCHED_TOTAL_PADDING or kind in ("line", "text")
                ops = [(["pinfo", "a"], [])] + ([(["tot", "a"], [])] if tot_ok else [])
                add(impl, kind, ops)
                if tot_ok:
                    # a change of any property shows, resetting all of them hides it again
                    resets = [(["set", "a", hx(names[0]), "R"], []) for _, names, _ in PROPS[kind]]
                    add(impl, kind, pre + [(["tot", "a"], []), (["tot", "b"], [])] + resets + [(["tot", "a"], []), (["set", "a", "E", "R"], []), (["tot", "a"], [])])
                    for listed, names, ftype in PROPS[kind]:
                        for (nm, t, qq) in val_items(kind, 1):
                            add(impl, kind, [(["set", "a", hx(nm), t], qq), (["tot", "a"], []), (["set", "a", hx(nm), "R"], []), (["tot", "a"], [])])
            if kind == "graph" and not PATCHED_GRID_BY_VALUE:
                continue
            # object::set(const object &): every property by value, with and without logger
            for lg in ("L", "N"):
                add("x", kind, pre + [(["oset", "b", lg], []), (["set", "a", "E", "R"], []), (["oset", "b", lg], []), (["oset", "a", lg], [])])
            for i in range(12 if quick else 200):
                ops = []
                for tg in ("a", "b"):
                    for (nm, t, qq) in val_items(kind, rng.choice([1, 3, 6])):
                        ops.append((["set", tg, hx(nm), t], qq))
                    if rng.random() < 0.3:
                        ops.append((["set", tg, "N", rng.choice(["VL:ff00ff00", "VL:02030405", "VC:80112233", "T" + hx("str")])], []))
                ops.append((["oset", rng.choice(["a", "b"]), rng.choice(["L", "N"])], []))
                ops.append((["oset", rng.choice(["a", "b"]), rng.choice(["L", "N"])], []))
                add("x", kind, ops)
        add("x", "layout", [(["pinfo", "a"], []), (["tot", "a"], []), (["cset", "a", "alias", hx("al")], []), (["tot", "a"], []), (["oset", "b", "L"], []),
                            (["cset", "b", "lfont", hx("ff")], []), (["oset", "a", "N"], []), (["tot", "b"], [])])
        for t in ["hello", "", "x" * 200, "two words", " lead"]:
            add("x", "text", [(["cset", "a", "tmeta", hx(t)], []), (["cset", "b", "value", hx("old")], []), (["cset", "b", "tmeta", hx(t)], []), (["clone", "b"], [])])
        add("x", "text", [(["cset", "a", "tmeta", "N"], [])])
        # graph: cycles of the bound worlds, limits of the transformation, bind with logger / through the other graph's items
        GNAMES = ["ax", "ay", "wl", "w2", "zz", "p:ax", "q:wl"]
        for i in range(80 if quick else 2000):
            ops = []
            for _ in range(rng.choice([3, 5, 8, 11])):
                r = rng.random()
                tg = rng.choice(["a", "a", "b"])
                if r < 0.3:
                    ty = rng.choice(["axis", "xaxis", "yaxis", "world", "world", "line", "text", "graph", "bogus"])
                    prop, val = rng.choice([("N", "T-"), ("int", "Tlog"), ("cyc", "T7"), ("cyc", "T2"), ("begin", "T5"), ("begin", "T-3"), ("end", "T-2.5"), ("end", "T4"),
                                            ("axes", "Tax"), ("axes", "Tnone"), ("worlds", "Twl"), ("width", "T4"), ("value", "Tvv"), ("x1", "T0.5")])
                    tok, q = self.text_tok(val[1:], prop in ("begin", "end", "x1")) if val != "T-" else ("T-", None)
                    t, qq = self.src_item(tok, q)
                    ops.append((["gitem", tg, hx(ty), rng.choice([hx(n) for n in GNAMES] + ["N"]), "N" if prop == "N" else hx(prop), t], qq))
                elif r < 0.4:
                    ops.append((["gadd", tg, rng.choice(["axis", "world"]), rng.choice([hx(n) for n in GNAMES] + ["N"])], []))
                elif r < 0.55:
                    nm = rng.choice(["axes", "worlds"])
                    v = rng.choice(["R", "T" + hx("ax"), "T" + hx("ax ay"), "T" + hx("ay ax"), "T" + hx("wl"), "T" + hx("wl w2"), "T" + hx("no"), "T" + hx("ax."), "T" + hx("p:ax"),
                                    "T" + hx("ax.b"), "T" + hx("q:wl wl"), "T" + hx("zz ax"), "T" + hx("ax ax")])
                    ops.append((["set", tg, hx(nm), v], []))
                elif r < 0.7:
                    ops.append((["gbind" + rng.choice(["", "l", "o", "o"]), tg], []))
                elif r < 0.8:
                    pos = rng.choice([-1, -2, -3, -4] + ([0, 1, 2, 5] if PATCHED_CYCLE_RANGE else []))
                    ops.append((["gcyc" if rng.random() < 0.7 else "gscyc", tg, str(pos)], []))
                elif r < 0.9:
                    ops.append((["gtr", tg], []))
                elif r < 0.95:
                    ops.append((["gview", tg], []))
                else:
                    ops.append((["clone", tg], []))
            ops += [(["gbindl", "a"], []), (["gview", "a"], []), (["gtr", "a"], []), (["gcyc", "a", "-1"], []), (["gcyc", "a", "-1"], [])]
            add("x", "graph", ops)
        # begin / end of the bound axes across the float order (swapped limits), logarithmic axes
        for (b, e) in [("5", "1"), ("1", "5"), ("-0", "0"), ("nan", "1"), ("1", "nan"), ("inf", "-inf"), ("1e308", "-1e308"), ("2", "2")]:
            tb, qb = self.text_tok(b, True)
            te, qe = self.text_tok(e, True)
            t1, q1 = self.src_item(tb, qb)
            t2, q2 = self.src_item(te, qe)
            add("x", "graph", [(["gitem", "a", hx("axis"), hx("ax"), hx("begin"), t1], q1), (["gbind", "a"], []), (["gtr", "a"], []),
                               (["gitem", "b", hx("axis"), hx("ax"), hx("end"), t2], q2), (["gbind", "b"], []), (["gtr", "b"], []),
                               (["gitem", "a", hx("axis"), hx("lg"), hx("int"), "T" + hx("log")], []), (["set", "a", hx("axes"), "T" + hx("lg ax")], []), (["gbindl", "a"], []), (["gtr", "a"], [])])
        # three dimensions, names with a ':' for worlds as well
        add("x", "graph", [(["gitem", "a", hx("xaxis"), hx("ax"), "N", "T-"], []), (["gitem", "a", hx("yaxis"), hx("ay"), "N", "T-"], []),
                           (["gitem", "a", hx("zaxis"), hx("az"), hx("int"), "T" + hx("log")], []), (["gitem", "a", hx("world"), hx("q:wl"), hx("cyc"), "T" + hx("4")], []),
                           (["gitem", "a", hx("world"), hx("wl"), "N", "T-"], []), (["set", "a", hx("worlds"), "T" + hx("q:wl wl q:wl")], []),
                           (["gbindl", "a"], []), (["gtr", "a"], []), (["gview", "a"], []), (["gcyc", "a", "-3"], []), (["gcyc", "a", "-1"], []),
                           (["set", "a", hx("axes"), "T" + hx("az ax")], []), (["gbind", "a"], []), (["gtr", "a"], [])])
        # layout files
        for i in range(120 if quick else 3000):
            add("x", "layout", self.layout_case(rng, val_items))
        cases = self.resolve(items)
        # 4d. mpt_lattr_set
        LAT = [-5, -1, 0, 1, 4, 5, 6, 8, 9, 10, 11, 19, 20, 21, 255, 256, 1000, -2147483648, 2147483647]
        for impl in ("c", "x"):
            for k in range(4):
                for v in LAT:
                    a = [2, 3, 4, 5]
                    a[k] = v
                    cases.append("%s lat 1,2,3,4 %d %d %d %d" % (impl, a[0], a[1], a[2], a[3]))
            for _ in range(20 if quick else 400):
                cases.append("%s lat %d,%d,%d,%d %d %d %d %d" % ((impl,) + tuple(rng.choice([0, 1, 7, 200]) for _ in range(4)) + tuple(rng.choice(LAT) for _ in range(4))))
        # 5. mpt_property_match: the real tables x every prefix / mlen, and synthetic tables
        for kind in KINDS:
            names = LISTED[kind]
            tab = " ".join(hx(n) for n in names)
            ms = set()
            for n in names:
                for k in range(1, len(n) + 1):
                    ms.add(n[:k])
                ms |= {n + "x", n.upper(), n[:3] + "q"}
            for m in sorted(ms):
                for ml in (-1, 0, 1, 2, 3, 4, 9):
                    cases.append("c pm %d %s %s" % (ml, hx(m), tab))
        syn = [["ab", "abc", "abd", "b", "ABX"], ["end", "endless", "en"], ["x"], [], ["aa", "aa"], ["color", "colour", "cycles"], ["a", "ab", "abc"]]
        for names in syn:
            tab = " ".join(hx(n) for n in names)
            ms = {"a", "ab", "abc", "abd", "abx", "b", "e", "en", "end", "endl", "x", "col", "colo", "color", "colou", "cy", "aa", "AA", "zz", "abcd"}
            for m in sorted(ms):
                for ml in (-1, 0, 1, 2, 3, 4, 5):
                    cases.append(("c pm %d %s %s" % (ml, hx(m), tab)).rstrip())
        cases.append("c pm 3 N " + hx("abc"))
        # 6. colour texts: parse, print, parse again
        cols = list(COL_TEXTS)
        for _ in range(60 if quick else 2000):
            n = rng.choice([2, 4, 6, 8, 8, 6, 3, 5, 7, 9, 10])
            cols.append("#" + "".join(rng.choice("0123456789abcdefABCDEF" + ("g +-x" if rng.random() < 0.15 else "")) for _ in range(n)))
        for a in (0, 1, 0x7f, 0x80, 0xfe, 0xff):
            cols.append("#0a0b0c%02x" % a)
        for s in cols:
            cases.append("c col " + hx(s))
            cases.append("x col " + hx(s))
        cases.append("c col N")
        cases.append("x col N")
        return cases

    rule = ("cases = (implementation: C API | mpt++ object, kind, operation history) over two objects a/b; operations: set by name "
            "(every settable name incl. aliases and case variants x the value set of the field: numerals across and beyond the range, "
            "floats incl. inf/nan/hex and both signs of both range ends (float and double overflow / underflow), every value at least once under "
            "the exact first name of the property (case variants that the object does not know are extra cases), strings of length 0/1/255/256/1000, colour names/#hex forms/malformed, line attribute values, "
            "points; as text through mpt_object_set_string and as typed values through mpt_object_set_value), reset, generic assignment from "
            "the other object / NULL / plain values with NULL and empty name, lookup by every prefix, mpt_object_set_property with every flag "
            "combination, the whole-object query (property \"\") and the query without record; full property dump of both objects through the "
            "public get interface after every operation; mpt++ objects in addition: constructors with arguments, clone / struct copy, direct "
            "setters, convert(), object::set(other object) with and without logger (copy by properties), text::set(metatype), graph items / "
            "add_axis / add_world / bind (plain, with logger, through the other graph's items; names with '.' and ':', graphs among the items) / "
            "cycles of the bound worlds / transformation limits; class layout: properties, open / load of generated layout files (sections "
            "with parents, name conflicts, unknown types, graphs with their own items, missing parents / axes, text the parser refuses), "
            "reload at end of file and after reset, minimal_scale, graph list: the view of every item with its properties is compared; "
            "separate cases for mpt_property_match (real tables x every prefix x mlen), colour parse/print/parse and mpt_lattr_set; "
            "a case is non-trivial when it has an operation")
    modelled = ("mptplot/layout/{axis,line,text,graph,world}_property.c, color_parse.c, color_html.c, color_set.c, lattr_set.c (all of it), string_set.c, "
                "mptplot/values/fpoint_set.c, mptcore/object/{object_set_string,object_set_value,object_set_property,property_match}.c, "
                "mptcore/convert/{convert_string,convert_number,convert_int}.c (numerals), mpt++/color.cpp (printer) transcribed in "
                "coq/C20/LayoutConv.v + LayoutModel.v; mpt++/layout.cpp, graph.cpp, item_group.cpp and the parts of object.cpp (object::set), "
                "collection.cpp (add_items, relation search) and cycle.cpp (limit_stages) they use: LayoutCxxModel.v (classes, graph items, bind "
                "with relations, cycles, transformation limits, copy by properties, text metatype as source) and LayoutLoad.v (layout::load / "
                "bind / reset / minimal_scale on the entries of a layout file, written once over an abstract object type); "
                "strtof/strtod and integer/float FPU conversions are oracles whose answers are part of the case; the configuration parser "
                "that turns the file into entries is C19's (the harness writes the file from the entries of the case, layout::open reads it)")
    trusted = ["harness/c20_probe.c + props/c20.py:probe regenerate coq/C20/Gen_Layout.v (read tables, member layout, defaults) from the tree",
               "harness/c20_oracle.c: libc strtof/strtod and FPU casts as oracle for float text and float images",
               "string ownership (own copy, no double free, no leak) is observed by ASan/LeakSanitizer in the harness, not proved",
               "layout files: harness/c20_cxx.cpp renders the entries of a case as `name = value;` / `type name : parents { }` text; the parser "
               "(property C19) delivers them back as nodes; values are restricted to visible ASCII without the format's special characters"]
    level_text = ("proof: 53 Coq theorems over the transcribed setters/getters for every kind and every settable property, for ALL objects and ALL "
                  "sources: every set/reset/assignment step and every mpt_object_set_property call (flags, name modes) is the specification's step "
                  "(C20_set_refines, C20_set_property_refines), histories over all operations from default or constructed objects without hypothesis "
                  "(C20_history_states_from_init), set_get, set_frame, reset_default, refused_unchanged (record level), copy_equal, colour_print_parse, "
                  "prefix_match_unique and C20_match_is_spec, lookup by name/prefix through the regenerated tables incl. the 'differs from default' "
                  "return value (C20_get_by_name, C20_get_flags), the mpt++ wrappers = the C functions and their constructors meet the invariants "
                  "(C20_cxx_*), every step of the mpt++ harness language on the listed properties and what it keeps (C20_cxx_step_refines, "
                  "C20_cxx_step_keeps), copy by properties object::set = the specification's copy (C20_object_set_refines), bind with any relation "
                  "(C20_cxx_bind_*_rel), reading a layout file = the specification's reading for all well formed entries (C20_load_refines, generic "
                  "over the object operations, C20_min_scale_refines), the text metatype as source (C20_meta_set_is_value), mpt_lattr_set "
                  "(C20_lattr_set4_spec), the whole-object query (C20_total_default, C20_total_reports_change), class layout as patched "
                  "(C20_layout_step_refines), and the finite sweep get_table_fields_disjoint_in_bounds over the regenerated tables; tied to the code "
                  "by differential execution")
    level_note = ("trusted: Coq kernel; hand transcription validated by the correspondence run; extraction; harness; float parsing by libc oracle; "
                  "string ownership observed by ASan/LSan only; convert() result tables, graph item lists, cycles, transformation limits, clone and the "
                  "parser / file state of class layout are mechanism validated by correspondence; the model is AS PATCHED for four open patches "
                  "(docs/C20_grid_by_value.diff, C20_total_padding.diff, C20_cycle_range.diff, C07_convert_string_space.diff), the cases that tell the "
                  "difference are generated only after the switch PATCHED_* in props/c20.py is set; not proved (correspondence only): that a copy by "
                  "properties whose every value is accepted shows exactly the source's properties (the per-property get -> set-by-value round trip); "
                  "typed values through mpt_object_set_property are not covered; not driven: items that are not reference counted "
                  "(layout::bind / graph::bind copy or skip them), bind with a foreign relation on class layout, allocation failures")
    technique = "Coq proofs over an executable mechanism model + regenerated tables + differential correspondence check"
    assumptions = ["malloc/realloc/strdup succeed", "'C' locale", "libc strtof/strtod correctly rounded (oracle)"]


PROP = C20()
