"""C07 — scalar conversion is exact or refused (mptcore/convert/*.c, types/iterator_consume.c)."""
import os, subprocess, hashlib
import vcheck
from vcheck import DiffProperty

SRC_INT = ["b", "y", "n", "q", "i", "u", "x", "t"]
SRC_RANGE = {"c": (-128, 127), "b": (-128, 127), "y": (0, 255), "n": (-2**15, 2**15 - 1), "q": (0, 2**16 - 1),
             "i": (-2**31, 2**31 - 1), "u": (0, 2**32 - 1), "x": (-2**63, 2**63 - 1), "t": (0, 2**64 - 1)}
SCALAR_T = [ord(c) for c in "cbynqiuxtlfde"]
INT_T = [ord(c) for c in "cbynqiuxtl"]
# 'h' (the stray case of uint16), some vector, generic vector, string, 0, unused letter, ValFmt, interface, private id
ODD_T = [104, 66, 64, 115, 0, 122, 24, 200, 4200]

LIMITS = sorted(set([0, 2**7, 2**8, 2**15, 2**16, 2**31, 2**32, 2**63, 2**64, 33, 127, 2**24, 2**53]))

# ---- switches for patches of /verif/docs; both are committed in /repo (4ff2a89, eb298e3): constants, nothing at run time decides them ----
# docs/C07_convert_string_space.diff: mpt_convert_string returns 0 when nothing was converted (white space only).
#   True: the model describes the patched function (driver argument "space-patched"); committed as 4ff2a89.
PATCHED_STRING_SPACE = True
# docs/C07_valfmt_query.diff: mpt_convert_string(text, TypeValFmt, 0) stores through the null destination.
#   False: the generator asks for a value format only WITH a destination (cases "ts 24 1 ...").
#   True:  it also asks without one (cases "ts 24 0 ...": same answer as performing, no fault).
PATCHED_VALFMT_QUERY = True
# docs/C07_null_raw_copy.diff (OPEN, not committed): mpt_value_convert's raw copy of a value of the very same type does
#   memcpy(dest, value._addr, size) also for a value WITHOUT data address (the converters read such a value as 0).  Reached by
#   a 'c' value without address asked for 'c' with a destination (the converter refuses 0: no graphic character).
#   False: the generator leaves exactly the cases `V|C c 99 <hd> N` and `I c 99 <hd> <0|2> N` out: with a destination the
#          code (and the model) faults, without one the query succeeds although performing does not (same defect).
#   True:  they run (0 stored), driver argument "nullcopy-patched".
PATCHED_NULL_COPY = True


# Axioms that may appear in the Print Assumptions output of C07 (none is declared by this development: all four come
# with Coq's standard library and are what Flocq's real-number rounding operator `round` is built on).  A theorem that
# depends on anything else makes the proof step fail.
AXIOMS_ALLOWED = [
    "ClassicalDedekindReals.sig_forall_dec",                    # Coq.Reals: classical Dedekind reals
    "ClassicalDedekindReals.sig_not_dec",                       # Coq.Reals
    "FunctionalExtensionality.functional_extensionality_dep",   # Coq.Reals (Cauchy -> Dedekind quotient)
    "Classical_Prop.classic",                                   # Coq.Logic, used by Flocq.Core.Raux (mag, the binary exponent of a real)
]

_orig_prove = vcheck.prove


def _prove(pid, dirname, *a, **kw):
    """vcheck.prove + for C07: every axiom named in a Print Assumptions block must be in AXIOMS_ALLOWED;
    the names found are recorded in the evidence (coverage.print_assumptions.axioms_used / axioms_allowed)"""
    res = _orig_prove(pid, dirname, *a, **kw)
    if pid == "C07" and res.get("assumptions"):
        import re
        used = set()
        nblocks = 0
        # (consecutive Print Assumptions outputs are not separated by blank lines, so one captured block may hold
        # several "Axioms:" lists and "Closed under the global context" lines; an axiom is printed as "name : type"
        # or as "name" alone followed by its indented type)
        for blk in res["assumptions"].get("axiom_blocks", []):
            nblocks += 1 + blk.count("Axioms:")
            for m in re.finditer(r"^([A-Za-z_][\w.']*)[ \t]*(?::(?!=)|$)", blk, flags=re.M):
                if m.group(1) not in ("Axioms", "Warning", "Error", "File", "COQC", "COQDEP"):
                    used.add(m.group(1))
        res["assumptions"]["axioms_used"] = sorted(used)
        res["assumptions"]["axioms_allowed"] = list(AXIOMS_ALLOWED)
        res["assumptions"]["theorems_depending_on_axioms"] = nblocks
        extra = sorted(used - set(AXIOMS_ALLOWED))
        if extra:
            res["ok"] = False
            res["discharged"] = 0
            res["failed"].append("axiom not in props/c07.py AXIOMS_ALLOWED: " + ", ".join(extra))
    return res


vcheck.prove = _prove


def hx(b):
    return "".join("%02x" % x for x in b) if b else "-"


def unhx(h):
    return b"" if h in ("-", "NULL") else bytes.fromhex(h)


def neighbourhood(lo, hi):
    """boundary neighbourhoods (+-2) of every target range, powers of two +-1, inside [lo, hi]"""
    vs = set([lo, lo + 1, lo + 2, hi, hi - 1, hi - 2, 0, 1, -1, 2, -2])
    for L in LIMITS:
        for d in (-2, -1, 0, 1, 2):
            vs.add(L + d)
            vs.add(-L + d)
    for k in range(0, 65):
        for d in (-1, 0, 1):
            vs.add(2**k + d)
            vs.add(-(2**k) + d)
    for c in (32, 33, 126, 127, 128, 255, 256, 289, 0x121, 0x17e):
        vs.add(c)
    return sorted(v for v in vs if lo <= v <= hi)


def render(mag, base):
    if mag == 0:
        return "0"
    ds = "0123456789abcdefghijklmnopqrstuvwxyz"
    s = ""
    while mag:
        s = ds[mag % base] + s
        mag //= base
    return s


class C07(DiffProperty):
    claimed = True
    pid = "C07"
    coq_dir = "C07"
    extract_vo = "C07/Extract.vo"
    mlname = "c07_model"
    driver = "c07_driver.ml"
    harness_src = "c07_conv.c"
    libs = ["mptcore"]
    BATCH = 512

    rule = ("a case line = one entry point (D: mpt_data_convert_<src>, V: mpt_value_convert, C: mpt_iterator_consume, P: mpt_data_converter, "
            "ti/tu: _mpt_convert_int/_uint, tw: mpt_c<type> wrappers with range, tn: mpt_convert_number, ts: mpt_convert_string, tf: mpt_cfloat/"
            "cdouble/cldouble with or without the optional range; I: mpt_iterator_consume on an iterator without value / whose advance fails / type 0 = skip; "
            "W: mpt_value_convert on a source that is no number: string pointer, char/int/generic vectors, unknown and private type codes, value format, "
            "identifier, stub convertable / metatype pointer / metatype reference incl. null pointers; T: mpt_type_traits) + target type + destination "
            "yes/no + a batch of source values, texts or target codes; every value/text/code is one conversion. "
            "Quick: EVERY value of the 8 and 16 bit source types x 13 scalar targets ('c','l', integers, floats) + 9 odd type codes x with/without "
            "destination through the direct converters, every 8 bit value and boundary sets through value_convert/iterator_consume; every D/V/C/I header also "
            "with a source WITHOUT data address (value N: null `from` / value._addr == 0; own type, other types, vectors, odd codes); for 32/64 bit and "
            "float sources the +-2 neighbourhood of every target limit, 2^k+-1 and random values (float sources also through value_convert / "
            "iterator_consume); 12 source types x 18 targets x 4 iterator behaviours; 26 non-number source kinds x 55 target codes; numerals from a grammar "
            "(white space x sign x 0x/0X/0 prefix x magnitudes around every limit, above 2^64 x trailing text; malformed pieces; NULL) x bases x all targets "
            "incl. the non-numeric branches of mpt_convert_string (type 0, 'k', char vector, 's', TypeValFmt); float texts x 15 ranges (finite, infinite, "
            "empty, NaN bounds) per floating type. "
            "A case line batches up to 512 conversions (quick tier: about 7.35 million conversions in about 16 900 lines), each compared token by token. "
            "non-trivial = every case (each line holds in-range and out-of-range sources); distinct = distinct case text")
    modelled = ("mptcore/convert/{data_convert_int,data_convert_float,value_convert,data_converter,convert_int,convert_number,convert_string,"
                "cdouble,cfloat,cldouble}.c and types/iterator_consume.c transcribed in coq/C07/ConvModel.v, ConvFloat.v (float sources, dyadic) and ConvDispatch.v "
                "(mpt_value_convert for every source type code with the traits table it consults, float sources behind it, _mpt_convertable_wrap / "
                "_mpt_metatype_wrap, mpt_iterator_consume with empty / failing iterators and type 0, every branch of mpt_convert_string incl. "
                "mpt_convert_key without separators, the optional range of mpt_cfloat/cdouble/cldouble); libc strtoimax/strtoumax "
                "modelled (glibc 2.36); strtof/strtod/strtold are an oracle whose answer (end pointer, errno == ERANGE, value) is part of the case and re-checked by the harness; "
                "the library's own tests on that answer (ERANGE && (+HUGE_VAL || -HUGE_VAL), end == src, white space, range[0] > tmp || tmp > range[1]) are transcribed; "
                "isgraph/isspace as ASCII tables ('C' locale); "
                "NOT modelled, executed and compared with the specification only: mpt_valfmt_get behind mpt_convert_string(.., TypeValFmt, ..) (no fault; asking without "
                "destination = performing, once docs/C07_valfmt_query.diff is committed); the objects behind convertable / metatype sources are harness stubs "
                "(answer 'i' with 77); mpt_data_convert_array (TypeArray / TypeBufferPtr sources) and mpt_data_tostring for arrays are not driven here (C04/C15); "
                "a NUMBER value without data address (value._addr == 0 / null `from`, value token N of the D V C I cases) denotes 0, as the converters read it: "
                "value_convert_a / value_convert_flt_a / iterator_consume_a of ConvDispatch.v, every source type x every target incl. its own type x destination yes/no "
                "on every run; the raw copy of the dispatcher reads through the null address ('c' asked for 'c': docs/C07_null_raw_copy.diff OPEN, switch PATCHED_NULL_COPY); "
                "non-number sources without address (cvn, mtn) are still not asked for a raw copy of themselves (same patch)")
    trusted = ["harness/c07_conv.c reads the destination back as the target type from an exact-size heap block pre-filled with 0xA5/0x5A "
               "(W cases: 64 bytes, two runs with different fill tell exactly which bytes were written; the harness names what they are: the source's bytes, "
               "{source address, length}, the text pointer, the stub's answer)",
               "the iterator, convertable and metatype objects of the I and W cases are harness stubs that count their calls",
               "libc strtof/strtod/strtold (value, consumed length, ERANGE) are an oracle; the host FPU's conversions (cvtsd2ss, fld/fstp, cvtsi2ss/sd, fild) are assumed IEEE-754 "
               "round-to-nearest-even and are compared bit by bit with the model (proved to be Flocq's round ... ZnearestE) in every run; 'C' locale",
               "LP64: long = int64, char signed, long double = x87 80 bit in 16 bytes",
               "axioms (none declared here; Print Assumptions of the 9 theorems about real numbers): ClassicalDedekindReals.sig_forall_dec, ClassicalDedekindReals.sig_not_dec, "
               "FunctionalExtensionality.functional_extensionality_dep (Coq.Reals) and Classical_Prop.classic (used by Flocq's mag); Flocq 4 (Core) as installed under coq/user-contrib; "
               "props/c07.py fails the proof step if any other axiom appears"]
    axioms_allowed = AXIOMS_ALLOWED
    level_text = ("proof: Coq theorems over unbounded Z for ALL source values / bit patterns / texts: C07_int_int_exact_or_refused (every integer source type x every integer/char/long "
                  "target: an accepted conversion stores exactly the source value, which lies in the target's range, and reports the target's size), "
                  "C07_query_same_verdict, C07_never_faults, C07_value_convert_exact / C07_iterator_consume_exact (dispatch layers), C07_text_int_exact "
                  "(strtoimax/strtoumax model + width checks: the value is the number denoted by exactly the consumed characters and in range; over-long "
                  "numerals, negated unsigned numerals refused; likewise C07_text_uint_exact, C07_text_wrapper_exact, C07_convert_number_exact, "
                  "C07_convert_string_exact); integer -> float: always accepted, the source itself is converted (also through value_convert/iterator_consume), the value is "
                  "Flocq's round radix2 (FLT_exp emin p) ZnearestE of the integer (C07_int_float_is_IEEE_nearest_even; plus the Z-only _exact_when_representable / "
                  "_correctly_rounded / _stays_finite) and the bit pattern compared with the FPU decodes to it (C07_int_float_destination); float -> float "
                  "(binary32/binary64/x87 extended, all 9 pairs, every bit pattern): the model's rounding is IEEE round-to-nearest-even of the exact value "
                  "(C07_float_round_is_IEEE_nearest_even against Flocq; C07_float_round_nearest_even_Z: representable, none closer, ties to even, stated on integers and "
                  "closed under the global context), a finite source is REFUSED exactly when its rounded magnitude exceeds FLT_MAX/DBL_MAX/LDBL_MAX and otherwise accepted "
                  "with that value (C07_float_float_rounded_or_refused), the bytes written decode to it (C07_float_float_destination, C07_float_bits_roundtrip), representable "
                  "values and every widening are exact (C07_float_float_exact_when_representable, C07_float_widening_exact), inf/NaN handed on; float -> integer is never offered "
                  "(C07_float_int_never_offered: always BadType, no truncation exists); text -> float: libc is an oracle, the library's logic around it is proved "
                  "(C07_text_float_cases/_accepts/_string_accepts: success only with libc's own consumed length and value; _overflow_refused/_badvalue_only_overflow: "
                  "ERANGE with +HUGE_VAL or -HUGE_VAL refused, nothing else; _query_same); "
                  "the layers around the converters (22 theorems C07_dispatch_*, C07_iterator_*, C07_convert_string_*, C07_text_float_range_*): with a numeric target "
                  "mpt_value_convert, for EVERY source type code, refuses unless the source type's own converter wrote or a value of the very same type is copied with "
                  "exactly sizeof(target) bytes (C07_dispatch_number_target, _foreign_source_refused, _raw_copy_same_type); the function of the value_convert theorems is that "
                  "skeleton around the eight switches (C07_dispatch_is_value_convert) and float sources behind it behave as the float converters (C07_dispatch_float_source); "
                  "mpt_iterator_consume with ANY iterator writes only after conversion AND advance succeeded, exactly sizeof(target) bytes, errors leave the destination alone, "
                  "query = perform (C07_iterator_writes_only_after_advance, _error_leaves_destination, _query_same, _is_consume); every numeric type code of "
                  "mpt_convert_string reaches the number branch, the text theorems hold for the function as it is and as patched, and the patched function never reports "
                  "consumed characters without a stored value (C07_convert_string_every_numeric_code, _exact_patched_or_not, _float_patched_or_not, "
                  "_patched_always_stores, _patch_changes_only_zero, _key_inside_text); the optional float range: accepted => not below / above the bounds and all unranged "
                  "guarantees, outside => BadValue, query = perform, and the comparison is the order of the real numbers denoted "
                  "(C07_text_float_range_accepts/_refuses/_query_same, REAL C07_float_gt_is_real_order, C07_text_float_range_is_real_interval); "
                  "values without data address (6 theorems C07_null_*): as patched such a value IS the value 0 through mpt_value_convert and mpt_iterator_consume (all theorems above "
                  "apply), the query never touches the address, unpatched the only other outcome is a fault of the raw copy of the own type into a destination after the converter "
                  "refused (C07_null_value_cases; of the nine scalar codes only 'c', Example C07_ex_null_value), floating values are 0.0 and never fault, patched or not; "
                  "the model is tied to the code on every run by differential execution (exhaustive for 8/16 bit sources) under ASan/UBSan")
    level_note = ("trusted: Coq kernel; hand transcription of the converters (validated by the correspondence run, not verified); extraction and OCaml driver; "
                  "harness; that the FPU implements IEEE-754 round-to-nearest-even (the proved model is compared bit by bit with the hardware in every run, incl. "
                  "subnormals, ties, overflow boundary; NaN only as a class, payloads not modelled); libc float parsing stays an oracle: that strtof/strtod/strtold return the "
                  "correctly rounded value of the characters they consume is NOT proved (only the library's use of their answer is, incl. the optional range argument); "
                  "a NaN value passes any range (C comparison, observation in docs/notes_C07.md); text -> 'c' and query = perform for mpt_value_convert are "
                  "correspondence/executable-spec only; mpt_valfmt_get and the objects behind interface sources are executed, not modelled (specification-level comparison: no fault, "
                  "query = perform); the traits table of ConvDispatch.v is compared with mpt_type_traits on every run (T case), not proved. "
                  "Two patches of docs/C07_*.diff are committed in /repo (4ff2a89 white-space-only text, eb298e3 value format query); docs/C07_null_raw_copy.diff is OPEN "
                  "(PATCHED_NULL_COPY = False keeps `V|C c 99 <hd> N` and `I c 99 <hd> <0|2> N` out; replay docs/C07_replay_null_raw_copy.json). "
                  "55 theorems are closed under the global context; the 9 theorems that mention real numbers (Flocq's round) depend on the standard-library axioms "
                  "ClassicalDedekindReals.sig_forall_dec, ClassicalDedekindReals.sig_not_dec, FunctionalExtensionality.functional_extensionality_dep and Classical_Prop.classic "
                  "(no axiom is declared by this development; the Z-only theorem C07_float_round_nearest_even_Z states nearest-even without them).")
    technique = ("Coq case analysis + lia/nia over Z on a transcribed mechanism model (incl. a Gallina strtoimax/strtoumax and a dyadic IEEE rounding), "
                 "equivalence of that rounding with Flocq's generic round/ZnearestE on FLT formats, + differential correspondence check")
    assumptions = ["'C' locale", "LP64 / x86-64 type sizes", "iterator passed to mpt_iterator_consume behaves (value stays valid until advance)"]

    # ------------------------------------------------------------------ the model driver gets the patch switch
    def evaluate(self, cases, workdir, tagsuffix=""):
        hx = vcheck.build_harness(self.harness_src, self.libs, extra=self.extra_harness_flags)
        mx = vcheck.build_model(self.mlname, self.driver, self.extract_vo)
        ided = ["c%d %s" % (i, c) for i, c in enumerate(cases)]
        I, e1 = vcheck.run_cases(hx, ided, workdir, "impl" + tagsuffix, env=self.harness_env, args=self.harness_args)
        M, e2 = vcheck.run_cases(mx, ided, workdir, "model" + tagsuffix,
                                 args=["space-patched" if PATCHED_STRING_SPACE else "space-unpatched",
                                       "nullcopy-patched" if PATCHED_NULL_COPY else "nullcopy-unpatched"])
        res = []
        for i, c in enumerate(cases):
            k = "c%d" % i
            res.append(self.compare(c, I.get("I", {}).get(k), M.get("M", {}).get(k), M.get("S", {}).get(k)))
        return res, e1 + e2

    # ------------------------------------------------------------------ case structure
    def hdr_len(self, toks):
        k = toks[0]
        return {"D": 4, "V": 4, "C": 4, "I": 5, "W": 3, "T": 1, "P": 1, "ti": 4, "tu": 4, "tw": 5, "tn": 3, "ts": 3, "tf": 4}[k]

    def split(self, case):
        t = case.split()
        n = self.hdr_len(t)
        return t[:n], [[x] for x in t[n:]]

    def project(self, tok):
        if not tok:
            return tok
        if tok[0] == "R":
            # a refusal that wrote the destination all the same (I, W and string cases report it) is no refusal
            return "R!written" if "!written" in tok else "R"
        if tok[0] in "kq" and tok != "k" and tok != "q":
            # mpt_value_convert / mpt_iterator_consume return a path code, not a size
            rest = tok[1:]
            i = rest.find(":")
            return tok[0] + "*" + (rest[i:] if i >= 0 else "")
        return tok

    def classify(self, case):
        t = case.split()
        cl = {"entry:" + t[0]}
        if t[0] in ("D", "V", "C", "I"):
            cl.add("src:" + t[1])
            cl.add("dst:%s" % (chr(int(t[2])) if 32 < int(t[2]) < 127 else t[2]))
            cl.add("dest" if t[3] == "1" else "query")
            if t[0] == "I":
                cl.add("iterator:" + {"0": "value", "1": "no-value", "2": "advance-fails", "3": "no-value+advance-fails"}[t[4]])
        elif t[0] == "W":
            cl.add("source:" + t[1]); cl.add("dest" if t[2] == "1" else "query")
        elif t[0] in ("ti", "tu"):
            cl.add("vlen:" + t[1]); cl.add("base:" + t[2]); cl.add("dest" if t[3] == "1" else "query")
        elif t[0] == "tw":
            cl.add("wrapper:" + t[1]); cl.add("base:" + t[2]); cl.add("range" if t[3] != "-" else "norange")
        elif t[0] in ("tn", "ts"):
            cl.add("fmt:%s" % (chr(int(t[1])) if 32 < int(t[1]) < 127 else t[1])); cl.add("dest" if t[2] == "1" else "query")
        elif t[0] == "tf":
            cl.add("fmt:" + t[1]); cl.add("range" if t[2] != "-" else "norange")
        return cl

    def shrink_candidates(self, case):
        hdr, ops = self.split(case)
        n = len(ops)
        if n > 1:
            # bisect the batch, then single conversions
            step = (n + 1) // 2
            while step >= 1:
                for i in range(0, n, step):
                    yield self.join(hdr, ops[i:i + step])
                if step == 1:
                    break
                step = (step + 1) // 2 if step > 2 else 1
            return
        if n == 1:
            v = ops[0][0]
            if v == "N":
                return                      # a value without address: nothing smaller
            if hdr[0] in ("D", "V", "C") and hdr[1] not in "fde":
                x = int(v)
                for y in (0, 1, -1, x // 2, x // 16, x - 1 if x > 0 else x + 1, 127, 128, 255, 256, 32767, 32768, 65535, 65536):
                    lo, hi = SRC_RANGE[hdr[1]]
                    if lo <= y <= hi and abs(y) < abs(x):
                        yield self.join(hdr, [[str(y)]])
            elif hdr[0][0] == "t" and v != "NULL" and "/" not in v:
                b = unhx(v)
                for i in range(len(b)):
                    yield self.join(hdr, [[hx(b[:i] + b[i + 1:])]])
            if hdr[0] in ("D", "V", "C", "tn", "ts", "ti", "tu") and hdr[-1] == "1":
                pass

    def match_known(self, case, idx, itok, stok):
        t = case.split()
        if t[0] == "ts" and idx >= 0:
            n = self.hdr_len(t)
            if n + idx < len(t):
                item = t[n + idx].split("/")[0]
                b = unhx(item)
                if item not in ("-", "NULL") and b and all(c in b" \t\n\v\f\r" for c in b) and itok and itok[0] in "UQ" and stok == "R":
                    return ("mpt_convert_string on white-space-only text reports the white space as consumed characters "
                            "without converting anything (convert_string.c; fixed by 4ff2a89: reported again if it returns)")
        return None

    # ------------------------------------------------------------------ oracle for float text
    def oracle_exe(self):
        src = os.path.join(vcheck.VERIF, "harness", "c07_oracle.c")
        h = hashlib.sha1(open(src, "rb").read()).hexdigest()[:10]
        d = os.path.join(vcheck.OUT, "build")
        os.makedirs(d, exist_ok=True)
        exe = os.path.join(d, "c07_oracle_" + h)
        if not os.path.exists(exe):
            rc, o = vcheck.sh(["gcc", "-O1", "-o", exe + ".tmp%d" % os.getpid(), src, "-lm"])
            if rc:
                raise vcheck.BuildError("oracle build failed: " + o)
            os.rename(exe + ".tmp%d" % os.getpid(), exe)
        return exe

    def oracle(self, pairs):
        """pairs: list of (fmt letter, hex text) -> list of 'end/ovf/bits'"""
        if not pairs:
            return []
        inp = "".join("%s %s\n" % p for p in pairs)
        p = subprocess.run([self.oracle_exe()], input=inp, stdout=subprocess.PIPE, text=True, check=True)
        out = p.stdout.split()
        assert len(out) == len(pairs)
        return out

    # ------------------------------------------------------------------ generators
    def batches(self, hdr, vals):
        out = []
        if hdr[0] in ("D", "V", "C", "I") and not self.null_copy_case(hdr):
            # every value entry point also gets a source WITHOUT data address ("N": null `from` / value._addr == 0), first in
            # the batch: for the very same type, other types, vectors, odd codes, with and without destination
            vals = ["N"] + list(vals)
        for i in range(0, len(vals), self.BATCH):
            out.append(" ".join(hdr + [str(v) for v in vals[i:i + self.BATCH]]))
        return out

    @staticmethod
    def null_copy_case(hdr):
        """the cases PATCHED_NULL_COPY keeps out while docs/C07_null_raw_copy.diff is open"""
        if PATCHED_NULL_COPY:
            return False
        if hdr[0] in ("V", "C"):
            return hdr[1:3] == ["c", "99"]
        if hdr[0] == "I":
            return hdr[1:3] == ["c", "99"] and hdr[4] in ("0", "2")
        return False

    def values_for(self, rng, s, nrand):
        lo, hi = SRC_RANGE[s]
        vs = neighbourhood(lo, hi)
        for _ in range(nrand):
            k = rng.randrange(1, 65)
            v = rng.randrange(0, 2**k) * rng.choice([1, -1])
            if lo <= v <= hi:
                vs.append(v)
            vs.append(rng.randrange(lo, hi + 1))
        return vs

    def float_values(self, rng, src, n):
        """bit patterns (hex, without 0x) of source values of float type src"""
        out = []
        if src == "f":
            base = [0, 1, 2, 0x7fffff, 0x800000, 0x800001, 0x3f800000, 0x3f800001, 0x7f7fffff, 0x7f800000, 0x7fc00000, 0x7f800001,
                    0x4b800000, 0x4b800001, 0x5f000000, 0x34000000, 0x00400000]
            base += [rng.getrandbits(31) for _ in range(n)]
            out = [b | sg for b in base for sg in (0, 0x80000000)]
            return ["x%x" % b for b in out]
        if src == "d":
            base = [0, 1, 0xfffffffffffff, 0x10000000000000, 0x3ff0000000000000, 0x3ff0000000000001, 0x7fefffffffffffff, 0x7ff0000000000000,
                    0x7ff8000000000000, 0x7ff0000000000001,
                    # around FLT_MAX and the rounding boundary to 2^128
                    0x47efffffe0000000, 0x47efffffe0000001, 0x47efffffefffffff, 0x47effffff0000000, 0x47effffff0000001, 0x47f0000000000000,
                    0x47dfffffe0000000, 0x7fe0000000000000,
                    # ties at 24 bits
                    0x3ff0000010000000, 0x3ff0000010000001, 0x3ff000000fffffff, 0x3ff0000030000000, 0x3ff0000020000000,
                    # float subnormal range: 2^-149, 2^-150 (tie to zero), just above, 2^-126, just below
                    0x36a0000000000000, 0x3690000000000000, 0x3690000000000001, 0x368fffffffffffff, 0x3810000000000000, 0x380fffffffffffff,
                    0x380ffffff0000000, 0x380fffffe0000000, 0x36b8000000000000, 0x36a8000000000000, 0x3680000000000000, 0x0008000000000000]
            for _ in range(n):
                base.append(rng.getrandbits(63))
                base.append(((1023 + rng.randrange(-160, 135)) << 52) | rng.getrandbits(52))
                base.append(((1023 + rng.randrange(-160, 135)) << 52) | (rng.getrandbits(24) << 28) | rng.choice([0, 1 << 28, (1 << 28) - 1, (1 << 28) + 1, 1 << 27]))
            out = [b | sg for b in base for sg in (0, 1 << 63)]
            return ["x%x" % b for b in out]
        # x87 extended: sign/exponent (16 bit) and significand with explicit integer bit
        J = 1 << 63
        base = [(0, 0), (0, 1), (0, J - 1), (1, J), (16383, J), (16383, J | 1), (32766, (1 << 64) - 1), (32767, J), (32767, J | (1 << 62)), (32767, J | 1),
                (16383 + 127, 0xffffff0000000000), (16383 + 127, 0xffffff0000000001), (16383 + 127, 0xffffff7fffffffff), (16383 + 127, 0xffffff8000000000),
                (16383 + 127, 0xffffff8000000001), (16383 + 128, J),
                (16383 + 1023, 0xfffffffffffff800), (16383 + 1023, 0xfffffffffffffbff), (16383 + 1023, 0xfffffffffffffc00), (16383 + 1023, 0xfffffffffffffc01),
                (16383 + 1024, J), (16383 - 149, J), (16383 - 150, J), (16383 - 150, J | 1), (16383 - 151, (1 << 64) - 1), (16383 - 126, J), (16383 - 127, (1 << 64) - 1),
                (16383 - 1074, J), (16383 - 1075, J), (16383 - 1075, J | 1), (16383 - 1022, J), (16383 - 1023, (1 << 64) - 1), (16383 - 1023, 0xfffffffffffff800),
                (16383, J | (1 << 39)), (16383, J | (1 << 39) | 1), (16383, J | (3 << 39)), (16383, J | (1 << 10)), (16383, J | (3 << 10)), (16383, J | (1 << 10) | 1)]
        for _ in range(n):
            base.append((rng.randrange(1, 32767), J | rng.getrandbits(63)))
            base.append((16383 + rng.randrange(-1100, 1030), J | rng.getrandbits(63)))
            base.append((16383 + rng.randrange(-160, 135), J | (rng.getrandbits(23) << 40) | rng.choice([0, 1 << 39, (1 << 39) - 1, (1 << 39) + 1])))
            base.append((16383 + rng.randrange(-1100, 1030), J | (rng.getrandbits(52) << 11) | rng.choice([0, 1 << 10, (1 << 10) - 1, (1 << 10) + 1])))
        for (e, m) in base:
            for sg in (0, 0x8000):
                out.append("x%x%016x" % (e | sg, m))
        return out

    def numerals(self, rng, tier):
        """list of byte strings"""
        spaces = [b"", b" ", b"\t ", b"\n\v\f\r "]
        signs = [b"", b"+", b"-"]
        mags = set()
        for L in LIMITS:
            for d in (-2, -1, 0, 1, 2):
                if L + d >= 0:
                    mags.add(L + d)
        mags |= {2**64 + 5, 2**70, 10**30, 2**128, 7, 10, 99, 12345, 2**63 + 2**62, 2**64 - 2**32}
        for _ in range(12 if tier == "quick" else 200):
            mags.add(rng.randrange(0, 2**rng.randrange(1, 70)))
        tails = [b"", b" ", b"x", b"9", b"abc", b".5", b"e3", b"L", b"\x80", b" 1", b"-"]
        out = []
        mags = sorted(mags)
        for m in mags:
            forms = [render(m, 10).encode(), b"0x" + render(m, 16).encode(), b"0X" + render(m, 16).upper().encode(),
                     b"0" + render(m, 8).encode(), render(m, 16).encode(), render(m, 2).encode(), render(m, 36).encode(),
                     b"000" + render(m, 10).encode()]
            for f in forms:
                sp = rng.choice(spaces) if rng.random() < 0.3 else b""
                for sg in signs:
                    tl = rng.choice(tails) if rng.random() < 0.3 else b""
                    out.append(sp + sg + f + tl)
        # systematic small grammar product
        for sp in spaces:
            for sg in signs:
                for f in (b"0", b"1", b"0x", b"0x1", b"0xg", b"08", b"010", b"255", b"256", b"0xff", b"0x100", b"", b"x", b"z"):
                    for tl in (b"", b" ", b"q"):
                        out.append(sp + sg + f + tl)
        out += [b"", b" ", b"  \t", b"-", b"+", b"--1", b"+-1", b"- 1", b"+ 1", b"\xff", b"\x80" b"1", b" \xa0" b"1", b"1\x00" b"2",
                b"18446744073709551615", b"18446744073709551616", b"-18446744073709551615", b"-18446744073709551616",
                b"-18446744073709551361", b"-18446744069414584321", b"-9223372036854775808", b"-9223372036854775809",
                b"9223372036854775807", b"9223372036854775808", b"99999999999999999999999999", b"-99999999999999999999999999",
                b"0x7fffffffffffffff", b"0x8000000000000000", b"0xffffffffffffffff", b"0x10000000000000000", b"-0x8000000000000000",
                b"-0x8000000000000001", b"01777777777777777777777", b"02000000000000000000000", b"-0", b"+0", b"-00", b"-0x0", b"A", b"~", b" !", b"\x7f", b"\x1f"]
        seen = set()
        res = []
        for s in out:
            if s not in seen and b"\n" != s:
                seen.add(s)
                res.append(s)
        return res

    def float_texts(self, rng, tier):
        base = [b"0", b"-0", b"1", b"1.5", b"-2.25", b".5", b"5.", b"1e10", b"1E10", b"1e-10", b"1e38", b"3.4028235e38", b"3.4028236e38",
                b"3.5e38", b"1e39", b"-1e39", b"1e308", b"1.7976931348623157e308", b"1.7976931348623159e308", b"1e309", b"-1e309",
                b"1e4932", b"1.18973149535723176502e4932", b"1.19e4932", b"1e4933", b"-1e4933", b"1e99999", b"1e-45", b"1e-46", b"1e-320",
                b"1e-400", b"1e-4951", b"1e-5000", b"1e-99999", b"inf", b"-inf", b"+inf", b"infinity", b"INF", b"infinit", b"nan", b"-nan",
                b"nan(123)", b"NAN", b"0x1p3", b"0x1.8p1", b"0x1p128", b"0x1p127", b"0x1.fffffep127", b"0x1.ffffffp127", b"0x1p1024",
                b"0x1p16384", b"0x1p-149", b"0x1p-150", b"0x", b"0x.", b"0x.8", b"1e", b"1e+", b"1e-", b"e5", b".", b"..", b"-", b"+", b"",
                b" ", b"  ", b" 1.5", b"\t-3e2 ", b"1.5x", b"1.5.5", b"1,5", b"16777217", b"9007199254740993", b"18446744073709551615",
                b"18446744073709551616", b"0.1", b"0.2", b"0.3", b"123456789.123456789", b"4.9e-324", b"2.2250738585072014e-308",
                b"1.1754943508222875e-38", b"abc", b"i", b"in", b"n", b"na", b"\xff" b"1", b"1\x00" b"5"]
        for _ in range(30 if tier == "quick" else 2000):
            m = rng.randrange(0, 10**rng.randrange(1, 25))
            e = rng.choice([0, 0, 1, -1, 5, -5, 37, 38, 39, -44, -45, -46, 307, 308, 309, -323, -324, -325, 4931, 4932, 4933, rng.randrange(-5000, 5000)])
            s = (b"-" if rng.random() < 0.3 else b"") + str(m).encode()
            if rng.random() < 0.5:
                s = s[:max(1, len(s) // 2)] + b"." + s[max(1, len(s) // 2):]
            s += b"e" + str(e).encode()
            if rng.random() < 0.1:
                s += rng.choice([b" ", b"x", b"e", b".", b"f"])
            base.append(s)
        return base

    def generate(self, rng, tier):
        quick = tier == "quick"
        cases = []
        # ---- values: direct converters
        for s in SRC_INT:
            lo, hi = SRC_RANGE[s]
            vec_own = ord(s) - 32
            targets = SCALAR_T + ODD_T + [vec_own]
            if hi - lo < 70000:
                vals = list(range(lo, hi + 1))          # exhaustive for 8 and 16 bit sources
            else:
                vals = self.values_for(rng, s, 300 if quick else 20000)
            for t in targets:
                for hd in (1, 0):
                    cases += self.batches(["D", s, str(t), str(hd)], vals)
        # ---- floating sources through mpt_data_convert_float32/float64/exflt
        for s in "fde":
            vals = self.float_values(rng, s, 150 if quick else 15000)
            for t in [102, 100, 101, ord(s) - 32, 70, 105, 120, 116, 99, 0, 115, 200]:
                for hd in (1, 0):
                    cases += self.batches(["D", s, str(t), str(hd)], vals)
        # ---- values: mpt_value_convert, mpt_iterator_consume
        for kind in ("V", "C"):
            for s in ["c"] + SRC_INT:
                lo, hi = SRC_RANGE[s]
                vec_own = ord(s) - 32
                targets = SCALAR_T + ODD_T + [vec_own, ord(s)]
                if kind == "C":
                    targets = [t for t in targets if t != 0]     # type 0 = skip the value, no conversion
                if hi - lo < 300:
                    vals = list(range(lo, hi + 1))
                else:
                    vals = self.values_for(rng, s, 60 if quick else 3000)
                for t in sorted(set(targets)):
                    for hd in (1, 0):
                        cases += self.batches([kind, s, str(t), str(hd)], vals)
                if hi - lo < 70000 and hi - lo >= 300 and not quick:
                    # thorough: every 16 bit value through the dispatch layers for the scalar targets
                    for t in SCALAR_T:
                        cases += self.batches([kind, s, str(t), "1"], list(range(lo, hi + 1)))
        # ---- floating sources through mpt_value_convert / mpt_iterator_consume
        for kind in ("V", "C"):
            for s in "fde":
                vals = self.float_values(rng, s, 40 if quick else 4000)
                targets = [102, 100, 101, ord(s) - 32, 70, 68, 105, 120, 116, 99, 108, 115, 64, 200, 4200]
                if kind == "V":
                    targets.append(0)
                for t in sorted(set(targets)):
                    for hd in (1, 0):
                        cases += self.batches([kind, s, str(t), str(hd)], vals)
        # ---- mpt_iterator_consume: no value / advance fails / skip (type 0)
        for s in ["c"] + SRC_INT + ["f", "d", "e"]:
            if s in "fde":
                vals = self.float_values(rng, s, 2 if quick else 200)[:24 if quick else 2000]
            else:
                lo, hi = SRC_RANGE[s]
                vals = [v for v in (lo, lo + 1, -129, -128, -1, 0, 1, 33, 126, 127, 128, 255, 256, 32767, 32768, 65535, 65536,
                                    2**31 - 1, 2**31, 2**32 - 1, 2**32, 2**63 - 1, 2**63, hi - 1, hi) if lo <= v <= hi]
                vals = sorted(set(vals)) + ([rng.randrange(lo, hi + 1) for _ in range(200)] if not quick else [])
            for t in [0, 105, 121, 98, 113, 120, 116, 108, 99, 102, 100, 101, 115, 73, 64, 200, ord(s), ord(s) - 32]:
                for hd in (1, 0):
                    for mode in (0, 1, 2, 3):
                        cases += self.batches(["I", s, str(t), str(hd), str(mode)], vals)
        # ---- mpt_value_convert on sources that are no numbers (string pointer, vectors, unknown codes, interfaces)
        wt = ([0] + SCALAR_T + [115, 107, 64, 67, 66, 73, 83, 65, 90, 75, 76, 97, 122, 104, 24, 25, 26, 32, 1, 11, 128, 129, 134, 136, 137, 192,
                                255, 256, 257, 2047, 2048, 2049, 2050, 2051, 2052, 2304, 4095, 4096, 4200, 74565, 2**32 + 105, 2**40])
        wcode = {"s": 115, "s0": 115, "C4": 67, "C3": 67, "C0": 67, "I3": 73, "At": 64, "a": 97, "z": 122, "l": 108, "k": 107, "vf": 24,
                 "tv": 25, "priv": 0x12345, "t20": 32, "it": 0x86, "id": 0x800, "cv": 0x80, "cv0": 0x80, "cvn": 0x80, "mt": 0x100,
                 "mt0": 0x100, "mtn": 0x100, "m7": 0x7ff, "rf": 0x801, "rf0": 0x801}
        for kind, code in wcode.items():
            # a value without address (cvn, mtn) is not asked for a raw copy of itself
            ts = [t for t in wt if not (kind in ("cvn", "mtn") and t == code)]
            for hd in (1, 0):
                cases.append(" ".join(["W", kind, str(hd)] + [str(t) for t in ts]))
        # ---- the type traits table the dispatcher consults
        cases.append(" ".join(["T"] + [str(k) for k in list(range(0, 300)) + [0x7fe, 0x7ff, 0x800, 0x801, 0x802, 0x803, 0x804, 0x8ff, 0x900,
                                                                                  0x901, 0xfff, 0x1000, 70000, 2**32 + 99]]))
        # ---- dispatch table
        cases.append(" ".join(["P"] + [str(k) for k in list(range(0, 300)) + [0x7ff, 0x800, 0x801, 0x802, 0x803, 0x900, 0xfff, 0x1000, 70000]]))
        # ---- integer text
        nums = self.numerals(rng, tier)
        items = [hx(b) for b in nums] + ["NULL"]
        for kind in ("ti", "tu"):
            for vlen in (1, 2, 4, 8, 3, 0, 16):
                for base in ((0, 10, 16, 8, 2, 36, 7, 3, 35, 11) if vlen in (1, 8) or not quick else (0, 16, 10)):
                    for hd in (1, 0):
                        if vlen in (3, 0, 16) and (base not in (0,) or hd == 0):
                            continue
                        cases += self.batches([kind, str(vlen), str(base), str(hd)], items)
        wr = {"int8": (-128, 127), "int16": (-2**15, 2**15 - 1), "int32": (-2**31, 2**31 - 1), "int64": (-2**63, 2**63 - 1),
              "char": (-128, 127), "int": (-2**31, 2**31 - 1), "long": (-2**63, 2**63 - 1), "uint8": (0, 255), "uint16": (0, 65535),
              "uint32": (0, 2**32 - 1), "uint64": (0, 2**64 - 1), "uchar": (0, 255), "uint": (0, 2**32 - 1), "ulong": (0, 2**64 - 1)}
        for name, (lo, hi) in wr.items():
            ranges = ["-", "%d:%d" % (lo, hi), "%d:%d" % (max(lo, -5), min(hi, 100)), "%d:%d" % (min(hi, 10), max(lo, 1)), "%d:%d" % (hi, hi)]
            for rg in ranges:
                for base in ((0, 10, 16) if rg == "-" else (0,)):
                    for hd in ((1, 0) if rg == "-" else (1,)):
                        cases += self.batches(["tw", name, str(base), rg, str(hd)], items)
        # ---- mpt_convert_number / mpt_convert_string
        ftx = [hx(b) for b in self.float_texts(rng, tier)]
        fitems = {}
        for f in "fde":
            both = ftx + items[:-1:7]
            orc = self.oracle([(f, h) for h in both])
            fitems[f] = ["%s/%s" % (h, o) for h, o in zip(both, orc)]
        for kind in ("tn", "ts"):
            for fmt in INT_T + [104, 122, 66, 200, 1, 4200]:
                for hd in (1, 0):
                    cases += self.batches([kind, str(fmt), str(hd)], items)
            for f in "fde":
                for hd in (1, 0):
                    cases += self.batches([kind, str(ord(f)), str(hd)], fitems[f] + ["NULL"])
        for f in "fde":
            for hd in (1, 0):
                cases += self.batches(["tf", f, "-", str(hd)], fitems[f])
        # ---- the optional range of mpt_cfloat / cdouble / cldouble (two bit patterns of the type)
        fb = {"f": {"0": "x0", "-0": "x80000000", "1": "x3f800000", "-1": "xbf800000", "inf": "x7f800000", "-inf": "xff800000", "nan": "x7fc00000",
                    "max": "x7f7fffff", "-max": "xff7fffff", "0.1": "x3dcccccd", "2.5": "x40200000", "min": "x1", "1e10": "x501502f9"},
              "d": {"0": "x0", "-0": "x8000000000000000", "1": "x3ff0000000000000", "-1": "xbff0000000000000", "inf": "x7ff0000000000000",
                    "-inf": "xfff0000000000000", "nan": "x7ff8000000000000", "max": "x7fefffffffffffff", "-max": "xffefffffffffffff",
                    "0.1": "x3fb999999999999a", "2.5": "x4004000000000000", "min": "x1", "1e10": "x4202a05f20000000"},
              "e": {"0": "x0", "-0": "x80000000000000000000", "1": "x3fff8000000000000000", "-1": "xbfff8000000000000000",
                    "inf": "x7fff8000000000000000", "-inf": "xffff8000000000000000", "nan": "x7fffc000000000000000",
                    "max": "x7ffeffffffffffffffff", "-max": "xfffeffffffffffffffff", "0.1": "x3ffbcccccccccccccccd",
                    "2.5": "x4000a000000000000000", "min": "x1", "1e10": "x40209502f90000000000"}}
        rgs = [("0", "1"), ("-inf", "inf"), ("-max", "max"), ("1", "0"), ("-0", "0"), ("0", "-0"), ("0.1", "2.5"), ("-1", "1e10"), ("nan", "1"), ("0", "nan"),
               ("nan", "nan"), ("min", "inf"), ("-inf", "-1"), ("1", "1"), ("inf", "inf")]
        for f in "fde":
            for lo, hi in rgs:
                for hd in ((1, 0) if (lo, hi) in (("0", "1"), ("0.1", "2.5")) else (1,)):
                    cases += self.batches(["tf", f, "%s:%s" % (fb[f][lo], fb[f][hi]), str(hd)], fitems[f])
        # ---- the branches of mpt_convert_string that are no numbers: type 0, 'k', char vector, 's', TypeValFmt
        vfitems = [hx(b) for b in (b"f", b"e10.3", b"+g8", b"x", b" 12.5 ", b"300", b"1.200", b"o", b"a4.2", b"G", b"12.", b"12.x", b"7", b"+", b"f-1",
                                    b"0x10.010", b"256", b"255.126", b"255.127")]
        for fmt in (0, 107, 67, 115):
            for hd in (1, 0):
                cases += self.batches(["ts", str(fmt), str(hd)], items + vfitems)
        # (asking for a value format without destination faults until docs/C07_valfmt_query.diff is committed)
        for hd in ((1, 0) if PATCHED_VALFMT_QUERY else (1,)):
            cases += self.batches(["ts", "24", str(hd)], items + vfitems)
        return cases


PROP = C07()
