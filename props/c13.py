"""C13 — ring-buffer queue is a faithful byte deque (mptcore/queue/*.c)."""
import random
from vcheck import DiffProperty


def hx(bs):
    return "".join("%02x" % b for b in bs) if bs else "-"


def rbytes(rng, n):
    # small alphabet with zeros so that find/string have something to do
    return [rng.choice([0, 1, 2, 0x41, 0x42, 0xff, rng.randrange(256)]) for _ in range(n)]


OPS1 = ["push", "unshift", "pop", "shift", "crop", "get", "set", "setz", "align", "resize", "prepare", "find", "string"]


def single_ops(mx, ln):
    """every operation with every interesting argument for a (max,len) state"""
    out = []
    for n in range(0, mx - ln + 2):
        d = hx([(0xa0 + i) & 0xff for i in range(n)])
        out.append(["push", d])
        out.append(["unshift", d])
    for n in range(0, ln + 2):
        for h in (0, 1):
            out.append(["pop", str(n), str(h)])
            out.append(["shift", str(n), str(h)])
    for p in range(0, ln + 2):
        for n in range(0, ln - p + 2 if p <= ln else 2):
            out.append(["crop", str(p), str(n)])
            out.append(["get", str(p), str(n)])
            out.append(["set", str(p), hx([(0xb0 + i) & 0xff for i in range(n)])])
            out.append(["setz", str(p), str(n)])
    for p in range(0, mx + 2):
        out.append(["align", str(p)])
    for n in range(0, mx + 3):
        out.append(["resize", str(n)])
        out.append(["prepare", str(n)])
    for e in (1, 2, 3):
        for k in (0x41, 0x00):
            out.append(["find", str(e), str(k)])
    out.append(["string"])
    return out


class C13(DiffProperty):
    pid = "C13"
    claimed = True
    coq_dir = "C13"
    extract_vo = "C13/Extract.vo"
    mlname = "c13_model"
    driver = "c13_driver.ml"
    harness_src = "c13_queue.c"
    libs = ["mptcore"]
    rule = ("cases = start state (capacity, start offset incl. wrapped and off=max, fill, bytes) + operation history over "
            "push/unshift/pop/shift(with and without target buffer)/crop/get/set/zero-set/align/resize/prepare/find/string; "
            "quick: every start state with capacity<=5 x every single operation x every argument value up to one past the "
            "limit (exhaustive), plus random histories with arguments drawn around len, free space and the two segments; "
            "a case is non-trivial when its start state holds data or an operation moves data; distinct = distinct case text")
    modelled = ("mptcore/queue/{qpush,qpost,qpre,qpop,qshift,qunshift,queue_crop,queue_get,queue_set,queue_data,queue_empty,"
                "queue_align,queue_resize,queue_find,queue_string,memrev}.c transcribed in coq/C13/QueueModel.v; realloc/free "
                "and errno kinds are not modelled (refusals compared as a class); mpt++ wrappers io::queue are not modelled")
    trusted = ["harness/c13_queue.c reads the ring back independently ((off+i) mod max) after every operation",
               "realloc is assumed to keep the common prefix and to succeed"]
    level_text = ("proof: Coq theorems C13_step_refines_deque / C13_history_refines_deque / C13_refused_leaves_content / "
                  "C13_memrev_rotates state, for every capacity, offset, fill and operation history (no bound), that the transcribed "
                  "ring-buffer mechanism yields exactly the outputs and bytes of a plain byte deque, never accesses outside its storage "
                  "and leaves refused operations without effect; the model is tied to the code on every run by differential execution "
                  "(exhaustive over all small start states x single operations, plus random histories) under ASan/UBSan")
    level_note = ("trusted: Coq kernel; hand transcription of mptcore/queue/*.c (validated by the correspondence run, not verified); "
                  "extraction (ExtrOcamlBasic) and OCaml driver; harness; realloc success and errno kinds not modelled; "
                  "mpt++ io::queue wrappers not modelled. Theorems are closed under the global context (no axioms).")
    technique = "Coq refinement proof (ring buffer -> byte deque) + differential correspondence check"
    assumptions = ["realloc succeeds", "element comparison callback of mpt_queue_find is pure"]

    def split(self, case):
        t = case.split()
        hdr, rest = t[:3], t[3:]
        ops = []
        i = 0
        ar = {"push": 1, "unshift": 1, "pop": 2, "shift": 2, "crop": 2, "get": 2, "set": 2, "setz": 2, "align": 1,
              "resize": 1, "prepare": 1, "find": 2, "string": 0}
        while i < len(rest):
            n = ar[rest[i]]
            ops.append(rest[i:i + n + 1])
            i += n + 1
        return hdr, ops

    def shrink_candidates(self, case):
        hdr, ops = self.split(case)
        for k in range(len(ops)):
            yield self.join(hdr, ops[:k] + ops[k + 1:])
        for k in range(1, len(ops)):
            yield self.join(hdr, ops[:k])
        # shrink start state
        mx, off, c = int(hdr[0]), int(hdr[1]), hdr[2]
        if c != "-" and len(c) > 2:
            yield self.join([hdr[0], hdr[1], c[:-2]], ops)
            yield self.join([hdr[0], hdr[1], c[2:]], ops)
        ln = 0 if c == "-" else len(c) // 2
        if mx > ln and mx > 1:
            yield self.join([str(mx - 1), str(min(off, mx - 1)), c], ops)
        if off > 0:
            yield self.join([hdr[0], str(off - 1), c], ops)

    def classify(self, case):
        hdr, ops = self.split(case)
        mx, off = int(hdr[0]), int(hdr[1])
        ln = 0 if hdr[2] == "-" else len(hdr[2]) // 2
        cl = set()
        if ln:
            cl.add("nonempty")
        if off + ln > mx:
            cl.add("wrapped-start")
        if ln == mx:
            cl.add("full-start")
        if off == mx:
            cl.add("off=max")
        for o in ops:
            cl.add("op:" + o[0])
        if len(ops) > 1:
            cl.add("history")
        if mx > 2048:
            cl.add("memrev-blockswap-size")
        return cl

    def gen_state(self, rng, maxcap):
        mx = rng.choice([1, 2, 3, 4, 5, 7, 8, 9, 16, 17]) if rng.random() < 0.6 else rng.randrange(1, maxcap + 1)
        ln = rng.choice([0, mx, rng.randrange(0, mx + 1), rng.randrange(0, mx + 1)])
        off = rng.choice([0, mx, rng.randrange(0, mx + 1), rng.randrange(0, mx + 1)])
        return mx, off, rbytes(rng, ln)

    def gen_op(self, rng, mx, ln):
        free = mx - ln
        op = rng.choice(OPS1 + ["push", "unshift", "pop", "shift", "crop", "align"])
        around = lambda v: max(0, v + rng.choice([-2, -1, 0, 0, 1]))
        anyn = lambda top: rng.choice([0, 1, around(top), rng.randrange(0, top + 2)])
        if op in ("push", "unshift"):
            n = anyn(free)
            return [op, hx(rbytes(rng, n))], (mx, ln + n if (n <= free and free > 0) else ln)
        if op in ("pop", "shift"):
            n = anyn(ln)
            h = rng.choice([0, 1, 1])
            return [op, str(n), str(h)], (mx, ln - n if n <= ln and h else ln)  # approx when h=0
        if op in ("crop", "get", "set", "setz"):
            p = anyn(ln)
            n = anyn(max(0, ln - p))
            if op == "set":
                return [op, str(p), hx(rbytes(rng, n))], (mx, ln)
            if op == "crop":
                return [op, str(p), str(n)], (mx, ln - n if p + n <= ln else ln)
            return [op, str(p), str(n)], (mx, ln)
        if op == "align":
            return [op, str(rng.choice([0, 0, around(free), rng.randrange(0, mx + 2)]))], (mx, ln)
        if op == "resize":
            n = rng.choice([around(ln), around(mx), rng.randrange(1, mx + 9), 0 if rng.random() < 0.1 else mx])
            return [op, str(n)], (n, min(n, ln))
        if op == "prepare":
            n = anyn(free)
            nm = mx if n <= free else ((n - free + mx) + 7) // 8 * 8
            return [op, str(n)], (nm, ln)
        if op == "find":
            return [op, str(rng.choice([1, 1, 2, 3, 4])), str(rng.choice([0, 1, 0x41, 0xff]))], (mx, ln)
        return ["string"], (mx, ln)

    def generate(self, rng, tier):
        cases = []
        capmax = 5 if tier == "quick" else 8
        # exhaustive single-operation sweep over small start states
        for mx in range(1, capmax + 1):
            for off in range(0, mx + 1):
                for ln in range(0, mx + 1):
                    c = hx([0x10 + i for i in range(ln)])
                    for o in single_ops(mx, ln):
                        cases.append(" ".join([str(mx), str(off), c] + o))
        nh = 2500 if tier == "quick" else 60000
        for i in range(nh):
            big = (i % 250 == 0)
            mx, off, c = self.gen_state(rng, 6000 if big else 300 if i % 10 == 0 else 24)
            if big and tier != "quick":
                mx = rng.randrange(2100, 6000)
                off = rng.randrange(1025, mx - 1024)
                c = rbytes(rng, rng.randrange(mx - 20, mx + 1))
            ln = len(c)
            ops = []
            m, l = mx, ln
            for _ in range(rng.choice([1, 2, 3, 5, 8, 12, 20]) if not big else 3):
                if m == 0:
                    o, (m, l) = ["prepare", str(rng.randrange(1, 20))], (8, 0)
                    o, (m, l) = self.gen_op(rng, 0, 0) if False else (o, (((int(o[1]) + 7) // 8) * 8, 0))
                else:
                    o, (m, l) = self.gen_op(rng, m, l)
                ops += o
            cases.append(" ".join([str(mx), str(off), hx(c)] + ops))
        return cases


PROP = C13()
