"""C13 — ring-buffer queue is a faithful byte deque (mptcore/queue/*.c, mpt++/io_queue.cpp, mpt++/queue.cpp,
raw message mode of decode_queue: queue_recv.c / queue_peek.c / queue_shift.c without decoder)."""
import hashlib
import os
import random
import vcheck
from vcheck import DiffProperty

# io::queue::write ends its loop on the FIRST SUCCESSFUL mpt_qpush (`if (!mpt_qpush(..))`, the function returns
# 0 or a positive segment mask on success and a negative code on failure): it stores one element and reports 0, or,
# depending on where the ring wraps, goes on.  docs/C13_io_write.diff repairs the test; the model (coq/C13/QueueModel.v
# iowrite_loop) is the code AS PATCHED.  Until the patch is committed to /repo the write cases that enter the loop
# (part > 0 and count > 0) are not generated; replay of the defect: docs/C13_io_write_replay.json.
# Flip to True once /repo contains the patch.
IO_WRITE_PATCHED = True


def hx(bs):
    return "".join("%02x" % b for b in bs) if bs else "-"


def rbytes(rng, n):
    # small alphabet with zeros so that find/string have something to do
    return [rng.choice([0, 1, 2, 0x41, 0x42, 0xff, rng.randrange(256)]) for _ in range(n)]


OPS1 = ["push", "unshift", "pop", "shift", "crop", "get", "set", "setz", "align", "resize", "prepare", "find", "string"]
IOOPS = ["ioprepare", "iopush", "iopushz", "iounshift", "iounshiftz", "iopop", "ioshift", "iowrite", "ioread", "iopeek", "ionew"]
EOPS = ["epush", "efin", "erev", "etrim"]
DOPS = ["dset", "drecv", "dpeek", "dshift", "dadv", "dcur"]
ARITY = {"push": 1, "unshift": 1, "pop": 2, "shift": 2, "crop": 2, "get": 2, "set": 2, "setz": 2, "align": 1,
         "resize": 1, "prepare": 1, "find": 2, "string": 0,
         "ioprepare": 1, "iopush": 1, "iopushz": 1, "iounshift": 1, "iounshiftz": 1, "iopop": 2, "ioshift": 2,
         "iowrite": 3, "ioread": 2, "iopeek": 1, "ionew": 1,
         "epush": 1, "efin": 0, "erev": 0, "etrim": 1, "xround": 1,
         "dset": 5, "drecv": 0, "dpeek": 2, "dshift": 0, "dadv": 0, "dcur": 1}


def grow_cap(cap, used, n):
    """capacity after mpt_queue_prepare(n)"""
    if cap - used < n:
        want = n - (cap - used) + cap
        return want + 7 - ((want - 1) % 8)
    return cap


def write_ok(cnt, part):
    return IO_WRITE_PATCHED or not (cnt and part)


def io_single_ops(mx, ln):
    """every io::queue method with every interesting argument for a (max,len) state"""
    out = []
    free = mx - ln
    for n in range(0, free + 3):
        d = hx([(0xc0 + i) & 0xff for i in range(n)])
        out.append(["iopush", d])
        out.append(["iounshift", d])
        out.append(["iopushz", str(n)])
        out.append(["iounshiftz", str(n)])
        out.append(["ioprepare", str(n)])
    out.append(["iopush", hx([(0xc0 + i) & 0xff for i in range(free + 9)])])
    out.append(["iounshift", hx([(0xc0 + i) & 0xff for i in range(free + 9)])])
    for n in range(0, ln + 2):
        for h in (0, 1):
            out.append(["iopop", str(n), str(h)])
            out.append(["ioshift", str(n), str(h)])
        out.append(["iopeek", str(n)])
    for cnt in range(0, 4):
        for part in range(0, ln + 2):
            out.append(["ioread", str(cnt), str(part)])
        for part in range(0, 4):
            if write_ok(cnt, part):
                out.append(["iowrite", str(cnt), str(part), hx([(0xd0 + i) & 0xff for i in range(cnt * part)])])
    for n in (0, 1, 8, 9):
        out.append(["ionew", str(n)])
    return out


def e_single_ops(mx, ln):
    out = [["efin"], ["erev"]]
    for n in range(0, mx - ln + 2):
        out.append(["epush", hx([(0xc0 + i) & 0xff for i in range(n)])])
    for n in range(0, ln + 2):
        out.append(["etrim", str(n)])
    return out


def d_single_cases(mx, off, ln):
    """raw decode_queue: every small decoder state x every single operation for one ring state"""
    c = hx([0x10 + i for i in range(ln)])
    head = [str(mx), str(off), c]
    ops = [["drecv"], ["dshift"], ["dadv"], ["dcur", "0"], ["dcur", "1"]]
    for n in sorted(set([0, 1, ln, ln + 1])):
        ops.append(["dpeek", str(n), "0"])
        ops.append(["dpeek", str(n), "1"])
    out = []
    vals = sorted(set([0, 1, ln, ln + 1]))
    for curr in sorted(set([0, 1, ln + 1])):
        for pos in vals:
            for dl in sorted(set([0, 1, ln])):
                for msg in [-1] + vals[:3]:
                    for ctx in ((0, 1) if (pos == 0 and dl == 0 and curr) else (0,)):
                        st = ["dset", str(curr), str(pos), str(dl), str(msg), str(ctx)]
                        for o in ops:
                            if curr == 0 and o[0] == "dshift" and pos:
                                continue
                            out.append(" ".join(head + st + o))
    return out


def single_ops(mx, ln):
    """every operation with every interesting argument for a (max,len) state"""
    out = []
    for n in range(0, mx - ln + 2):
        d = hx([(0xa0 + i) & 0xff for i in range(n)])
        out.append(["push", d])
        out.append(["unshift", d])
    for n in range(0, ln + 2):
        for h in (0, 1):
            out.append(["pop", str(n), str(h)])
            out.append(["shift", str(n), str(h)])
    for p in range(0, ln + 2):
        for n in range(0, ln - p + 2 if p <= ln else 2):
            out.append(["crop", str(p), str(n)])
            out.append(["get", str(p), str(n)])
            out.append(["set", str(p), hx([(0xb0 + i) & 0xff for i in range(n)])])
            out.append(["setz", str(p), str(n)])
    for p in range(0, mx + 2):
        out.append(["align", str(p)])
    for n in range(0, mx + 3):
        out.append(["resize", str(n)])
        out.append(["prepare", str(n)])
    for e in (1, 2, 3):
        for k in (0x41, 0x00):
            out.append(["find", str(e), str(k)])
    out.append(["string"])
    return out


class C13(DiffProperty):
    pid = "C13"
    claimed = True
    coq_dir = "C13"
    extract_vo = "C13/Extract.vo"
    mlname = "c13_model"
    driver = "c13_driver.ml"
    harness_src = "c13_queue.c"
    libs = ["mptcore"]
    # the cases that use the mpt++ classes run in a second binary; mpt++/io_queue.cpp and mpt++/queue.cpp are
    # compiled into its translation unit
    cxx_harness_src = "c13_cxx.cpp"
    cxx_libs = ["mpt++", "mptcore"]
    rule = ("cases = start state (capacity, start offset incl. wrapped and off=max, fill, bytes) + operation history. Three "
            "kinds: (a) C operations push/unshift/pop/shift(with and without target buffer)/crop/get/set/zero-set/align/"
            "resize/prepare/find/string mixed with the io::queue methods prepare/push/unshift(data and zero fill)/pop/shift"
            "(with and without target)/write/read/peek/destructor+constructor on the same queue; (b) raw encode_queue: "
            "push/finish/revert/trim; (c) a message through encode_queue(COBS) into decode_queue(COBS): push, terminate, "
            "trim, advance, current_message; (d) decode_queue WITHOUT decoder (raw message mode): any installed decoder state "
            "(curr, pos, len, msg, ctx) or the constructor's, then mpt_queue_recv / mpt_queue_peek (with and without target, "
            "every max) / mpt_queue_shift / decode_queue::advance / current_message (with and without room for the second "
            "part) mixed with the C operations on the embedded queue (data arrives by push, is taken away by crop/shift/pop, "
            "the ring is moved by align/resize/prepare). quick: every start state with capacity<=5 x every single C operation, and "
            "capacity<=4 x every single io::queue / encode_queue method, capacity<=3 x every small decoder state x every "
            "single raw decode_queue operation, x every argument value up to one past the limit "
            "(exhaustive), plus random histories with arguments drawn around len, free space and the two segments; "
            "io::queue::write with part>0 and count>0 only once docs/C13_io_write.diff is in the tree (IO_WRITE_PATCHED); "
            "a case is non-trivial when its start state holds data or an operation moves data; distinct = distinct case text")
    modelled = ("mptcore/queue/{qpush,qpost,qpre,qpop,qshift,qunshift,queue_crop,queue_get,queue_set,queue_data,queue_empty,"
                "queue_align,queue_resize,queue_find,queue_string,memrev}.c and the methods of mpt++/io_queue.cpp (io::queue: "
                "compositions of the former; write AS PATCHED by docs/C13_io_write.diff) transcribed in coq/C13/QueueModel.v; "
                "mpt++/queue.cpp encode_queue::push/trim without encoder function together with the raw branch of "
                "mptcore/queue/queue_push.c in coq/C13/EncQueueModel.v; decode_queue without decoder function in "
                "coq/C13/DecQueueModel.v: the raw branch (`!qu->_dec`) of mptcore/queue/queue_recv.c and of queue_peek.c, "
                "queue_shift.c, mpt++/queue.cpp decode_queue::advance / current_message with mptcore/message/message_get.c and "
                "message_read.c underneath (the message as a list of storage fragments, every memcpy a checked read), the "
                "counters as natural numbers (no 2^64 wrap-around); realloc/free and errno kinds are not modelled "
                "(refusals compared as a class); the CODED paths (decode_queue with a decoder: the rest of queue_recv.c / "
                "queue_peek.c, encode_queue with an encoder) are NOT modelled here: they are executed with the COBS codec and "
                "compared with the specification only (the message comes out as it went in, both rings are left empty); "
                "their models and theorems are C02/C03's (coq/Cobs)")
    trusted = ["harness/c13_ops.h (used by c13_queue.c and c13_cxx.cpp) reads the ring back independently ((off+i) mod max) "
               "after every operation",
               "harness/c13_cxx.cpp reaches the protected queue / coder state of the mpt++ objects through subclasses; it "
               "installs decoder states (dset) by writing the five fields of decode_state",
               "realloc is assumed to keep the common prefix and to succeed"]
    level_text = ("proof: Coq theorems C13_step_refines_deque / C13_history_refines_deque / C13_refused_leaves_content / "
                  "C13_memrev_rotates / C13_io_write_complete state, for every capacity, offset, fill and operation history over "
                  "the C functions AND the io::queue methods (no bound), that the transcribed ring-buffer mechanism yields exactly "
                  "the outputs and bytes of a plain byte deque, never accesses outside its storage and leaves refused operations "
                  "without effect; C13_enc_step_refines / C13_enc_history_refines / C13_enc_finished_stable state the same for "
                  "the raw encode_queue against a deque split into finished and unfinished bytes; C13_dec_step_refines / "
                  "C13_dec_history_refines state it for decode_queue without decoder (recv, peek, shift, advance, current_message "
                  "mixed with the C operations, from ANY decoder state) against the deque plus counters, C13_dec_peek_exact / "
                  "C13_dec_current_exact / C13_dec_current_complete that what is read is exactly the announced window of the content "
                  "(and is read whenever it lies inside), C13_dec_only_consumes that this layer never alters stored bytes (it drops at "
                  "most `curr` consumed bytes at the front), C13_dec_raw_never_offers that a freshly constructed raw decode_queue "
                  "never delivers a message (finding); the models are tied to the code "
                  "on every run by differential execution (exhaustive over all small start states x single operations, plus "
                  "random histories) under ASan/UBSan; the coded path of mpt++/queue.cpp is compared with its specification only")
    level_note = ("trusted: Coq kernel; hand transcription of mptcore/queue/*.c, mpt++/io_queue.cpp, mpt++/queue.cpp (validated "
                  "by the correspondence run, not verified); extraction (ExtrOcamlBasic) and OCaml driver; harnesses; realloc "
                  "success and errno kinds not modelled; io::queue::write is modelled as patched (docs/C13_io_write.diff; the "
                  "unpatched loop test is a defect, replay docs/C13_io_write_replay.json) and its loop cases stay switched off "
                  "until the patch is committed; io::queue::peek: the specification accepts any long-enough prefix of the "
                  "content (its exact length depends on the wrap position and is taken from the run); decode_queue::advance / "
                  "current_message and encode_queue WITH a coder function: no model here, specification-level comparison of a COBS "
                  "round trip only (codec theorems are C01/C02/C03); decode_queue WITHOUT decoder: the specification mirrors the "
                  "counter arithmetic of the raw branch as it is coded (which window is 'the message' is not constrained by the deque "
                  "property); what the theorems add is that every read is a slice of the deque content wherever the ring wraps and "
                  "that nothing but consumed front bytes ever disappears; the raw branch never delivers a message from a fresh queue "
                  "and double-counts the window once a message is delivered (docs/notes_C13.md, outside the property's statement, "
                  "not patched); current_message without room for a second part may refuse a message that straddles the wrap "
                  "(implementation's decision, as for pop/shift without target). Theorems are closed under the global context (no axioms).")
    technique = "Coq refinement proof (ring buffer -> byte deque) + differential correspondence check"
    assumptions = ["realloc succeeds", "element comparison callback of mpt_queue_find is pure",
                   "operations with a target buffer are not applied to an unallocated queue (max = 0: memcpy from a null base)",
                   "byte counts stay below 2^63 (io::queue::pop without target computes len - n modulo 2^64)",
                   "decoder counters (curr, pos, len, msg) stay below 2^31 (mpt_queue_peek without target returns len - off through an int)"]

    def split(self, case):
        t = case.split()
        hdr, rest = t[:3], t[3:]
        ops = []
        i = 0
        ar = ARITY
        while i < len(rest):
            n = ar[rest[i]]
            ops.append(rest[i:i + n + 1])
            i += n + 1
        return hdr, ops

    def is_cxx(self, case):
        _, ops = self.split(case)
        return any(o[0] in IOOPS or o[0] in EOPS or o[0] in DOPS or o[0] == "xround" for o in ops)

    def ops_rev(self):
        with open(os.path.join(vcheck.VERIF, "harness", "c13_ops.h"), "rb") as fh:
            return ["-DC13_OPS_REV=0x" + hashlib.sha1(fh.read()).hexdigest()[:8]]

    def evaluate(self, cases, workdir, tagsuffix=""):
        """cases that use the mpt++ classes go to harness/c13_cxx.cpp, the others to harness/c13_queue.c; one model run"""
        rev = self.ops_rev()
        hx_ = vcheck.build_harness(self.harness_src, self.libs, extra=rev)
        mx = vcheck.build_model(self.mlname, self.driver, self.extract_vo)
        ided = ["c%d %s" % (i, c) for i, c in enumerate(cases)]
        c_cases = [l for l, c in zip(ided, cases) if not self.is_cxx(c)]
        x_cases = [l for l, c in zip(ided, cases) if self.is_cxx(c)]
        I, errs = {"I": {}}, []
        if c_cases:
            r, e = vcheck.run_cases(hx_, c_cases, workdir, "impl" + tagsuffix, env=self.harness_env, args=self.harness_args)
            I["I"].update(r.get("I", {})); errs += e
        if x_cases:
            cx = vcheck.build_harness(self.cxx_harness_src, self.cxx_libs, extra=rev)
            r, e = vcheck.run_cases(cx, x_cases, workdir, "implcxx" + tagsuffix, env=self.harness_env, args=self.harness_args)
            I["I"].update(r.get("I", {})); errs += e
        M, e2 = vcheck.run_cases(mx, ided, workdir, "model" + tagsuffix)
        res = []
        for i, c in enumerate(cases):
            k = "c%d" % i
            res.append(self.compare(c, I["I"].get(k), M.get("M", {}).get(k), M.get("S", {}).get(k)))
        return res, errs + e2

    def shrink_candidates(self, case):
        hdr, ops = self.split(case)
        keep1 = 1 if ops and ops[0][0] == "dset" else 0   # the first dset selects the decode_queue harness
        for k in range(keep1, len(ops)):
            yield self.join(hdr, ops[:k] + ops[k + 1:])
        for k in range(1, len(ops)):
            yield self.join(hdr, ops[:k])
        # shrink start state
        mx, off, c = int(hdr[0]), int(hdr[1]), hdr[2]
        if c != "-" and len(c) > 2:
            yield self.join([hdr[0], hdr[1], c[:-2]], ops)
            yield self.join([hdr[0], hdr[1], c[2:]], ops)
        ln = 0 if c == "-" else len(c) // 2
        if mx > ln and mx > 1:
            yield self.join([str(mx - 1), str(min(off, mx - 1)), c], ops)
        if off > 0:
            yield self.join([hdr[0], str(off - 1), c], ops)

    def classify(self, case):
        hdr, ops = self.split(case)
        mx, off = int(hdr[0]), int(hdr[1])
        ln = 0 if hdr[2] == "-" else len(hdr[2]) // 2
        cl = set()
        if ln:
            cl.add("nonempty")
        if off + ln > mx:
            cl.add("wrapped-start")
        if ln == mx:
            cl.add("full-start")
        if off == mx:
            cl.add("off=max")
        for o in ops:
            cl.add("op:" + o[0])
            if o[0] in IOOPS:
                cl.add("io::queue")
            if o[0] in EOPS:
                cl.add("encode_queue-raw")
            if o[0] == "xround":
                cl.add("coded-round-trip")
            if o[0] in DOPS:
                cl.add("decode_queue-raw")
            if o[0] == "dset" and o[1:] != ["0", "0", "0", "-1", "0"]:
                cl.add("decode_queue-raw-installed-state")
            if o[0] == "dset" and o[4] != "-1":
                cl.add("decode_queue-raw-delivered-message")
            if o[0] == "dset" and o[1] != "0":
                cl.add("decode_queue-raw-consumed-input")
        if len(ops) > 1:
            cl.add("history")
        if any(o[0] in IOOPS for o in ops) and any(o[0] in OPS1 for o in ops):
            cl.add("history-mixing-C-and-C++")
        if mx > 2048:
            cl.add("memrev-blockswap-size")
        return cl

    def gen_state(self, rng, maxcap):
        mx = rng.choice([1, 2, 3, 4, 5, 7, 8, 9, 16, 17]) if rng.random() < 0.6 else rng.randrange(1, maxcap + 1)
        ln = rng.choice([0, mx, rng.randrange(0, mx + 1), rng.randrange(0, mx + 1)])
        off = rng.choice([0, mx, rng.randrange(0, mx + 1), rng.randrange(0, mx + 1)])
        return mx, off, rbytes(rng, ln)

    def corpus(self):
        """regression cases for io::queue::write wait for the patch like the generated ones"""
        keep = []
        for c in DiffProperty.corpus(self):
            _, ops = self.split(c)
            if all(o[0] != "iowrite" or write_ok(int(o[1]), int(o[2])) for o in ops):
                keep.append(c)
        return keep

    def gen_io_op(self, rng, mx, ln):
        """one io::queue method; returns (tokens, (max, len) afterwards)"""
        free = mx - ln
        around = lambda v: max(0, v + rng.choice([-2, -1, 0, 0, 1]))
        anyn = lambda top: rng.choice([0, 1, around(top), rng.randrange(0, top + 2)])
        if mx == 0:
            op = rng.choice(["ioprepare", "iopush", "iounshift", "iopushz", "ionew"])
            n = rng.randrange(1, 12)
            if op == "ioprepare":
                return [op, str(n)], (grow_cap(0, 0, n), 0)
            if op == "ionew":
                return [op, str(n)], (grow_cap(0, 0, n), 0)
            if op == "iopushz":
                return [op, str(n)], (grow_cap(0, 0, n), n)
            return [op, hx(rbytes(rng, n))], (grow_cap(0, 0, n), n)
        op = rng.choice(IOOPS + ["iopush", "iounshift", "iopop", "ioshift", "iopeek", "ioread", "iowrite"])
        if op in ("iopush", "iounshift", "iopushz", "iounshiftz"):
            n = rng.choice([anyn(free), anyn(free), free + rng.randrange(1, 20)])
            m2 = grow_cap(mx, ln, n)
            l2 = ln + n if (n or m2 - ln) else ln
            if op.endswith("z"):
                return [op, str(n)], (m2, l2)
            return [op, hx(rbytes(rng, n))], (m2, l2)
        if op == "ioprepare":
            n = rng.choice([anyn(free), free + rng.randrange(1, 20)])
            return [op, str(n)], (grow_cap(mx, ln, n), ln)
        if op in ("iopop", "ioshift"):
            n = anyn(ln)
            return [op, str(n), str(rng.choice([0, 1]))], (mx, ln - n if n <= ln else ln)
        if op == "iopeek":
            return [op, str(rng.choice([0, 0, anyn(ln), anyn(max(0, min(ln, mx - 1)))]))], (mx, ln)
        if op == "ioread":
            part = rng.choice([0, 1, 1, 2, 3, around(ln)])
            cnt = rng.choice([0, 1, 2, 3, (ln // part if part else 2), (ln // part + 1 if part else 3)])
            took = min(cnt, ln // part) if part else 0
            return [op, str(cnt), str(part)], (mx, ln - took * part)
        if op == "iowrite":
            part = rng.choice([0, 1, 1, 2, 3, 5])
            cnt = rng.choice([0, 1, 2, 3, 4, around(free // part if part else free)])
            if not write_ok(cnt, part):
                if rng.random() < 0.5:
                    part = 0
                else:
                    cnt = 0
            if part == 0:
                return [op, str(cnt), "0", "-"], (grow_cap(mx, ln, cnt), ln)
            return [op, str(cnt), str(part), hx(rbytes(rng, cnt * part))], (grow_cap(mx, ln, cnt * part), ln + cnt * part)
        n = rng.choice([0, 0, 1, rng.randrange(1, 20)])
        return ["ionew", str(n)], (grow_cap(0, 0, n), 0)

    def gen_e_op(self, rng, mx, ln, done):
        """one raw encode_queue operation; returns (tokens, (len, done) afterwards)"""
        free = mx - ln
        around = lambda v: max(0, v + rng.choice([-2, -1, 0, 0, 1]))
        op = rng.choice(["epush", "epush", "epush", "efin", "erev", "etrim", "etrim"])
        if op == "epush":
            n = rng.choice([0, 1, around(free), rng.randrange(0, free + 3), rng.randrange(0, mx + 3)])
            if n == 0:
                return [op, "-"], (ln, ln)
            return [op, hx(rbytes(rng, n))], (ln + min(n, free), done)
        if op == "efin":
            return [op], (ln, ln)
        if op == "erev":
            return [op], ((done, done) if ln > done else (ln, done))
        n = rng.choice([0, 1, around(done), rng.randrange(0, done + 2)])
        return [op, str(n)], ((ln - n, done - n) if n <= done else (ln, done))

    def gen_d_op(self, rng, ln):
        """one operation of a raw decode_queue"""
        around = lambda v: max(0, v + rng.choice([-2, -1, 0, 0, 1]))
        op = rng.choice(["drecv", "drecv", "drecv", "dadv", "dadv", "dpeek", "dpeek", "dcur", "dshift", "dset"])
        if op == "dpeek":
            return [op, str(rng.choice([0, 1, around(ln), rng.randrange(0, ln + 3)])), str(rng.choice([0, 1, 1]))]
        if op == "dcur":
            return [op, str(rng.choice([0, 1, 1]))]
        if op == "dset":
            return self.gen_d_state(rng, ln)
        return [op]

    def gen_d_state(self, rng, ln):
        around = lambda v: max(0, v + rng.choice([-2, -1, 0, 0, 1]))
        small = lambda: rng.choice([0, 0, 1, 2, around(ln), rng.randrange(0, ln + 2)])
        pos = small()
        rest = max(0, ln - pos)
        msg = rng.choice([-1, -1, 0, 1, rest, around(rest), rng.randrange(0, rest + 2)])
        dl = rng.choice([0, 1, rest, around(rest), max(0, rest - max(msg, 0)), rng.randrange(0, rest + 2)])
        curr = rng.choice([0, 0, 0, pos, around(pos), small()])
        return ["dset", str(curr), str(pos), str(dl), str(msg), str(rng.choice([0, 0, 0, 1]))]

    def gen_op(self, rng, mx, ln):
        free = mx - ln
        op = rng.choice(OPS1 + ["push", "unshift", "pop", "shift", "crop", "align"])
        around = lambda v: max(0, v + rng.choice([-2, -1, 0, 0, 1]))
        anyn = lambda top: rng.choice([0, 1, around(top), rng.randrange(0, top + 2)])
        if op in ("push", "unshift"):
            n = anyn(free)
            return [op, hx(rbytes(rng, n))], (mx, ln + n if (n <= free and free > 0) else ln)
        if op in ("pop", "shift"):
            n = anyn(ln)
            h = rng.choice([0, 1, 1])
            return [op, str(n), str(h)], (mx, ln - n if n <= ln and h else ln)  # approx when h=0
        if op in ("crop", "get", "set", "setz"):
            p = anyn(ln)
            n = anyn(max(0, ln - p))
            if op == "set":
                return [op, str(p), hx(rbytes(rng, n))], (mx, ln)
            if op == "crop":
                return [op, str(p), str(n)], (mx, ln - n if p + n <= ln else ln)
            return [op, str(p), str(n)], (mx, ln)
        if op == "align":
            return [op, str(rng.choice([0, 0, around(free), rng.randrange(0, mx + 2)]))], (mx, ln)
        if op == "resize":
            n = rng.choice([around(ln), around(mx), rng.randrange(1, mx + 9), 0 if rng.random() < 0.1 else mx])
            return [op, str(n)], (n, min(n, ln))
        if op == "prepare":
            n = anyn(free)
            nm = mx if n <= free else ((n - free + mx) + 7) // 8 * 8
            return [op, str(n)], (nm, ln)
        if op == "find":
            return [op, str(rng.choice([1, 1, 2, 3, 4])), str(rng.choice([0, 1, 0x41, 0xff]))], (mx, ln)
        return ["string"], (mx, ln)

    def generate(self, rng, tier):
        cases = []
        capmax = 5 if tier == "quick" else 8
        # exhaustive single-operation sweep over small start states
        for mx in range(1, capmax + 1):
            for off in range(0, mx + 1):
                for ln in range(0, mx + 1):
                    c = hx([0x10 + i for i in range(ln)])
                    for o in single_ops(mx, ln):
                        cases.append(" ".join([str(mx), str(off), c] + o))
        nh = 2500 if tier == "quick" else 60000
        for i in range(nh):
            big = (i % 250 == 0)
            mx, off, c = self.gen_state(rng, 6000 if big else 300 if i % 10 == 0 else 24)
            if big and tier != "quick":
                mx = rng.randrange(2100, 6000)
                off = rng.randrange(1025, mx - 1024)
                c = rbytes(rng, rng.randrange(mx - 20, mx + 1))
            ln = len(c)
            ops = []
            m, l = mx, ln
            for _ in range(rng.choice([1, 2, 3, 5, 8, 12, 20]) if not big else 3):
                if m == 0:
                    o, (m, l) = ["prepare", str(rng.randrange(1, 20))], (8, 0)
                    o, (m, l) = self.gen_op(rng, 0, 0) if False else (o, (((int(o[1]) + 7) // 8) * 8, 0))
                else:
                    o, (m, l) = self.gen_op(rng, m, l)
                ops += o
            cases.append(" ".join([str(mx), str(off), hx(c)] + ops))
        cases += self.generate_cxx(rng, tier)
        return cases

    def generate_cxx(self, rng, tier):
        """cases for the mpt++ classes (harness/c13_cxx.cpp)"""
        cases = []
        quick = tier == "quick"
        capmax = 4 if quick else 6
        for mx in range(1, capmax + 1):
            for off in range(0, mx + 1):
                for ln in range(0, mx + 1):
                    c = hx([0x10 + i for i in range(ln)])
                    for o in io_single_ops(mx, ln) + e_single_ops(mx, ln):
                        cases.append(" ".join([str(mx), str(off), c] + o))
        # histories over io::queue methods mixed with the C operations
        for i in range(1500 if quick else 30000):
            mx, off, c = self.gen_state(rng, 300 if i % 10 == 0 else 24)
            m, l = mx, len(c)
            ops = []
            mix = rng.choice([0.0, 0.3, 0.5])
            for _ in range(rng.choice([1, 2, 3, 5, 8, 12, 20])):
                if m and rng.random() < mix:
                    o, (m, l) = self.gen_op(rng, m, l)
                else:
                    o, (m, l) = self.gen_io_op(rng, m, l)
                ops += o
            cases.append(" ".join([str(mx), str(off), hx(c)] + ops))
        # histories of a raw encode_queue
        for i in range(600 if quick else 12000):
            mx, off, c = self.gen_state(rng, 300 if i % 10 == 0 else 24)
            l = d = len(c)
            ops = []
            for _ in range(rng.choice([1, 2, 3, 5, 8, 12, 20])):
                o, (l, d) = self.gen_e_op(rng, mx, l, d)
                ops += o
            cases.append(" ".join([str(mx), str(off), hx(c)] + ops))
        # raw decode_queue: every small decoder state x single operation, then histories in which data
        # arrives (push), is taken away (crop / shift / pop) and the queue is moved (align / resize)
        # between recv / peek / shift / advance / current_message
        for mx in range(1, (3 if quick else 5) + 1):
            for off in range(0, mx + 1):
                for ln in range(0, mx + 1):
                    cases += d_single_cases(mx, off, ln)
        for i in range(2500 if quick else 40000):
            mx, off, c = self.gen_state(rng, 300 if i % 10 == 0 else 24)
            m, l = mx, len(c)
            fresh = rng.random() < 0.4
            ops = ["dset", "0", "0", "0", "-1", "0"] if fresh else self.gen_d_state(rng, l)
            mix = rng.choice([0.2, 0.4, 0.6])
            for _ in range(rng.choice([1, 2, 3, 5, 8, 12, 20])):
                if m and rng.random() < mix:
                    if rng.random() < 0.5:
                        n = rng.choice([1, 2, 3, max(0, m - l), rng.randrange(0, max(1, m - l) + 2)])
                        o, (m, l) = ["push", hx(rbytes(rng, n))], (m, l + n if (n <= m - l and m > l) else l)
                    else:
                        o, (m, l) = self.gen_op(rng, m, l)
                    if o[0] in ("find", "string"):
                        continue
                else:
                    o = self.gen_d_op(rng, l)
                    if fresh and o[0] == "dset":
                        continue
                    l = max(0, l - 2) if o[0] in ("drecv", "dadv", "dshift") else l  # approximate
                ops += o
            cases.append(" ".join([str(mx), str(off), hx(c)] + ops))
        # LARGE rings: mpt_memrev only swaps blocks (mpt_memswap) when BOTH parts of the wrapped data exceed its 1024 byte
        # buffer, and takes its second branch when only the upper part fits; rings of up to a few hundred bytes never get there
        for i in range(60 if quick else 600):
            mx = rng.choice([2100, 2560, 3000, 4100, 5000])
            kind = i % 6
            if kind == 0:      # both parts > 1024, lower part smaller
                off = mx - rng.randrange(1030, 1060); ln = rng.randrange(min(mx, (mx - off) + 1030), mx + 1)
            elif kind == 1:    # both parts > 1024, upper part smaller
                off = rng.randrange(1030, 1100); ln = mx - rng.randrange(0, 3)
            elif kind == 2:    # part up to the ring end > 1024, wrapped part small
                off = mx - rng.randrange(1030, 1500); ln = (mx - off) + rng.randrange(1, 1024)
            elif kind == 3:    # part up to the ring end small, wrapped part > 1024
                off = mx - rng.randrange(1, 1000); ln = (mx - off) + rng.randrange(1030, 1090)
            elif kind == 4:    # equal parts
                off = mx // 2; ln = mx if mx % 2 == 0 else mx - 1
            else:
                off = rng.randrange(0, mx + 1); ln = rng.randrange(0, mx + 1)
            ln = max(0, min(ln, mx))
            ops = [["align", "0"], ["align", str(rng.randrange(0, mx + 1))], ["resize", str(mx + rng.choice([1, 64, 1024]))],
                   ["prepare", str(mx - ln + rng.choice([1, 100]))]][rng.randrange(4)]
            ops = ops + ["get", "0", "8", "get", str(max(0, ln - 8)), "8", "align", "0"]
            cases.append(" ".join([str(mx), str(off % (mx + 1)), hx(rbytes(rng, ln))] + ops))
        # messages through encode_queue(COBS) -> decode_queue(COBS); both rings start empty at <off>
        for i in range(250 if quick else 5000):
            mx = rng.choice([1, 2, 3, 5, 8, 16, 17, 64, rng.randrange(1, 400)])
            off = rng.choice([0, mx - 1, rng.randrange(0, mx)])
            ops = []
            for _ in range(rng.choice([1, 1, 2, 3, 6])):
                n = rng.choice([0, 1, 2, 3, rng.randrange(0, 12), rng.randrange(0, 40), rng.randrange(0, 600) if i % 5 == 0 else 4])
                kind = rng.random()
                if kind < 0.3:
                    p = [rng.choice([0, 0, 1, 0xff]) for _ in range(n)]
                elif kind < 0.5:
                    p = [rng.randrange(1, 256) for _ in range(n)]
                else:
                    p = rbytes(rng, n)
                ops += ["xround", hx(p)]
            cases.append(" ".join([str(mx), str(off), "-"] + ops))
        return cases


PROP = C13()
