"""C11 — event dispatch reaches exactly the registered handler (mptcore/event/*.c, misc/hash_djb2.c, mpt++/event.cpp)."""
from vcheck import DiffProperty, ASAN_ENV

M64 = (1 << 64) - 1
ARITY = {"set": 1, "xset": 1, "unset": 1, "cset": 2, "get": 1, "xget": 1, "clear": 0, "res": 1, "xres": 1,
         "emit": 2, "hash": 2, "serr": 1, "sdef": 1, "ctx": 0, "fini": 0, "xfini": 0}


def djb2(bs):
    """mptcore/misc/hash_djb2.c with the (signed) char sign extension"""
    h = 5381
    for b in bs:
        h = ((h * 33) & M64) ^ (b if b < 128 else (b | 0xffffffffffffff00))
    return h


def hx(bs):
    return "".join("%02x" % b for b in bs)


WORDS = [b"go", b"stop", b"x", b"\xc3\xa9t\xc3\xa9", b"q" * 130]
HASHIDS = [djb2(w) for w in WORDS]
SMALL = [0, 1, 2, 3, 4, 5, 0xff]
EDGE = [6, 7, 8, 0x7f, 0x80, M64, M64 - 1]
RETS = [0, 1, 2, 3, 4, 5, 6, 7, 0x10000, 0x10001, -1, -2, -16, -128, -129, -200]


def frag_tok(data, rng, nfr=None):
    """cut the bytes into 1..4 fragments, empty ones allowed"""
    if nfr is None:
        nfr = rng.choice([1, 1, 2, 2, 3, 4])
    cuts = sorted(rng.randrange(0, len(data) + 1) for _ in range(nfr - 1))
    parts, p = [], 0
    for c in cuts + [len(data)]:
        parts.append(data[p:c])
        p = c
    return "f" + ",".join(hx(x) for x in parts)


def pick_id(rng, live=None):
    """live: ids the generator believes registered (rough tracking); used to aim at registered ids"""
    r = rng.random()
    if live and r < 0.55:
        return rng.choice(sorted(live))
    if r < 0.70:
        return rng.choice(SMALL)
    if r < 0.85:
        return rng.choice(HASHIDS)
    return rng.choice(EDGE)


def rsp_tok(rng, live=None):
    ret = rng.choice(RETS)
    r = rng.random()
    sid = "-" if r < 0.6 else ("0" if r < 0.8 else "%x" % pick_id(rng, live))
    return "%d:%s" % (ret, sid)


def reply_tok(rng, opno):
    return "0" if rng.random() < 0.6 else str(9000 + opno)


def emit_ev(rng, opno, live=None):
    r = rng.random()
    if r < 0.12:
        return "N"
    rp = reply_tok(rng, opno)
    if r < 0.55:
        return "%x:n:%s" % (pick_id(rng, live), rp)
    if r < 0.60:
        return "%x:%s:%s" % (pick_id(rng), rng.choice(["f", "f,", "f,,"]), rp)      # empty message
    small = [i for i in (live or []) if i < 256]
    i = rng.choice(small) if small and rng.random() < 0.6 else rng.choice(SMALL)
    data = bytes([i]) + bytes(rng.randrange(256) for _ in range(rng.randrange(0, 4)))
    return "%x:%s:%s" % (pick_id(rng), frag_tok(data, rng), rp)


def hash_ev(rng, opno, live=None):
    r = rng.random()
    if r < 0.05:
        return "N"
    rp = reply_tok(rng, opno)
    if r < 0.10:
        return "0:n:" + rp
    w = rng.choice(WORDS if rng.random() < 0.8 else [b"nope", b"", b"   "])
    lw = [x for x in WORDS if djb2(x) in (live or [])]
    if lw and rng.random() < 0.6:
        w = rng.choice(lw)
    r = rng.random()
    if r < 0.55:     # command message, blank separated
        data = bytes([4, 0x20]) + rng.choice([b"", b" ", b"\t "]) + w + rng.choice([b"", b" arg", b" a b", b"\n"])
    elif r < 0.70:   # command message, graphic separator
        data = bytes([4, 0x2c]) + w + rng.choice([b"", b",arg"])
    elif r < 0.85:   # other message type: text up to NUL
        data = bytes([rng.choice([0, 1, 5]), 0x20]) + w + rng.choice([b"", b"\0", b"\0rest"])
    elif r < 0.92:   # command message with separator 0
        data = bytes([4, 0]) + w + rng.choice([b"", b"\0tail"])
    else:            # truncated header
        data = rng.choice([b"", b"\x04"])
    nfr = None
    if len(w) > 128:
        nfr = rng.choice([1, 2, 3])
    return "%x:%s:%s" % (pick_id(rng), frag_tok(data, rng, nfr), rp)


def gen_op(rng, opno, cxx, live):
    r = rng.random()
    if r < 0.20:
        i = pick_id(rng) if rng.random() < 0.8 else pick_id(rng, live)
        live.add(i)
        return [rng.choice(["set", "xset"]) if cxx else "set", "%x" % i]
    if r < 0.28:
        i = pick_id(rng, live)
        live.discard(i)
        return ["unset", "%x" % i]
    if r < 0.36:
        i = pick_id(rng, live)
        h = rng.choice(["0", "1", "1"])
        (live.add if h == "1" else live.discard)(i)
        return ["cset", "%x" % i, h]
    if r < 0.40:
        return [rng.choice(["get", "xget"]), "%x" % pick_id(rng, live)]
    if r < 0.42:
        live.clear()
        return ["clear"]
    if r < 0.52:
        return [rng.choice(["res", "xres"]), str(rng.choice([0, 1, 1, 1, 2, 3, 4, 8, 9]))]
    if r < 0.78:
        return ["emit", emit_ev(rng, opno, live), rsp_tok(rng, live)]
    if r < 0.88:
        return ["hash", hash_ev(rng, opno, live), rsp_tok(rng, live)]
    if r < 0.91:
        return ["serr", rng.choice(["0", "1", "1"])]
    if r < 0.95:
        return ["sdef", "%x" % pick_id(rng, live)]
    if r < 0.98:
        return ["ctx"]
    live.clear()
    return ["fini"]


def flat(ops):
    return " ".join(t for o in ops for t in o)


def scenarios():
    """hand-written histories aimed at the case splits of the proofs"""
    S = []
    E = lambda i, rsp="0:-": ["emit", "%x:n:0" % i, rsp]
    # growth past the first allocation (2 slots), every id then reached; teardown
    ids = [1, 2, 3, 4, 5, 0xff, 0]
    S.append([["set", "%x" % i] for i in ids] + [E(i) for i in ids] + [["fini"], E(1)])
    # re-registration of a freed slot, last table entry, replace through command_set
    S.append([["set", "1"], ["set", "2"], ["set", "3"], ["unset", "1"], E(1), ["set", "4"], E(4), E(3), ["cset", "3", "1"], E(3),
              ["cset", "2", "0"], E(2), ["set", "2"], E(2), ["fini"]])
    # reserve on a raw table: ids, compaction after unset, search below a high id
    S.append([["res", "1"], ["res", "1"], ["set", "ff"], ["res", "1"], ["unset", "1"], ["res", "1"], ["res", "1"], E(1), E(2), E(3), ["fini"]])
    S.append([["res", "1"], ["set", "ffffffffffffffff"], ["set", "0"], ["res", "8"], E(0), ["fini"]])
    S.append([["res", "1"], ["set", "7f"], ["set", "1"], ["set", "2"], ["unset", "1"], ["res", "1"], E(1), E(3), ["clear"], ["res", "1"], ["fini"]])
    # reserve on a typed table is refused after compaction
    S.append([["set", "1"], ["set", "2"], ["unset", "1"], ["res", "1"], E(2), ["fini"]])
    # default bookkeeping
    S.append([["set", "1"], ["set", "2"], E(1, "1:-"), ["emit", "N", "0:-"], E(2, "3:-"), ["emit", "N", "1:0"], ["emit", "N", "0:-"],
              E(1, "1:-"), ["unset", "1"], ["emit", "N", "0:-"], ["emit", "N", "0:-"], ["sdef", "2"], ["sdef", "7"], ["emit", "N", "5:-"]])
    # fallback: builtin, replaced, removed; reply context of the dispatcher
    S.append([E(3), ["emit", "0:n:0", "0:-"], ["emit", "0:f00:0", "0:-"], ["ctx"], E(3), ["emit", "3:n:77", "0:-"], ["serr", "1"], E(3, "-2:-"),
              E(3, "-200:-"), ["serr", "0"], E(3), ["serr", "1"], ["xfini"]])
    # hash dispatch
    for w in WORDS[:4]:
        hid = "%x" % djb2(w)
        S.append([["set", hid], ["hash", "0:f0420%s:0" % hx(w), "0:-"], ["hash", "0:f04,20,%s20,61:5" % hx(w), "-1:-"],
                  ["hash", "0:f0020%s00:0" % hx(w), "6:1"], ["unset", hid], ["hash", "0:f0420%s:5" % hx(w), "0:-"], ["serr", "0"],
                  ["hash", "0:f0420%s:5" % hx(w), "0:-"], ["fini"]])
    big = WORDS[4]
    S.append([["set", "%x" % djb2(big)], ["hash", "0:f0420%s:0" % hx(big), "0:-"], ["hash", "0:f0420%s,%s:6" % (hx(big[:60]), hx(big[60:])), "0:-"]])
    return [flat(s) for s in S]


def compaction_patterns(n):
    """every live/dead pattern of up to n slots (raw and typed table), then reserve (compaction), every id emitted, teardown"""
    out = []
    for k in range(1, n + 1):
        for mask in range(1 << k):
            for raw in (True, False):
                ops = [["res", "1"]] if raw else []
                ids = [0x10 + j for j in range(k)]
                ops += [["set", "%x" % i] for i in ids]
                ops += [["unset", "%x" % ids[j]] for j in range(k) if mask >> j & 1]
                ops += [["res", "2"], ["res", "1"]]
                ops += [["emit", "%x:n:0" % i, "0:-"] for i in ids + [1, 2, 3]]
                ops += [["fini"]]
                out.append(flat(ops))
    return out


SMALL_OPS = [["set", "1"], ["set", "2"], ["unset", "1"], ["cset", "1", "1"], ["cset", "2", "0"], ["res", "1"], ["clear"],
             ["emit", "1:n:0", "1:-"], ["emit", "2:f02:0", "3:0"], ["emit", "N", "0:-"], ["serr", "1"], ["fini"]]


def small_scope(depth):
    """every history of exactly `depth` operations over SMALL_OPS, closed by a lookup and a NULL event"""
    import itertools
    for seq in itertools.product(SMALL_OPS, repeat=depth):
        yield flat(list(seq) + [["get", "1"], ["emit", "N", "0:-"]])


class C11(DiffProperty):
    pid = "C11"
    claimed = True
    coq_dir = "C11"
    coq_deps = ("C17",)
    extract_vo = "C11/Extract.vo"
    mlname = "c11_model"
    driver = "c11_driver.ml"
    harness_src = "c11_dispatch.cpp"
    libs = ["mptcore", "mpt++"]
    extra_harness_flags = ["-fno-sanitize=vptr"]
    harness_env = dict(ASAN_ENV, ASAN_OPTIONS=ASAN_ENV["ASAN_OPTIONS"] + ":symbolize=0")
    quick_n = 3000
    thorough_n = 200000

    def split(self, case):
        t = case.split()
        ops, i = [], 0
        while i < len(t):
            n = ARITY.get(t[i], 0)
            ops.append(t[i:i + n + 1])
            i += n + 1
        return [], ops

    def shrink_candidates(self, case):
        _, ops = self.split(case)
        for k in range(1, len(ops)):
            yield self.join([], ops[:k])
        for k in range(len(ops)):
            yield self.join([], ops[:k] + ops[k + 1:])
        # simplify events and responses
        for k, o in enumerate(ops):
            if o[0] in ("emit", "hash"):
                if o[2] != "0:-":
                    yield self.join([], ops[:k] + [[o[0], o[1], "0:-"]] + ops[k + 1:])
                if o[1] != "N":
                    i, m, r = o[1].split(":")
                    if r != "0":
                        yield self.join([], ops[:k] + [[o[0], "%s:%s:0" % (i, m), o[2]]] + ops[k + 1:])
                    if m.count(",") and m != "n":
                        yield self.join([], ops[:k] + [[o[0], "%s:f%s:%s" % (i, m[1:].replace(",", ""), r), o[2]]] + ops[k + 1:])
            if o[0] in ("xset", "xget", "xres"):
                yield self.join([], ops[:k] + [[o[0][1:]] + o[1:]] + ops[k + 1:])

    def project(self, tok):
        p = tok.split("|")
        if len(p) != 6:
            return tok
        res, log, de, err, ctx, tbl = p
        num = res[1:]
        isnum = num.lstrip("-").isdigit()
        if res[:1] in ("r", "p") and isnum:
            res = "ok" if int(num) >= 0 else "E" + num
        elif res[:1] == "k" and isnum:
            res = "del" if int(num) == 2 else ("ok" if int(num) >= 0 else "E" + num)
        elif res[:1] in ("g", "i") and ":" in res:
            res = res[:1] + res.split(":", 1)[1]
        # the order in which several finalisers run in one operation is not constrained
        log = ",".join(sorted(log.split(",")))
        if tbl == "-":
            tbl = "M:"
        elif tbl[:2] in ("T:", "R:"):
            ent = [e.split(".") for e in tbl[2:].split(";") if e]
            ent = [e for e in ent if e[1] != "0"]
            ent.sort(key=lambda e: int(e[0], 16))
            tbl = "M:" + ";".join(".".join(e) for e in ent)
        return "|".join([res, log, de, err, ctx, tbl])

    def classify(self, case):
        _, ops = self.split(case)
        cl = set()
        nset = 0
        names = [o[0] for o in ops]
        for o in ops:
            cl.add("op:" + o[0])
            if o[0] in ("set", "xset", "cset", "res", "xres"):
                nset += 1
            if o[0] in ("emit", "hash"):
                if o[1] == "N":
                    cl.add("ev:null")
                else:
                    i, m, r = o[1].split(":")
                    cl.add("ev:id" if m == "n" else ("ev:msg-fragmented" if "," in m else "ev:msg"))
                    if r != "0":
                        cl.add("ev:own-reply")
                ret, sid = o[2].split(":")
                cl.add("ret:error" if int(ret) < 0 else "ret:flags%d" % (int(ret) & 7))
                if sid != "-":
                    cl.add("handler-rewrites-id")
        if nset >= 3:
            cl.add("growth-past-first-allocation")
        seen_unset = False
        for n in names:
            if n in ("unset", "cset", "clear"):
                seen_unset = True
            elif seen_unset and n in ("set", "xset", "cset"):
                cl.add("re-registration-after-free")
            elif seen_unset and n in ("res", "xres"):
                cl.add("reserve-after-free(compaction)")
        if "fini" in names[:-1]:
            cl.add("use-after-fini")
        if names and names[0] in ("res", "xres"):
            cl.add("raw-table")
        return cl

    def generate(self, rng, tier):
        cases = scenarios() + compaction_patterns(6 if tier == "quick" else 8)
        for depth in ((1, 2, 3) if tier == "quick" else (1, 2, 3, 4)):
            cases += list(small_scope(depth))
        n = self.quick_n if tier == "quick" else self.thorough_n
        for k in range(n):
            nops = rng.choice([2, 4, 6, 8, 12, 16, 24, 40])
            ops = []
            cxx = rng.random() < 0.5
            live = set()
            # half of the histories start on a raw (reserve-made) table
            if rng.random() < 0.35:
                ops.append([rng.choice(["res", "xres"]), str(rng.choice([1, 1, 2, 8]))])
            for j in range(nops):
                ops.append(gen_op(rng, len(ops) + 1, cxx, live))
            if rng.random() < 0.5:
                ops.append([rng.choice(["fini", "xfini"]) if cxx else "fini"])
            cases.append(flat(ops))
        return cases

    rule = ("a case = one history on a fresh dispatcher (mpt_dispatch_init / dispatch::dispatch); operations: register "
            "(mpt_dispatch_set, command::array::set_handler), unregister, mpt_command_set with handler or NULL (replace/delete), lookup, "
            "mpt_command_clear, mpt_command_reserve (+arming, C and C++ entry), mpt_dispatch_emit with NULL event | id | message "
            "(1..4 fragments, empty ones, empty message) with and without own reply context, mpt_dispatch_hash on command texts "
            "(blank / graphic / NUL separator, other message types, truncated header, missing message, 130-byte word contiguous and split), "
            "dispatch::set_error, dispatch::set_default, fallback reply context, mpt_dispatch_fini / ~dispatch and operations after it; "
            "ids from {0..5, 0xff, djb2 ids of 5 words, 6,7,8,0x7f,0x80, 2^64-2, 2^64-1}; handler returns from {0..7, 0x10000, 0x10001, "
            "-1,-2,-16,-128,-129,-200} and optionally rewrites ev->id; 13 hand-written scenarios, every live/dead pattern of up to 6 (thorough 8) "
            "slots on a raw and on a typed table followed by reserve/emit/fini, EVERY history of up to 3 (thorough 4) operations over 12 "
            "fixed operations (exhaustive), + random histories of 2..40 operations aimed at the ids believed registered; "
            "a case is non-trivial when it contains an operation (every case does); distinct = distinct case text")
    modelled = ("mptcore/event/{command_get,command_set,command_reserve,command_traits,dispatch_set,dispatch_emit,dispatch_hash,"
                "dispatch_finit}.c, misc/hash_djb2.c and the dispatch/command::array members of mpt++/event.cpp transcribed in "
                "coq/C11/DispatchModel.v (message parts through the C17 model of message_read.c/message_argv.c); the buffer allocator "
                "(growth, realloc) is not modelled beyond typed/raw; mpt_log output, reply message text, reply_data/mpt_reply_set and "
                "reply_context::defer in event.cpp are not modelled")
    trusted = ["harness/c11_dispatch.cpp reads the table back from raw buffer memory and logs every call of its handler / reply context / metatype",
               "malloc succeeds; char is signed (x86-64) in hash_djb2.c",
               "mpt++/event.cpp is compiled inside the harness unit without -fsanitize=vptr (the C/C++ struct overlay of the library trips it)"]
    level_text = ("proof: 13 Coq theorems (coq/C11/Properties.v, all closed under the global context) over ALL histories on a fresh "
                  "dispatcher, no bound on length, table size or ids: C11_step_refines_map / C11_history_refines_map (the slot table with "
                  "unused-slot reuse, append and in-place compaction refines a finite map id -> handler; no table access out of range; the "
                  "low-id search of reserve terminates), C11_emit_reaches_registered, C11_emit_fallback_otherwise, C11_emit_empty_message, "
                  "C11_emit_null_event, C11_hash_reaches_registered (exactly one handler call, to the handler registered for the id carried "
                  "by id field / first message byte / djb2 hash of the command word, else to the fallback, else nobody), "
                  "C11_default_bookkeeping (_def and the Default bit of the result follow the handler's return value), "
                  "C11_finalised_exactly_once / C11_finalised_after_fini (every registration gets exactly one cmd(arg, NULL) - on replace, "
                  "unregister, clear, set_error or teardown - or is still held; never invoked after it), C11_live_ids_unique, "
                  "C11_reserved_ids_unique, C11_compaction_is_stable_filter; the model is tied to the code on every run by differential "
                  "execution of the C entry points and the mpt++ wrappers under ASan/UBSan")
    level_note = ("trusted: Coq kernel; hand transcription of the C/C++ sources (validated by the correspondence run, not verified); "
                  "extraction and OCaml driver; harness. Handlers are abstract: scripted return value, may rewrite ev->id, do not re-enter "
                  "the dispatcher. Message parts go through the C17 model (its theorems are used). Allocation is assumed to succeed; the "
                  "buffer allocator is modelled only as typed/raw. Two defects found and fixed in the worktree (reserve id wrap to 0, "
                  "dispatch::set_default indexing by position). mpt++/event.cpp is compiled without -fsanitize=vptr. See docs/notes_C11.md.")
    technique = "Coq refinement proof (slot table -> finite map, call log invariants) + differential correspondence check"
    assumptions = ["malloc succeeds", "handlers do not call back into the dispatcher they are registered on",
                   "a reserved slot is armed by the caller as mpt_connection_await does (log_reply is never dispatched an event)"]


PROP = C11()
