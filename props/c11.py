"""C11 — event dispatch reaches exactly the registered handler (mptcore/event/*.c, misc/hash_djb2.c, mpt++/event.cpp)."""
from vcheck import DiffProperty, ASAN_ENV

M64 = (1 << 64) - 1
ARITY = {"set": 1, "xset": 1, "unset": 1, "cset": 2, "get": 1, "xget": 1, "clear": 0, "res": 1, "xres": 1,
         "emit": 2, "hash": 2, "serr": 1, "sdef": 1, "ctx": 0, "fini": 0, "xfini": 0,
         "xarr": 0, "djb": 1, "djs": 1, "djn": 1, "lrep": 1, "rset": 3, "rzero": 3, "rdefer": 0, "rtraits": 0,
         "xcopy": 0, "unk": 1, "cinit": 1}

# ---- patches proposed under docs/ that are not committed in /repo yet.  The Coq model follows the PATCHED code;
# while a constant is False the operations that tell patched and unpatched code apart are taken out of every case
# (restrict() below: generated cases and corpus alike).  Set to True after committing the patch; nothing else changes.
#
# docs/C11_reserve_typed.diff: mpt_command_reserve on a table whose buffer carries the command traits (made by
# mpt_command_set / mpt_dispatch_set / set_handler, or the default constructed C++ command::array of op xarr) compacts
# and then ALWAYS returns NULL (mpt_array_append refuses typed buffers).  Taken out while False: every res/xres with a
# non-zero size on such a table.
PATCHED_RESERVE_TYPED = True
# docs/C11_dispatch_copy.diff: struct dispatch is copyable; the copy shares _err, _ctx (and a raw table), its teardown
# finalises what the original still holds, the second teardown is a use after free.  Taken out while False: op xcopy.
PATCHED_DISPATCH_COPY = True
# docs/C12_default_waiter_format.diff (found by the C12 check, same file command_reserve.c): log_reply prints the slot
# argument with "%s" - crash for an Answer message with a negative code (the only level the default logger prints).
# Taken out while False: op lrep with such a message.
PATCHED_DEFAULT_WAITER_FORMAT = True


def split_ops(case):
    t = case.split()
    ops, i = [], 0
    while i < len(t):
        n = ARITY.get(t[i], 0)
        ops.append(t[i:i + n + 1])
        i += n + 1
    return ops


def msg_bytes(m):
    """flat bytes of a message token n | f<hex>,<hex>.."""
    if m == "n":
        return None
    return bytes.fromhex("".join(x for x in m[1:].split(",") if x != "-"))


def restrict(case):
    """the case without the operations that need a patch which is not committed yet (see the constants above)"""
    kind = None          # buffer behind the table: None | "T" (command traits) | "R" (raw)
    out = []
    for o in split_ops(case):
        n = o[0]
        if n in ("set", "xset", "cset", "xarr"):
            kind = kind or "T"      # xarr leaves a raw table alone
        elif n in ("res", "xres") and int(o[1], 0) != 0:
            if kind == "T" and not PATCHED_RESERVE_TYPED:
                continue
            kind = kind or "R"
        elif n in ("fini", "xfini"):
            kind = None
        elif n == "xcopy" and not PATCHED_DISPATCH_COPY:
            continue
        elif n == "lrep" and not PATCHED_DEFAULT_WAITER_FORMAT:
            b = msg_bytes(o[1])
            if b is not None and len(b) >= 2 and b[0] == 1 and b[1] >= 0x80:
                continue
        out.append(o)
    return " ".join(t for o in out for t in o)


def djb2(bs):
    """mptcore/misc/hash_djb2.c with the (signed) char sign extension"""
    h = 5381
    for b in bs:
        h = ((h * 33) & M64) ^ (b if b < 128 else (b | 0xffffffffffffff00))
    return h


def hx(bs):
    return "".join("%02x" % b for b in bs)


WORDS = [b"go", b"stop", b"x", b"\xc3\xa9t\xc3\xa9", b"q" * 130]
HASHIDS = [djb2(w) for w in WORDS]
SMALL = [0, 1, 2, 3, 4, 5, 0xff]
EDGE = [6, 7, 8, 0x7f, 0x80, M64, M64 - 1]
RETS = [0, 1, 2, 3, 4, 5, 6, 7, 0x10000, 0x10001, -1, -2, -16, -128, -129, -200]


def frag_tok(data, rng, nfr=None):
    """cut the bytes into 1..4 fragments, empty ones allowed"""
    if nfr is None:
        nfr = rng.choice([1, 1, 2, 2, 3, 4])
    cuts = sorted(rng.randrange(0, len(data) + 1) for _ in range(nfr - 1))
    parts, p = [], 0
    for c in cuts + [len(data)]:
        parts.append(data[p:c])
        p = c
    return "f" + ",".join(hx(x) for x in parts)


def pick_id(rng, live=None):
    """live: ids the generator believes registered (rough tracking); used to aim at registered ids"""
    r = rng.random()
    if live and r < 0.55:
        return rng.choice(sorted(live))
    if r < 0.70:
        return rng.choice(SMALL)
    if r < 0.85:
        return rng.choice(HASHIDS)
    return rng.choice(EDGE)


def rsp_tok(rng, live=None):
    ret = rng.choice(RETS)
    r = rng.random()
    sid = "-" if r < 0.6 else ("0" if r < 0.8 else "%x" % pick_id(rng, live))
    return "%d:%s" % (ret, sid)


def reply_tok(rng, opno):
    return "0" if rng.random() < 0.6 else str(9000 + opno)


def emit_ev(rng, opno, live=None):
    r = rng.random()
    if r < 0.12:
        return "N"
    rp = reply_tok(rng, opno)
    if r < 0.55:
        return "%x:n:%s" % (pick_id(rng, live), rp)
    if r < 0.60:
        return "%x:%s:%s" % (pick_id(rng), rng.choice(["f", "f,", "f,,"]), rp)      # empty message
    small = [i for i in (live or []) if i < 256]
    i = rng.choice(small) if small and rng.random() < 0.6 else rng.choice(SMALL)
    data = bytes([i]) + bytes(rng.randrange(256) for _ in range(rng.randrange(0, 4)))
    return "%x:%s:%s" % (pick_id(rng), frag_tok(data, rng), rp)


def hash_ev(rng, opno, live=None):
    r = rng.random()
    if r < 0.05:
        return "N"
    rp = reply_tok(rng, opno)
    if r < 0.10:
        return "0:n:" + rp
    w = rng.choice(WORDS if rng.random() < 0.8 else [b"nope", b"", b"   "])
    lw = [x for x in WORDS if djb2(x) in (live or [])]
    if lw and rng.random() < 0.6:
        w = rng.choice(lw)
    r = rng.random()
    if r < 0.55:     # command message, blank separated
        data = bytes([4, 0x20]) + rng.choice([b"", b" ", b"\t "]) + w + rng.choice([b"", b" arg", b" a b", b"\n"])
    elif r < 0.70:   # command message, graphic separator
        data = bytes([4, 0x2c]) + w + rng.choice([b"", b",arg"])
    elif r < 0.85:   # other message type: text up to NUL
        data = bytes([rng.choice([0, 1, 5]), 0x20]) + w + rng.choice([b"", b"\0", b"\0rest"])
    elif r < 0.92:   # command message with separator 0
        data = bytes([4, 0]) + w + rng.choice([b"", b"\0tail"])
    else:            # truncated header
        data = rng.choice([b"", b"\x04"])
    nfr = None
    if len(w) > 128:
        nfr = rng.choice([1, 2, 3])
    return "%x:%s:%s" % (pick_id(rng), frag_tok(data, rng, nfr), rp)


LREP_MSGS = ["n", "f", "f,", "f01", "f0100", "f0105", "f017f", "f01ff", "f0180", "f01,ff", "f00", "f0003", "f0000", "f0008",
             "f007f", "f0090", "f0401", "f04,20,676f", "f09", "f0902030405", "f,09,,0203", "f0601ff00"]
UNK_EVS = ["0:f:0", "0:f,:5", "0:f,,:0", "0:f09:5", "0:f09:0", "0:f,04,20:7", "3:n:5", "3:n:0", "3:f01:5", "0:n:0", "0:n:5",
           "ffffffffffffffff:f:5"]


def aux_op(rng):
    """one call beside the dispatcher"""
    k = rng.randrange(12)
    if k < 3:
        w = rng.choice(WORDS[:4] + [b"", b"a\0b", b"\0", b"\xff\x80\x7f", bytes(rng.randrange(256) for _ in range(rng.randrange(0, 7)))])
        return [rng.choice(["djb", "djs"]), hx(w) or "-"]
    if k == 3:
        return ["djn", str(rng.choice([-1, 0, 5]))]
    if k < 6:
        return ["lrep", rng.choice(LREP_MSGS)]
    if k < 9:
        mx = rng.choice([0, 2, 4, 4, 6, 16])
        cur = bytes(rng.randrange(256) for _ in range(rng.choice([0, 0, 1, 2, mx])))[:mx]
        if rng.random() < 0.7:
            n = rng.choice([0, 1, 2, mx, mx + 1, max(mx - 1, 0)])
            return ["rset", str(mx), hx(cur) or "-", hx(bytes(rng.randrange(256) for _ in range(n))) or "-"]
        return ["rzero", str(mx), hx(cur) or "-", str(rng.choice([0, 1, mx, mx + 1]))]
    if k == 9:
        return rng.choice([["rdefer"], ["rtraits"], ["xcopy"], ["cinit", "n"], ["cinit", "0"], ["cinit", "1"]])
    return ["unk", rng.choice(UNK_EVS)]


def gen_op(rng, opno, cxx, live):
    if rng.random() < 0.06:
        return aux_op(rng)
    r = rng.random()
    if r < 0.20:
        i = pick_id(rng) if rng.random() < 0.8 else pick_id(rng, live)
        live.add(i)
        return [rng.choice(["set", "xset"]) if cxx else "set", "%x" % i]
    if r < 0.28:
        i = pick_id(rng, live)
        live.discard(i)
        return ["unset", "%x" % i]
    if r < 0.36:
        i = pick_id(rng, live)
        h = rng.choice(["0", "1", "1"])
        (live.add if h == "1" else live.discard)(i)
        return ["cset", "%x" % i, h]
    if r < 0.40:
        return [rng.choice(["get", "xget"]), "%x" % pick_id(rng, live)]
    if r < 0.42:
        live.clear()
        return ["clear"]
    if r < 0.52:
        return [rng.choice(["res", "xres"]), str(rng.choice([0, 1, 1, 1, 2, 3, 4, 5, 6, 7, 8, 9]))]
    if r < 0.78:
        return ["emit", emit_ev(rng, opno, live), rsp_tok(rng, live)]
    if r < 0.88:
        return ["hash", hash_ev(rng, opno, live), rsp_tok(rng, live)]
    if r < 0.91:
        return ["serr", rng.choice(["0", "1", "1"])]
    if r < 0.95:
        return ["sdef", "%x" % pick_id(rng, live)]
    if r < 0.98:
        return ["ctx"]
    live.clear()
    if cxx and rng.random() < 0.5:
        return ["fini", "xarr"]      # a new array object in place of the table (two operations)
    return ["fini"]


def flat(ops):
    return " ".join(t for o in ops for t in o)


def scenarios():
    """hand-written histories aimed at the case splits of the proofs"""
    S = []
    E = lambda i, rsp="0:-": ["emit", "%x:n:0" % i, rsp]
    # growth past the first allocation (2 slots), every id then reached; teardown
    ids = [1, 2, 3, 4, 5, 0xff, 0]
    S.append([["set", "%x" % i] for i in ids] + [E(i) for i in ids] + [["fini"], E(1)])
    # re-registration of a freed slot, last table entry, replace through command_set
    S.append([["set", "1"], ["set", "2"], ["set", "3"], ["unset", "1"], E(1), ["set", "4"], E(4), E(3), ["cset", "3", "1"], E(3),
              ["cset", "2", "0"], E(2), ["set", "2"], E(2), ["fini"]])
    # reserve on a raw table: ids, compaction after unset, search below a high id
    S.append([["res", "1"], ["res", "1"], ["set", "ff"], ["res", "1"], ["unset", "1"], ["res", "1"], ["res", "1"], E(1), E(2), E(3), ["fini"]])
    S.append([["res", "1"], ["set", "ffffffffffffffff"], ["set", "0"], ["res", "8"], E(0), ["fini"]])
    S.append([["res", "1"], ["set", "7f"], ["set", "1"], ["set", "2"], ["unset", "1"], ["res", "1"], E(1), E(3), ["clear"], ["res", "1"], ["fini"]])
    # reserve on a typed table is refused after compaction
    S.append([["set", "1"], ["set", "2"], ["unset", "1"], ["res", "1"], E(2), ["fini"]])
    # default bookkeeping
    S.append([["set", "1"], ["set", "2"], E(1, "1:-"), ["emit", "N", "0:-"], E(2, "3:-"), ["emit", "N", "1:0"], ["emit", "N", "0:-"],
              E(1, "1:-"), ["unset", "1"], ["emit", "N", "0:-"], ["emit", "N", "0:-"], ["sdef", "2"], ["sdef", "7"], ["emit", "N", "5:-"]])
    # fallback: builtin, replaced, removed; reply context of the dispatcher
    S.append([E(3), ["emit", "0:n:0", "0:-"], ["emit", "0:f00:0", "0:-"], ["ctx"], E(3), ["emit", "3:n:77", "0:-"], ["serr", "1"], E(3, "-2:-"),
              E(3, "-200:-"), ["serr", "0"], E(3), ["serr", "1"], ["xfini"]])
    # hash dispatch
    for w in WORDS[:4]:
        hid = "%x" % djb2(w)
        S.append([["set", hid], ["hash", "0:f0420%s:0" % hx(w), "0:-"], ["hash", "0:f04,20,%s20,61:5" % hx(w), "-1:-"],
                  ["hash", "0:f0020%s00:0" % hx(w), "6:1"], ["unset", hid], ["hash", "0:f0420%s:5" % hx(w), "0:-"], ["serr", "0"],
                  ["hash", "0:f0420%s:5" % hx(w), "0:-"], ["fini"]])
    big = WORDS[4]
    S.append([["set", "%x" % djb2(big)], ["hash", "0:f0420%s:0" % hx(big), "0:-"], ["hash", "0:f0420%s,%s:6" % (hx(big[:60]), hx(big[60:])), "0:-"]])
    # the default constructed C++ command::array as table (io::stream::_wait): reserve, registration, growth, teardown, again
    S.append([["xarr"], ["xres", "1"], ["xset", "5"], ["xres", "1"], ["xres", "1"], E(1), E(5), E(6), E(7), ["xget", "6"], ["unset", "1"],
              ["xres", "1"], ["fini"], ["xarr"], ["xget", "1"], ["clear"], ["xres", "2"], E(1), ["xfini"]])
    S.append([["xarr"], ["emit", "N", "0:-"], E(1), ["sdef", "1"], ["xarr"], ["xset", "1"], ["xarr"], E(1, "1:-"), ["emit", "N", "0:-"], ["fini"]])
    # reserve on a table made by registration: above the stored ids, after compaction, low id search
    S.append([["set", "1"], ["res", "1"], ["res", "1"], E(2), ["set", "ff"], ["res", "1"], ["unset", "1"], ["res", "1"], E(1), E(4), ["fini"]])
    S.append([["cset", "7", "0"], ["res", "1"], E(8), ["fini"]])
    # every id of one byte taken: the 128th reservation is refused, a freed id is found again (raw and registered table)
    S.append([["res", "1"]] * 128 + [E(0x7f), ["unset", "4d"], ["res", "1"], ["res", "1"], E(0x4d), ["fini"]])
    S.append([["set", "7f"]] + [["res", "1"]] * 127 + [["unset", "7f"], ["res", "1"], ["fini"]])
    # size classes of the id range
    S.append([["res", str(k)] for k in (0, 1, 2, 3, 4, 5, 6, 7, 8, 9)] + [["set", "7fffffffffffffff"]] +
             [["res", str(k)] for k in (9, 7, 6, 5, 4, 3, 2, 1)] + [["fini"]])
    # calls beside the dispatcher
    S.append([["djb", "-"], ["djs", "-"], ["djn", "-1"], ["djn", "0"], ["djn", "7"], ["djb", "676f"], ["djs", "676f"], ["djb", "67006f"],
              ["djs", "67006f"], ["djs", "00"], ["djb", "00"], ["djb", "ff807f"], ["djs", "ff807f"], ["djs", hx(WORDS[4])]])
    S.append([["lrep", m] for m in LREP_MSGS])
    S.append([["rset", "4", "-", "0102"], ["rset", "4", "07", "0102"], ["rset", "4", "07", "-"], ["rset", "4", "-", "-"],
              ["rset", "4", "-", "0102030405"], ["rset", "4", "-", "01020304"], ["rset", "4", "01020304", "05"], ["rset", "0", "-", "-"],
              ["rset", "0", "-", "01"], ["rset", "2", "-", "0102"], ["rset", "16", "aa", "-"], ["rset", "16", "-", hx(bytes(range(16)))],
              ["rzero", "4", "-", "3"], ["rzero", "4", "-", "5"], ["rzero", "4", "09", "2"], ["rzero", "4", "09", "0"], ["rzero", "0", "-", "0"],
              ["rdefer"], ["rtraits"], ["cinit", "n"], ["cinit", "0"], ["cinit", "1"]])
    S.append([["unk", e] for e in UNK_EVS])
    S.append([["ctx"], ["unk", "3:n:0"], ["serr", "0"], ["unk", "0:f09:9"], ["set", "3"], ["unk", "3:n:4"], E(3), ["fini"]])
    # copying the dispatcher must be impossible: nothing is finalised, the original stays intact
    S.append([["xcopy"], ["serr", "1"], ["ctx"], ["set", "1"], ["xcopy"], E(1), E(2), ["xfini"]])
    S.append([["res", "1"], ["set", "5"], ["xcopy"], E(1), E(5), ["fini"]])
    return [flat(s) for s in S]


def compaction_patterns(n):
    """every live/dead pattern of up to n slots (raw and typed table), then reserve (compaction), every id emitted, teardown"""
    out = []
    for k in range(1, n + 1):
        for mask in range(1 << k):
            for raw in (True, False):
                ops = [["res", "1"]] if raw else []
                ids = [0x10 + j for j in range(k)]
                ops += [["set", "%x" % i] for i in ids]
                ops += [["unset", "%x" % ids[j]] for j in range(k) if mask >> j & 1]
                ops += [["res", "2"], ["res", "1"]]
                ops += [["emit", "%x:n:0" % i, "0:-"] for i in ids + [1, 2, 3]]
                ops += [["fini"]]
                out.append(flat(ops))
    return out


SMALL_OPS = [["set", "1"], ["set", "2"], ["unset", "1"], ["cset", "1", "1"], ["cset", "2", "0"], ["res", "1"], ["clear"],
             ["emit", "1:n:0", "1:-"], ["emit", "2:f02:0", "3:0"], ["emit", "N", "0:-"], ["serr", "1"], ["fini"], ["xarr"]]


def small_scope(depth):
    """every history of exactly `depth` operations over SMALL_OPS, closed by a lookup and a NULL event"""
    import itertools
    for seq in itertools.product(SMALL_OPS, repeat=depth):
        yield flat(list(seq) + [["get", "1"], ["emit", "N", "0:-"]])


class C11(DiffProperty):
    pid = "C11"
    claimed = True
    coq_dir = "C11"
    coq_deps = ("C17",)
    extract_vo = "C11/Extract.vo"
    mlname = "c11_model"
    driver = "c11_driver.ml"
    harness_src = "c11_dispatch.cpp"
    libs = ["mptcore", "mpt++"]
    extra_harness_flags = ["-fno-sanitize=vptr"]
    harness_env = dict(ASAN_ENV, ASAN_OPTIONS=ASAN_ENV["ASAN_OPTIONS"] + ":symbolize=0")
    quick_n = 3000
    thorough_n = 200000

    def split(self, case):
        return [], split_ops(case)

    def corpus(self):
        return [c for c in (restrict(c) for c in DiffProperty.corpus(self)) if c]

    def shrink_candidates(self, case):
        _, ops = self.split(case)
        for k in range(1, len(ops)):
            yield self.join([], ops[:k])
        for k in range(len(ops)):
            yield self.join([], ops[:k] + ops[k + 1:])
        # simplify events and responses
        for k, o in enumerate(ops):
            if o[0] in ("emit", "hash"):
                if o[2] != "0:-":
                    yield self.join([], ops[:k] + [[o[0], o[1], "0:-"]] + ops[k + 1:])
                if o[1] != "N":
                    i, m, r = o[1].split(":")
                    if r != "0":
                        yield self.join([], ops[:k] + [[o[0], "%s:%s:0" % (i, m), o[2]]] + ops[k + 1:])
                    if m.count(",") and m != "n":
                        yield self.join([], ops[:k] + [[o[0], "%s:f%s:%s" % (i, m[1:].replace(",", ""), r), o[2]]] + ops[k + 1:])
            if o[0] in ("xset", "xget", "xres"):
                yield self.join([], ops[:k] + [[o[0][1:]] + o[1:]] + ops[k + 1:])

    def project(self, tok):
        p = tok.split("|")
        if len(p) != 6:
            return tok
        res, log, de, err, ctx, tbl = p
        num = res[1:]
        isnum = num.lstrip("-").isdigit()
        if res[:1] in ("r", "p") and isnum:
            res = "ok" if int(num) >= 0 else "E" + num
        elif res[:1] == "k" and isnum:
            res = "del" if int(num) == 2 else ("ok" if int(num) >= 0 else "E" + num)
        elif res[:1] in ("g", "i") and ":" in res:
            res = res[:1] + res.split(":", 1)[1]
        # the order in which several finalisers run in one operation is not constrained
        log = ",".join(sorted(log.split(",")))
        if tbl == "-":
            tbl = "M:"
        elif tbl[:2] in ("T:", "R:"):
            ent = [e.split(".") for e in tbl[2:].split(";") if e]
            ent = [e for e in ent if e[1] != "0"]
            ent.sort(key=lambda e: int(e[0], 16))
            tbl = "M:" + ";".join(".".join(e) for e in ent)
        return "|".join([res, log, de, err, ctx, tbl])

    def classify(self, case):
        _, ops = self.split(case)
        cl = set()
        nset = 0
        names = [o[0] for o in ops]
        for o in ops:
            cl.add("op:" + o[0])
            if o[0] in ("set", "xset", "cset", "res", "xres"):
                nset += 1
            if o[0] == "lrep":
                b = msg_bytes(o[1])
                cl.add("waiter:null" if b is None else "waiter:empty" if not b else
                       "waiter:answer" if b[0] == 1 else "waiter:output" if b[0] == 0 else "waiter:other")
            if o[0] in ("rset", "rzero"):
                cl.add("reply_data:%s" % ("active" if o[2] != "-" else "idle"))
            if o[0] in ("emit", "hash"):
                if o[1] == "N":
                    cl.add("ev:null")
                else:
                    i, m, r = o[1].split(":")
                    cl.add("ev:id" if m == "n" else ("ev:msg-fragmented" if "," in m else "ev:msg"))
                    if r != "0":
                        cl.add("ev:own-reply")
                ret, sid = o[2].split(":")
                cl.add("ret:error" if int(ret) < 0 else "ret:flags%d" % (int(ret) & 7))
                if sid != "-":
                    cl.add("handler-rewrites-id")
        if nset >= 3:
            cl.add("growth-past-first-allocation")
        seen_unset = False
        for n in names:
            if n in ("unset", "cset", "clear"):
                seen_unset = True
            elif seen_unset and n in ("set", "xset", "cset"):
                cl.add("re-registration-after-free")
            elif seen_unset and n in ("res", "xres"):
                cl.add("reserve-after-free(compaction)")
        if "fini" in names[:-1]:
            cl.add("use-after-fini")
        if names and names[0] in ("res", "xres"):
            cl.add("raw-table")
        kind = None
        nres = 0
        for o in ops:
            if o[0] in ("set", "xset", "cset"):
                kind = kind or "T"
            elif o[0] == "xarr":
                if kind is None:
                    cl.add("table:c++-default-array")
                kind = kind or "T"
            elif o[0] in ("res", "xres") and int(o[1], 0) != 0:
                nres += 1
                if kind == "T":
                    cl.add("reserve-on-table-with-traits")
                kind = kind or "R"
            elif o[0] in ("fini", "xfini"):
                kind = None
        if nres >= 128:
            cl.add("reserve-range-exhausted")
        return cl

    def generate(self, rng, tier):
        cases = scenarios() + compaction_patterns(6 if tier == "quick" else 8)
        for depth in ((1, 2, 3) if tier == "quick" else (1, 2, 3, 4)):
            cases += list(small_scope(depth))
        n = self.quick_n if tier == "quick" else self.thorough_n
        for k in range(n):
            nops = rng.choice([2, 4, 6, 8, 12, 16, 24, 40])
            ops = []
            cxx = rng.random() < 0.5
            live = set()
            # a third of the histories start on a raw (reserve-made) table, some C++ ones on a default constructed array
            r0 = rng.random()
            if r0 < 0.35:
                ops.append([rng.choice(["res", "xres"]), str(rng.choice([1, 1, 2, 8]))])
            elif cxx and r0 < 0.50:
                ops.append(["xarr"])
            for j in range(nops):
                ops.append(gen_op(rng, len(ops) + 1, cxx, live))
            if rng.random() < 0.5:
                ops.append([rng.choice(["fini", "xfini"]) if cxx else "fini"])
            cases.append(flat(ops))
        return [c for c in (restrict(c) for c in cases) if c]

    rule = ("a case = one history on a fresh dispatcher (mpt_dispatch_init / dispatch::dispatch); operations: register "
            "(mpt_dispatch_set, command::array::set_handler), unregister, mpt_command_set with handler or NULL (replace/delete), lookup, "
            "mpt_command_clear, mpt_command_reserve (+arming, C and C++ entry; sizes 0..9: every id range) on a raw table, on a table "
            "made by registration and on a default constructed C++ command::array (xarr: the shared empty content with command traits "
            "is assigned to the table, the old buffer is released through its content traits), mpt_dispatch_emit with NULL event | id | "
            "message (1..4 fragments, empty ones, empty message) with and without own reply context, mpt_dispatch_hash on command texts "
            "(blank / graphic / NUL separator, other message types, truncated header, missing message, 130-byte word contiguous and split), "
            "dispatch::set_error, dispatch::set_default, fallback reply context, mpt_dispatch_fini / ~dispatch and operations after it; "
            "beside the dispatcher (state must stay untouched): mpt_hash_djb2 with a length, NUL terminated and on NULL (texts with "
            "NUL and high bytes), the default handler of a reserved slot on NULL and on 21 messages (answer / output / other type, "
            "one byte, empty, fragmented), reply_data::set with data and with NULL on idle and active objects of 0..16 bytes "
            "(value area and a guard behind it read back), reply_context::defer / pointer_traits, the built-in fallback handler "
            "called directly (12 events incl. the empty message), init of the command content traits, copy construction of the "
            "dispatcher; ids from {0..5, 0xff, djb2 ids of 5 words, 6,7,8,0x7f,0x80, 2^64-2, 2^64-1}; handler returns from "
            "{0..7, 0x10000, 0x10001, -1,-2,-16,-128,-129,-200} and optionally rewrites ev->id; 27 hand-written scenarios (incl. 128 "
            "reservations of one-byte ids: the last is refused, a freed id is found again), every live/dead pattern of up to 6 "
            "(thorough 8) slots on a raw and on a typed table followed by reserve/emit/fini, EVERY history of up to 3 (thorough 4) "
            "operations over 13 fixed operations (exhaustive), + random histories of 2..40 operations aimed at the ids believed "
            "registered; operations that need a patch of docs/ not committed yet are taken out of every case (constants PATCHED_* "
            "at the top of props/c11.py); a case is non-trivial when it contains an operation (every case does); distinct = distinct "
            "case text")
    modelled = ("mptcore/event/{command_get,command_set,command_reserve (incl. static log_reply),command_traits,dispatch_set,"
                "dispatch_emit,dispatch_hash,dispatch_finit (incl. static unknownEvent)}.c, misc/hash_djb2.c (both length conventions), "
                "event/reply_set.c and ALL of mpt++/event.cpp (dispatch / command::array members, reply_data::set, reply_context::defer, "
                "pointer_traits) transcribed in coq/C11/DispatchModel.v AS THE CODE IS AFTER docs/C11_reserve_typed.diff and "
                "docs/C11_dispatch_copy.diff (message parts through the C17 model of message_read.c/message_argv.c); the buffer "
                "allocator (growth, realloc, reference counts) is not modelled beyond typed/raw and 'released with its traits'; mpt_log "
                "output, reply message text and the type registry behind pointer_traits are compared with the specification only "
                "(constant results)")
    trusted = ["harness/c11_dispatch.cpp reads the table back from raw buffer memory and logs every call of its handler / reply context / metatype; "
               "it builds reply_data objects and message parts in exact-size heap blocks and hides library output on stdout during lrep",
               "malloc succeeds; char is signed (x86-64) in hash_djb2.c",
               "mpt++/event.cpp and mpt++/array.cpp are compiled inside the harness unit without -fsanitize=vptr (the C/C++ struct overlay of the library trips it)"]
    level_text = ("proof: 19 Coq theorems (coq/C11/Properties.v, all closed under the global context) over ALL histories on a fresh "
                  "dispatcher, no bound on length, table size or ids: C11_step_refines_map / C11_history_refines_map (the slot table with "
                  "unused-slot reuse, append and in-place compaction refines a finite map id -> handler; no table access out of range; the "
                  "low-id search of reserve terminates), C11_emit_reaches_registered, C11_emit_fallback_otherwise, C11_emit_empty_message, "
                  "C11_emit_null_event, C11_hash_reaches_registered (exactly one handler call, to the handler registered for the id carried "
                  "by id field / first message byte / djb2 hash of the command word, else to the fallback, else nobody), "
                  "C11_hash_text_is_first_argument (the trailing-NUL strip of dispatch_hash.c never applies), "
                  "C11_default_bookkeeping (_def and the Default bit of the result follow the handler's return value), "
                  "C11_finalised_exactly_once / C11_finalised_after_fini (every registration gets exactly one cmd(arg, NULL) - on replace, "
                  "unregister, clear, set_error, release of the table buffer or teardown - or is still held; never invoked after it), "
                  "C11_live_ids_unique, C11_reserved_ids_unique, C11_reserve_succeeds_while_ids_free (reserve refuses only for size 0 or "
                  "when every id of the range is live - raw table, registered table and C++ command::array alike), "
                  "C11_compaction_is_stable_filter, C11_djb2_cstring / C11_djb2_length (mpt_hash_djb2 = djb2 of the bytes before the first "
                  "NUL / of exactly len bytes, no read outside the storage), C11_reply_data_set, C11_aux_calls_refine (default waiter, "
                  "built-in fallback, reply_data::set, command traits on checked storage = their flat specification); the model is tied to "
                  "the code on every run by differential execution of the C entry points and the mpt++ wrappers under ASan/UBSan")
    level_note = ("trusted: Coq kernel; hand transcription of the C/C++ sources (validated by the correspondence run, not verified); "
                  "extraction and OCaml driver; harness. Handlers are abstract: scripted return value, may rewrite ev->id, do not re-enter "
                  "the dispatcher. Message parts go through the C17 model (its theorems are used). Allocation is assumed to succeed; the "
                  "buffer allocator is modelled only as typed/raw. The model follows the code AS PATCHED by docs/C11_reserve_typed.diff "
                  "(reserve on a buffer with command traits always failed: io::stream::await could never register a waiter) and "
                  "docs/C11_dispatch_copy.diff (struct dispatch was copyable: double end-of-life calls, use after free of the reply "
                  "context); until the constants PATCHED_RESERVE_TYPED / PATCHED_DISPATCH_COPY / PATCHED_DEFAULT_WAITER_FORMAT in "
                  "props/c11.py are set the operations that tell the difference (reserve on such a table, xcopy, default waiter on a "
                  "negative answer) are left out of the cases. Compared with the specification only (constant): reply_context::defer, "
                  "pointer_traits, log text. A reserved slot must be armed before an event reaches it (log_reply takes a message, not an "
                  "event); replacing the table object is not done on a raw buffer (no traits: handlers would be dropped silently). "
                  "Earlier defects (fixed in /repo): reserve id wrap to 0, dispatch::set_default indexing by position. See docs/notes_C11.md.")
    technique = "Coq refinement proof (slot table -> finite map, call log invariants) + differential correspondence check"
    assumptions = ["malloc succeeds", "handlers do not call back into the dispatcher they are registered on",
                   "a reserved slot is armed by the caller as mpt_connection_await does (log_reply is never dispatched an event)",
                   "docs/C11_reserve_typed.diff and docs/C11_dispatch_copy.diff describe the code that is modelled; cases that depend on "
                   "them run only after the PATCHED_* constants are set"]


PROP = C11()
