"""C08 — configuration parser is total and fails cleanly (mptcore/parse/*.c, config/path_*.c)."""
import os
import vcheck
from vcheck import DiffProperty, build_harness, build_model, run_cases

# ---------------------------------------------------------------- helpers shared with c09.py
def hx(bs):
    return "".join("%02x" % b for b in bs)


def cstr(s):
    """C string token: None -> N, bytes -> s<hex>"""
    return "N" if s is None else "s" + hx(s)


def chunks_tok(chunks):
    """input token: list of bytes-lists or (byte, count) runs"""
    out = []
    for c in chunks:
        if isinstance(c, tuple):
            if c[1] > 0:
                out.append("%02x*%d" % c)
        elif len(c):
            out.append(hx(c))
    return ",".join(out) if out else "-"


def tok_chunks(tok):
    if tok == "-":
        return []
    out = []
    for c in tok.split(","):
        if "*" in c:
            b, n = c.split("*")
            out.append((int(b, 16), int(n)))
        else:
            out.append([int(c[i:i + 2], 16) for i in range(0, len(c), 2)])
    return out


def forest_tok(forest):
    """forest = [(name bytes, value bytes or None, kids)]"""
    if not forest:
        return "~"

    def one(t):
        n, v, k = t
        return "(" + hx(n) + "," + ("n" if v is None else "v" + hx(v)) + "," + "".join(one(x) for x in k) + ")"
    return "".join(one(t) for t in forest)


FORMATS = [
    None, b"{*} =;!# `", b"{*}", b"{*} =", b"{*} = #", b"<*> :;% '", b"{* =",
    b"[ ] = #", b"[ ] = !", b"[ ]", b"[ ]:=;#", b"[ [ = #", b"| | = #",
    b"[x[ = #", b"%x% = #", b"[x] = #", b"[x]:=;#", b"%x%:=;# '", b"<x> = !\"",
    b"{_} =", b"{_} =;#", b"._.:=;", b"{_}  ", b"{_}:",
]
ACCEPTS = [None, b"", b"ns", b"Esc", b"Ef", b"Esnw", b"E", b"ESNWBFCesnwbfc", b"nsNS", b"wW", b"bB", b"fcFC", b"e", b"sS e", b"x", b"Eq"]
ALPHA = list(b"{}[]=;:#!\"'` \t\n\\.<>%|abAB019_-") + [0, 0x80, 0xff, 0x0d]
NAMECH = list(b"abcxyzABZ019_-+")
VALCH = list(b"abcdef 0123456789.,:/_-+*")


class Gen:
    """grammar-directed text for the four families, decorated, then optionally mutated"""

    def __init__(self, rng):
        self.rng = rng

    def fmt_fields(self, fmt):
        # mirror of mpt_parse_format, only to know which delimiters to print
        d = dict(ss=ord("{"), se=ord("}"), os=0, asg=ord("="), oe=0, esc=[34, 39], com=[35], fam="*")
        if fmt is None or len(fmt) == 0:
            return d
        sp = lambda c: 0 if c in b" \t\n\r\v\f" else c
        d["ss"] = sp(fmt[0])
        if len(fmt) > 1:
            d["fam"] = chr(fmt[1])
        keys = ["se", "os", "asg", "oe"]
        for i, k in enumerate(keys):
            if len(fmt) > 2 + i:
                d[k] = sp(fmt[2 + i])
            else:
                return d
        rest = fmt[6:]
        if not rest:
            return d
        com = []
        while rest and rest[0] not in b" \t\n" and len(com) < 4:
            com.append(rest[0])
            rest = rest[1:]
        d["com"] = com
        rest = rest.lstrip(b" \t\n")
        if rest:
            esc = []
            while rest and rest[0] not in b" \t\n" and len(esc) < 3:
                esc.append(rest[0])
                rest = rest[1:]
            d["esc"] = esc
        return d

    def name(self, maxlen=6):
        r = self.rng
        n = r.choice([1, 1, 2, 3, maxlen])
        return [r.choice(NAMECH) for _ in range(n)]

    def value(self, d):
        r = self.rng
        k = r.random()
        if k < 0.1:
            return []
        n = r.choice([1, 2, 3, 5, 9])
        v = [r.choice(VALCH) for _ in range(n)]
        if k < 0.35 and d["esc"]:
            q = r.choice(d["esc"])
            inner = []
            for c in v:
                if r.random() < 0.15:
                    inner += [92, q]
                else:
                    inner.append(c)
            return [q] + inner + [q]
        return v

    def ws(self, nl=True):
        r = self.rng
        k = r.random()
        if k < 0.5:
            return []
        if k < 0.8:
            return [32] * r.choice([1, 2])
        if k < 0.9 or not nl:
            return [9]
        return r.choice([[10], [32, 10], [10, 9]])

    def comment(self, d):
        r = self.rng
        if d["com"] and r.random() < 0.15:
            return [r.choice(d["com"])] + [r.choice(VALCH) for _ in range(r.choice([0, 3, 7]))] + [10]
        return []

    def option(self, d):
        r = self.rng
        out = self.ws() + self.comment(d)
        if d["os"]:
            out += [d["os"]] + self.ws(False)
        out += self.name()
        out += self.ws(False)
        if d["asg"]:
            out += [d["asg"]]
        else:
            out += [32]
        out += self.ws(False) + self.value(d) + self.ws(False)
        out += [d["oe"]] if d["oe"] else [10]
        return out

    def items(self, d, depth):
        r = self.rng
        out = []
        for _ in range(r.choice([0, 1, 2, 3])):
            if depth > 0 and r.random() < 0.4:
                out += self.section(d, depth - 1)
            else:
                out += self.option(d)
        return out

    def section(self, d, depth):
        fam = d["fam"]
        out = self.ws() + self.comment(d)
        nm = self.name()
        if fam == "*":
            out += nm + self.ws(False) + [d["ss"] or 32] + self.items(d, depth) + self.ws() + [d["se"] or 32]
        elif fam == "x":
            out += [d["ss"] or 32] + nm + [self.rng.choice([32, 10])] + self.items(d, 0)
            if d["ss"] != d["se"]:
                out += [d["se"] or 32]
        else:
            out += [d["ss"] or 32] + self.ws(False) + nm + self.ws(False) + [d["se"] or 32] + self.items(d, 0)
        return out

    def text(self, fmt):
        d = self.fmt_fields(fmt)
        r = self.rng
        out = []
        for _ in range(r.choice([1, 2, 3, 4])):
            if d["fam"] != "_" and r.random() < 0.5:
                out += self.section(d, r.choice([0, 1, 2]))
            else:
                out += self.option(d)
        return out + self.ws()

    def mutate(self, fmt, t):
        r = self.rng
        d = self.fmt_fields(fmt)
        delims = [c for c in (d["ss"], d["se"], d["os"], d["asg"], d["oe"]) if c] + d["esc"] + d["com"] + [10, 32, 92, 46]
        t = list(t)
        for _ in range(r.choice([1, 1, 2, 3])):
            k = r.random()
            p = r.randrange(0, len(t) + 1)
            if k < 0.25 and t:
                del t[min(p, len(t) - 1)]
            elif k < 0.6:
                t.insert(p, r.choice(delims))
            elif k < 0.7:
                t.insert(p, r.choice([0, 0x80, 0xff, 1, 0x7f]))
            elif k < 0.8:
                t = t[:p]
            elif k < 0.9 and d["esc"]:
                t.insert(p, r.choice(d["esc"]))     # unterminated quote
            else:
                t.insert(p, r.choice(ALPHA))
        return t


def long_cases(lengths):
    """names / values around the 8 and 16 bit limits in the four families"""
    out = []
    for n in lengths:
        nm = (0x61, n)
        out.append((None, b"ESNWBFCesnwbfc", [nm, list(b" {\n"), list(b"k = "), (0x62, n), list(b"\n}\n")]))
        out.append((None, None, [nm, list(b" = "), (0x63, n), [10]]))
        out.append((None, None, [list(b"k = \""), (0x63, n), list(b"\"\n")]))
        out.append((b"[ ] = #", None, [[0x5b], nm, list(b"]\nk="), (0x64, n), [10]]))
        out.append((b"%x% = #", None, [[0x25], nm, list(b"\nkk="), (0x64, n), [10]]))
        out.append((b"{_} =", None, [nm, [0x3d], (0x65, n), [10]]))
    return out


class C08(DiffProperty):
    pid = "C08"
    claimed = True
    coq_dir = "C08"
    propfile = "Properties_C08.v"
    extract_vo = "C08/Extract.vo"
    mlname = "c08_model"
    driver = "c08_driver.ml"
    harness_src = "c08_parse.c"
    libs = ["mptcore"]
    harness_env = dict(vcheck.ASAN_LEAK_ENV, ASAN_OPTIONS=vcheck.ASAN_LEAK_ENV["ASAN_OPTIONS"] + ":symbolize=0")
    harness_args = ("4",)
    quick_n = 9000
    thorough_n = 120000

    def split(self, case):
        t = case.split()
        return t[:3], [[t[3]]]

    def model_args(self):
        """the variant of mpt_parse_option the model runs: the switch lives in props/c09.py (the defect is a C09 finding)"""
        import c09
        return ("--raw",) if c09.PATCHED_OPTION_NAME_BLANK else ()

    # ---- run implementation, model, and the specification as checker of the implementation's observation
    def evaluate(self, cases, workdir, tagsuffix=""):
        hxe = build_harness(self.harness_src, self.libs, extra=self.extra_harness_flags)
        mx = build_model(self.mlname, self.driver, self.extract_vo)
        ided = ["c%d %s" % (i, c) for i, c in enumerate(cases)]
        I, e1 = run_cases(hxe, ided, workdir, "impl" + tagsuffix, env=self.harness_env, args=self.harness_args)
        M, e2 = run_cases(mx, ided, workdir, "model" + tagsuffix, args=self.model_args())
        obs = ["I %s %s" % (k, " ".join(v)) for k, v in I.get("I", {}).items()]
        S, e3 = run_cases(mx, obs, workdir, "spec" + tagsuffix, args=("--spec",)) if obs else ({}, [])
        res = []
        for i, c in enumerate(cases):
            k = "c%d" % i
            res.append(self.compare(c, I.get("I", {}).get(k), M.get("M", {}).get(k), S.get("S", {}).get(k)))
        return res, e1 + e2 + e3

    def classify(self, case):
        t = case.split()
        cl = set()
        fmt = None if t[0] == "N" else bytes.fromhex(t[0][1:])
        fam = "*" if fmt is None or len(fmt) < 2 else chr(fmt[1])
        cl.add("family:" + (fam if fam in "*x _" else "unknown"))
        if fmt is not None:
            cl.add("custom-format")
            if len(fmt) < 6:
                cl.add("short-format-string")
        if t[1] != "N":
            cl.add("name-flags")
        if t[2].startswith("@"):
            cl.add("caller-loop:" + ("binary-path" if t[2] == "@B" else "plain-path"))
        elif t[2] != "~":
            cl.add("target-nonempty")
        total = 0
        for c in tok_chunks(t[3]):
            if isinstance(c, tuple):
                total += c[1]
                if 254 <= c[1] <= 257:
                    cl.add("token-254..257")
                if 65534 <= c[1] <= 65537:
                    cl.add("token-65534..65537")
            else:
                total += len(c)
                if 0 in c:
                    cl.add("nul-byte")
                if any(b >= 0x80 for b in c):
                    cl.add("high-byte")
        if total == 0:
            cl.add("empty-input")
        return cl

    def shrink_candidates(self, case):
        t = case.split()
        fmt, acc, tgt, inp = t
        ch = tok_chunks(inp)
        mk = lambda f, a, g, c: " ".join([f, a, g, chunks_tok(c)])
        if tgt != "~" and not tgt.startswith("@"):
            yield mk(fmt, acc, "~", ch)
        if acc != "N":
            yield mk(fmt, "N", tgt, ch)
        if fmt != "N":
            yield mk("N", acc, tgt, ch)
        for i, c in enumerate(ch):
            yield mk(fmt, acc, tgt, ch[:i] + ch[i + 1:])
            if isinstance(c, tuple):
                for n in (c[1] // 2, c[1] - 1, 1):
                    if 0 < n < c[1]:
                        yield mk(fmt, acc, tgt, ch[:i] + [(c[0], n)] + ch[i + 1:])
            else:
                n = len(c)
                if n > 1:
                    yield mk(fmt, acc, tgt, ch[:i] + [c[:n // 2]] + ch[i + 1:])
                    yield mk(fmt, acc, tgt, ch[:i] + [c[n // 2:]] + ch[i + 1:])
                    for j in range(min(n, 60)):
                        yield mk(fmt, acc, tgt, ch[:i] + [c[:j] + c[j + 1:]] + ch[i + 1:])
                for j in range(min(n, 40)):
                    if c[j] not in (0x61, 10, 32) and c[j] > 0x40:
                        yield mk(fmt, acc, tgt, ch[:i] + [c[:j] + [0x61] + c[j + 1:]] + ch[i + 1:])

    # ---- generator
    def gen_target(self, rng):
        k = rng.random()
        if k < 0.7:
            return "~"
        names = [list(b"a"), list(b"b"), list(b"x"), list(b"k"), list(b"ab"), []]

        def forest(depth):
            out = []
            for _ in range(rng.choice([1, 1, 2, 3])):
                kids = forest(depth - 1) if depth > 0 and rng.random() < 0.5 else []
                v = None if rng.random() < 0.5 else [rng.choice(VALCH) for _ in range(rng.choice([0, 1, 4]))]
                out.append((rng.choice(names + NAMES2), v, kids))
            return out
        return forest_tok(forest(2))

    def generate(self, rng, tier):
        g = Gen(rng)
        cases = []
        n = self.quick_n if tier == "quick" else self.thorough_n
        # every format string prefix (truncated format strings), every accept string, on a fixed text
        for f in FORMATS:
            if f is None:
                continue
            for k in range(0, len(f) + 1):
                cases.append(" ".join([cstr(f[:k]), "N", "~", chunks_tok([list(b"a {\n b = 1\n}\n[c]\nd=2;\n")])]))
        for a in ACCEPTS:
            cases.append(" ".join(["N", cstr(a), "~", chunks_tok([list(b"1a { b 2 = \"x y\"\n}\n = z\n{\n}\n")])]))
        # token lengths around the 8 and 16 bit limits
        lens = [254, 255, 256, 257]
        big = [65534, 65535, 65536, 65537]
        for f, a, ch in long_cases(lens) + long_cases(big if tier == "thorough" else big[1:3]):
            cases.append(" ".join([cstr(f), cstr(a), "~", chunks_tok(ch)]))
        # path buffer capacity boundaries (the path lives in a 64/192/320... byte array): section names that fill the
        # buffer exactly when an anonymous or a further section is opened, at one and two levels
        for total in list(range(58, 70)) + list(range(186, 198)) + list(range(314, 326)):
            cases.append(" ".join(["N", "N", "~", chunks_tok([(0x61, total), list(b"{ { x = 1; } }\n")])]))
            cases.append(" ".join(["N", "N", "~", chunks_tok([(0x61, total), list(b" {\n{\nx = 1\n}\ny = 2\n}\n")])]))
            k = total // 2
            cases.append(" ".join(["N", "N", "~", chunks_tok([(0x61, k), list(b" { "), (0x62, total - k - 1), list(b" { { x = 1; } z { } } }\n")])]))
            cases.append(" ".join([cstr(b"[ ] = #"), "N", "~", chunks_tok([[0x5b], (0x61, total), list(b"]\nk=1\n[b]\n")])]))
        # formats WITHOUT assign character (the name ends at white space): value-less options whose name ends the line,
        # with names around the path buffer's block sizes (a stale length handed to the value handler reads past the block)
        for f in (b"{_}  ", b"[x]  ", b"[ ]  ", b"{_}  ;#"):
            for total in list(range(24, 72, 3)) + list(range(120, 136)) + list(range(184, 200, 2)):
                cases.append(" ".join([cstr(f), "N", "~", chunks_tok([(0x61, total), list(b" \n")])]))
                cases.append(" ".join([cstr(f), "N", "~", chunks_tok([(0x62, 3), list(b" v\n"), (0x61, total), list(b"\t")])]))
        # caller-loop family (third token "@B" / "@D"): the element functions in a loop written as the one of
        # mpt_parse_config on a path the caller owns, with MPT_PATHFLAG(SepBinary) (examples/core/parse.c, the program
        # of the five parse_* ctest cases) and without: names holding the separator, element lengths around the length
        # byte, nesting deep enough to chain several length bytes, path buffer block boundaries, then random text
        for mode in ("@B", "@D"):
            for f, a, ch in long_cases([253, 254, 255, 256, 257]):
                cases.append(" ".join([cstr(f), cstr(a), mode, chunks_tok(ch)]))
            for txt in (b"a.b {\n c.d = 1\n e. { .f = 2\n }\n}\n.. = 3\n", b"a { b { c { d { e = 1; } } } f = 2; }\ng = 3\n",
                        b"{ { x = 1\n } }\n", b"a {\n}\n}\n", b"a { b = 1", b"a {\n b {\n }\n c = 2\n }\n"):
                for a in (None, b"E", b"ESNWBFCesnwbfc"):
                    cases.append(" ".join(["N", cstr(a), mode, chunks_tok([list(txt)])]))
            for f, txt in ((b"[ ] = #", b"x=1\n[s.t]\nk.l=2\n[u]\n"), (b"%x% = #", b"x=1\n%s.t\nkk=2\n%u\n"), (b"{_} =", b"a.b=1\nc = 2\n"),
                           (b"[ ]  ", b"[s]\nk v\n"), (b"{*} =;!# `", b"a.b { c=`x y`; !n\n }\n")):
                cases.append(" ".join([cstr(f), "N", mode, chunks_tok([list(txt)])]))
            for total in list(range(58, 70)) + list(range(186, 198, 2)) + [250, 251, 252]:
                cases.append(" ".join(["N", "N", mode, chunks_tok([(0x61, total), list(b" { "), (0x62, total), list(b" { x = 1; } y = 2; }\n")])]))
                cases.append(" ".join(["N", "sE", mode, chunks_tok([(0x61, total), list(b"{ { x = 1; } }\n")])]))
        for i in range(n // 6):
            f = rng.choice(FORMATS)
            a = rng.choice(ACCEPTS[:1] * 4 + ACCEPTS)
            k = rng.random()
            if k < 0.4:
                t = g.text(f)
            elif k < 0.85:
                t = g.mutate(f, g.text(f))
            else:
                t = [rng.choice(ALPHA) for _ in range(rng.choice([0, 1, 2, 3, 5, 8, 13, 30]))]
            cases.append(" ".join([cstr(f), cstr(a), rng.choice(["@B", "@B", "@D"]), chunks_tok([t])]))
        # structured + mutated + malformed streams
        for i in range(n):
            f = rng.choice(FORMATS)
            if rng.random() < 0.08:
                f = bytes(rng.choice(list(b"{}[]=;:#!\"'` \t<>%|a*x_ ")) for _ in range(rng.choice([0, 1, 2, 3, 5, 6, 8, 12])))
            a = rng.choice(ACCEPTS[:1] * 4 + ACCEPTS)
            k = rng.random()
            if k < 0.45:
                t = g.text(f)
            elif k < 0.8:
                t = g.mutate(f, g.text(f))
            else:
                t = [rng.choice(ALPHA) for _ in range(rng.choice([0, 1, 2, 3, 5, 8, 13, 30]))]
            cases.append(" ".join([cstr(f), cstr(a), self.gen_target(rng), chunks_tok([t])]))
        return cases

    rule = ("a case = format string (NULL, the documented examples, every prefix of them, random delimiter strings) x name-flag string x "
            "target tree x input; inputs: grammar-directed text for the family of the format (sections, options, quoted values with "
            "escaped quotes, comments, decoration), the same text with 1-3 mutations (deleted character, stray delimiter / quote / "
            "backslash / dot, NUL and high bytes, truncation), and a separate malformed stream of random bytes over a delimiter-heavy "
            "alphabet; names and values of 254..257 bytes and of 65534..65537 bytes (quick: 65535, 65536) in all four families; 30% of "
            "the cases parse into a non-empty target tree whose names overlap the input; a case is non-trivial always (classes count "
            "families, custom formats, flags, NUL/high bytes, token lengths); distinct = distinct case text; caller-loop family "
            "(third token @B / @D, about one case in seven): the same formats, flags and texts through the element functions in a "
            "loop written as the one of mpt_parse_config on a path the caller owns, with MPT_PATHFLAG(SepBinary) as "
            "examples/core/parse.c (the program of the five parse_* ctest cases) and without: names holding the separator "
            "character, element lengths 253..257 and 65535/65536 against the length byte, four levels of nesting, path buffer "
            "block boundaries, mutated and random streams")
    modelled = ("mptcore/parse/{parse_format,parse_accept,parse_next_fcn,parse_nextvis,parse_endline,parse_getchar,parse_ncheck,"
                "parse_option,parse_data,parse_format_pre,parse_format_enc,parse_format_sep,parse_config,parse_node,node_append}.c, "
                "config/{path_addchar,path_add,path_del,path_valid}.c (path_invalidate, path_delchar), node/node_move.c transcribed in "
                "coq/C08/ParseModel.v; the path buffer is abstracted to (elements, post bytes, first, KeepPost, buffer present, "
                "SepBinary) — its copy-on-write array is C04's subject; mpt_path_add is transcribed in both separation formats "
                "(separator: element must not hold the separator, one byte behind it consumed; binary: element <= 255 bytes, two "
                "bytes consumed, first = length), the length bytes themselves (written by path_add.c 60-69, compared by "
                "path_del.c 31-38) are not in the abstraction: the harness decodes the chain of length bytes at every event and "
                "compares forward and backward lengths, the model supplies the elements; nodes are values (name, value bytes, children), links and storage are C14's and "
                "C16's subject; allocation failure and a getc that reports a read error after the data are not generated")
    trusted = ["harness/c08_parse.c hands out every input byte once through a counting getc callback, keeps format and name-flag "
               "strings and the input in exact-size heap blocks, splits the path at the separator itself (binary path: walks the "
               "length bytes itself and reports an inconsistent chain as !bin) and reads node links directly; the caller loop of the @ "
               "family is the harness's transcription of the loop of mpt_parse_config (the path is a local of that function, so a "
               "path with other flags can only be handed to the element functions by a caller's own loop)",
               "LeakSanitizer (__lsan_do_recoverable_leak_check in every forked case) and ASan/UBSan observe leaks and invalid accesses; "
               "they are not proved",
               "isspace/isdigit/isprint/isalnum/isupper/tolower of the C locale are modelled as ASCII ranges"]
    level_text = ("proof: Coq theorems C08_parse_total, C08_parse_node_total, C08_getc_count_le_length, C08_fail_leaves_target, "
                  "C08_events_well_nested, C08_events_depth, C08_no_fault, C08_parse_node_no_fault, C08_element_call, and for the loop "
                  "of a caller on its own path with or without the binary element separation C08_caller_loop_total, "
                  "C08_caller_loop_clean, C08_caller_loop_depth, C08_caller_loop_plain, C08_binary_add_fits state, for EVERY input list (any bytes, NUL, "
                  "read-error codes), EVERY one of the four families, EVERY format record (all delimiter / comment / escape "
                  "assignments, zero = unset) and EVERY name-flag set, that the transcribed parser returns (the outer loop fuel always "
                  "suffices, all inner loops are structural recursions on the input), that what it read is a prefix of the input "
                  "(consumed ++ rest = input: every character at most once), that getc is called at most once per character plus once "
                  "per element call, that a failed mpt_parse_node leaves the target forest identical, that on success the path seen "
                  "by the handler at every event is exactly the stack of open section names (a section end always closes an open "
                  "section, options lie in the open section), and that name checks and values never read outside the collected post "
                  "data; by induction over the input with a parser-state invariant (path well formed, valid length inside the post "
                  "data).  The model is tied to the code on every run by differential execution under ASan/UBSan/LeakSanitizer "
                  "(events with paths and values, return codes, line, getc count, target tree before/after incl. link consistency)")
    level_note = ("trusted: Coq kernel; hand transcription of mptcore/parse/*.c, config/path_*.c, node_move.c (validated by the "
                  "correspondence run, not verified); extraction and OCaml driver; harness.  Invalid memory accesses and leaks of the "
                  "real code are OBSERVED (ASan/UBSan, LeakSanitizer per forked case), not proved; the model-level counterpart "
                  "(C08_no_fault / C08_parse_node_no_fault: no read outside the post data, no link operation on the temporary root) "
                  "is proved.  fail_leaves_target holds "
                  "by construction of the model (temporary forest merged only on success) and is checked on the code by the harness.  "
                  "The path buffer (copy-on-write array) is abstracted to its bytes, allocation failure is not modelled.  The theorems "
                  "hold for /repo main with the fix: commits listed in docs/notes_C08.md.  All 9 theorems are closed under the global "
                  "context (no axioms).")
    technique = "Coq proof (parser-state invariant by induction over the input) + differential correspondence check"
    assumptions = ["allocation succeeds", "getc returns each byte once and then -2 (a negative element in the model input stands for a read error)"]


NAMES2 = [list(b"c"), list(b"d"), list(b"kk"), list(b"1a")]
PROP = C08()
