"""C01 — message framing round-trip for every codec (COBS, COBS/R, COBS/ZPE, COBS/ZPE+R encoders)."""
from vcheck import DiffProperty

def hx(bs):
    return "".join("%02x" % b for b in bs) if bs else "-"

BOUND = [0x00, 0x01, 0x02, 0x1f, 0x20, 0xde, 0xdf, 0xe0, 0xe1, 0xfe, 0xff]
MAXLEN = {0: 255, 1: 255, 2: 223, 3: 223, 4: 255}

class C01(DiffProperty):
    pid = "C01"
    claimed = True
    coq_dir = "Cobs"
    propfile = "Properties_C01.v"
    extract_vo = "Cobs/Extract.vo"
    mlname = "cobs_model"
    driver = "c01_driver.ml"
    harness_src = "c01_codec.c"
    libs = ["mptcore"]
    rule = ("cases: (a) 1-3 messages per case, each handed to the encoder in random pieces by an array_push-like loop "
            "(retry after MissingBuffer with the next increment of a growth schedule incl. 1-byte grants), terminated, then "
            "the finished window is decoded by the library's own decoder; message lengths 0..3 and k*(MAXLEN-1)+{-2..2}, "
            "zero runs/pairs around codes 1,2,31,32, last byte around the block code (tail-inline boundary); (b) raw single "
            "calls with chosen window sizes (exact fit, one short, roll-back positions); (c) exhaustive: all messages of length "
            "<=3 (quick) / <=4 (thorough) over {00,01,02,df,e0,ff} x every 2-way split x 1-byte grants x 4 framings; (d) frames "
            "produced by /repo/mpt.py:encode_cobs, decoded by the C decoder. non-trivial = every case (all run the encoder); "
            "distinct = distinct case text")
    modelled = ("mptcore/convert/encode_cobs.c, encode_cobs_r.c, encode_cobs_zpe.c (all four encoders, per call, incl. state checks, "
                "roll-back, ZPE pair folding within a push, COBS/R tail inlining) in coq/Cobs/CobsModel.v; mpt.py:encode_cobs in "
                "coq/Cobs/PyModel.v; the message-deletion mode (iov_base = NULL) is not modelled; mpt_array_push's buffer management "
                "is represented by the growth-schedule loop (its detach/allocation is C04's subject); zero-terminated command text: "
                "mpt_encode_string (single-delimiter mode) and mpt_decode_command on one fragment are modelled in coq/Cobs/TextModel.v")
    trusted = ["the library's own decoders are used on the implementation side for the message read-back (their correctness is C03's subject; "
               "the model side uses the reference decoder sdec)", "python3 interpreter and bytearray semantics (mpt.py part)"]
    assumptions = ["callers pass windows that contain the bytes written so far (cap >= done+scratch), as mpt_array_push and mpt_queue_push do"]
    level_text = ("proof: Coq theorems C01_enc_roundtrip(_complete), C01_enc_sequence, C01_enc_can_complete, C01_py_roundtrip state for all four "
                  "COBS framings, every message, every split into offers and every capacity schedule (no bound) that the finished frame decodes "
                  "(reference decoder) to exactly the bytes handed over, contains no zero but its delimiter, and that successive messages leave "
                  "the concatenation of their frames; the same for the library's own push loop mpt_array_push (C01_array_push_data/_term); tied to the code on every run by differential execution of the extracted model against an "
                  "ASan/UBSan build (per-call state and window bytes compared) and by decoding the implementation's frames with its own decoder")
    level_note = ("trusted: Coq kernel; hand transcription of the encoders (validated by the correspondence run); extraction + OCaml driver; harness. "
                  "The command-text framing has its own theorems (C01_text_encoder_roundtrip, C01_text_decoder_delivers: encoder for all splits/capacities, decoder for a whole text in one fragment); "
                  "multi-call command decoding is proved in C03 (C03_command_history_delivers); mpt_array_push (the library's retry loop: allocation, growth by detach, partial consumption) is modelled ([apush]), driven for real by the harness and proved to keep the encoder invariant (C01_array_push_data, C01_array_push_term) and to terminate (C01_array_push_terminates: at most two rounds per byte, the model's round budget is never exhausted); multi-fragment iovecs of the command decoder are correspondence-only. All theorems closed under the global context.")
    technique = "Coq invariant proof over the resumable encoder (all splits, all capacity schedules) + differential correspondence check"

    def project(self, tok):
        if tok.startswith("P:"):
            return "P:" + tok[2:].split("|")[0]
        if tok.startswith("C:"):
            return "C:*"
        if tok.startswith("Y:"):
            return "Y:" + tok[2:].split("|")[0]
        return tok

    def split(self, case):
        t = case.split()
        hdr, rest = t[:1], t[1:]
        ar = {"call": 2, "term": 1, "pushall": 2, "termall": 1, "msg": 0, "py": 2, "apush": 1, "aterm": 0, "del": 0}
        ops = []
        i = 0
        while i < len(rest):
            n = ar[rest[i]]
            ops.append(rest[i:i + n + 1])
            i += n + 1
        return hdr, ops

    def py_frames(self, msgs):
        """run the bundled Python client's encoder (current working tree) on the messages"""
        import subprocess, os, vcheck
        code = ("import sys, importlib.util\n"
                "spec = importlib.util.spec_from_file_location('mpt', sys.argv[1])\n"
                "m = importlib.util.module_from_spec(spec)\n"
                "spec.loader.exec_module(m)\n"
                "for line in sys.stdin:\n"
                "    h = line.strip()\n"
                "    b = bytes.fromhex('' if h == '-' else h)\n"
                "    try:\n"
                "        print(bytes(m.encode_cobs(bytearray(b))).hex() or '-')\n"
                "    except Exception as e:\n"
                "        print('-')\n")
        p = subprocess.run(["python3", "-c", code, os.path.join(vcheck.REPO, "mpt.py")],
                           input="\n".join(hx(m) for m in msgs) + "\n", capture_output=True, text=True, timeout=300)
        out = p.stdout.split()
        if len(out) != len(msgs):
            out = ["-"] * len(msgs)
        return out

    def shrink_candidates(self, case):
        hdr, ops = self.split(case)
        if any(o[0] == "py" for o in ops):
            return
        for k in range(len(ops)):
            if ops[k][0] != "msg":
                yield self.join(hdr, ops[:k] + ops[k + 1:])
        for k, o in enumerate(ops):
            if o[0] in ("call", "pushall", "apush") and o[-1] != "-" and len(o[-1]) > 2:
                h = o[-1]
                for cut in (h[:len(h) // 2 // 2 * 2], h[len(h) // 2 // 2 * 2:], h[2:], h[:-2]):
                    if cut:
                        yield self.join(hdr, ops[:k] + [o[:-1] + [cut]] + ops[k + 1:])
            if o[0] in ("pushall", "termall") and o[1] != "64":
                yield self.join(hdr, ops[:k] + [[o[0], "64"] + o[2:]] + ops[k + 1:])

    def classify(self, case):
        hdr, ops = self.split(case)
        v = int(hdr[0])
        cl = {"variant%d" % v}
        for o in ops:
            cl.add("op:" + o[0])
            if o[0] in ("call", "pushall") and o[-1] != "-":
                n = len(o[-1]) // 2
                if n >= MAXLEN[v] - 1:
                    cl.add("full-block")
                if "0000" in o[-1]:
                    cl.add("zero-pair")
            if o[0] in ("pushall", "termall") and o[1] == "1":
                cl.add("one-byte-grants")
            if o[0] == "py" and len(o[1]) >= 2 * 254:
                cl.add("py-full-block")
        return cl

    def gen_msg(self, rng, v):
        ml = MAXLEN[v]
        kind = rng.random()
        if kind < 0.15:
            n = rng.choice([0, 1, 2, 3])
        elif kind < 0.55:
            n = rng.choice([1, 2, 3, 4]) * (ml - 1) + rng.choice([-2, -1, 0, 1, 2])
            if rng.random() < 0.5:
                n = (ml - 1) + rng.choice([-2, -1, 0, 1, 2])
        else:
            n = rng.randrange(0, 80)
        style = rng.random()
        if style < 0.3:
            m = [rng.choice([0x41, 0x42, 0xff, 0x01]) for _ in range(n)]
        elif style < 0.6:
            m = [rng.choice(BOUND) for _ in range(n)]
        else:
            m = [0 if rng.random() < 0.25 else rng.randrange(1, 256) for _ in range(n)]
        # zero structure around code 1/2/31/32 for ZPE
        if n > 40 and rng.random() < 0.5:
            p = rng.choice([0, 1, 30, 31, 32])
            if p + 1 < n:
                m[p] = 0; m[p + 1] = 0
        if n and rng.random() < 0.5:
            m[-1] = rng.choice(BOUND + [n & 0xff, (n + 1) & 0xff, (n + 2) & 0xff])
        return m

    def gen_splits(self, rng, m):
        n = len(m)
        if n == 0:
            return []
        k = rng.random()
        if k < 0.3:
            return [m]
        if k < 0.45:
            return [[b] for b in m] if n <= 40 else [m[:1], m[1:]]
        cuts = sorted(set(rng.randrange(1, n) for _ in range(rng.choice([1, 2, 3, 5]))) if n > 1 else [])
        parts = []
        last = 0
        for c in cuts + [n]:
            parts.append(m[last:c]); last = c
        return [p for p in parts if p]

    def generate(self, rng, tier):
        cases = []
        nm = 1500 if tier == "quick" else 40000
        scheds = ["1", "1", "2", "3,1", "64", "64", "7", "200", "1,1,5"]
        for i in range(nm):
            v = i % 5
            ops = []
            for _ in range(rng.choice([1, 1, 2, 3])):
                m = self.gen_msg(rng, v)
                if v == 4 and rng.random() < 0.85:
                    m = [b or 0x20 for b in m]     # command text admits no zero byte (15% keep zeros: must be refused)
                for part in self.gen_splits(rng, m):
                    ops += ["pushall", rng.choice(scheds), hx(part)]
                ops += ["termall", rng.choice(scheds)]
            ops += ["msg"]
            cases.append(" ".join([str(v)] + ops))
        # DELETION of the message in progress (a source of length 1 without data; what mpt_stream_reply rolls back with):
        # finished messages first, then a message in pieces (closed and open blocks: the count in _ctx is compared through
        # the position the request returns), the deletion, and a further message behind it
        nd = 500 if tier == "quick" else 12000
        for i in range(nd):
            v = i % 4
            ops = []
            for _ in range(rng.choice([0, 1, 2])):
                ops += ["pushall", "64", hx(self.gen_msg(rng, v) or [0x41]), "termall", "64"]
            m = self.gen_msg(rng, v) or [0x42, 0x00, 0x43]
            for part in self.gen_splits(rng, m):
                ops += ["pushall", rng.choice(scheds), hx(part)]
                if rng.random() < 0.2:
                    ops += ["del"]          # in the middle: what follows starts a new message
            ops += ["del"] + (["del"] if rng.random() < 0.2 else [])
            if rng.random() < 0.8:
                ops += ["pushall", "64", hx(self.gen_msg(rng, v) or [0x44]), "termall", "3,1"]
            ops += ["msg"]
            cases.append(" ".join([str(v)] + ops))
        # the library's own push loop: mpt_array_push on an encode_array (growth by detach, partial consumption,
        # termination), messages in pieces, lengths around the 64/192/320-byte buffer sizes and the block limits
        na = 1200 if tier == "quick" else 30000
        for i in range(na):
            v = i % 5
            ops = []
            for _ in range(rng.choice([1, 1, 2, 3])):
                r = rng.random()
                if r < 0.35:
                    n = rng.choice([60, 61, 62, 63, 64, 65, 126, 127, 128, 129, 190, 191, 192, 193, 253, 254, 255, 256, 318, 319, 320, 321]) + rng.choice([-1, 0, 0, 1])
                    m = [0 if rng.random() < 0.05 else rng.choice([0x41, 0xff, 0x01, rng.randrange(1, 256)]) for _ in range(n)]
                else:
                    m = self.gen_msg(rng, v)
                if v == 4 and rng.random() < 0.85:
                    m = [b or 0x20 for b in m]
                for part in self.gen_splits(rng, m):
                    ops += ["apush", hx(part)]
                ops += ["aterm"] if rng.random() < 0.8 else ["apush", "-"]
            ops += ["msg"]
            cases.append(" ".join([str(v)] + ops))
        # very long pushes: the encoder overhead exceeds the slack of the initial reservation more than once, so that
        # mpt_array_push continues after SEVERAL partial consumptions inside one call
        for i, n in enumerate([16000, 33000, 40000, 66000] if tier == "quick" else [16000, 33000, 40000, 66000, 130000, 40001, 39999, 50000]):
            for v in ((i % 4), (i + 1) % 4, 4):
                m = [rng.randrange(1, 256) for _ in range(n)]
                if v == 4:
                    m = [b if b != 0 else 0x20 for b in m]
                cut = rng.randrange(1, n)
                # no "msg" here: the model's frame splitter is quadratic; the buffer bytes are compared with the model anyway
                ops = ["apush", hx(m[:cut]), "apush", hx(m[cut:]), "aterm", "apush", hx(m[:300]), "aterm"] if i % 2 else ["apush", hx(m), "aterm"]
                cases.append(" ".join([str(v)] + ops))
        # bundled Python client: frames of mpt.py:encode_cobs decoded by the C decoder / reference decoder
        npy = 300 if tier == "quick" else 5000
        pm = []
        for i in range(npy):
            r = rng.random()
            if r < 0.4:
                n = rng.choice([252, 253, 254, 255, 256, 507, 508, 509, 510]) + rng.choice([-1, 0, 0, 1])
                m = [rng.choice([0x41, 0xff, 0x01]) for _ in range(n)]
                if rng.random() < 0.5:
                    m[rng.randrange(n)] = 0
            else:
                m = self.gen_msg(rng, 0)
            pm.append(m)
        for m, f in zip(pm, self.py_frames(pm)):
            cases.append("0 py %s %s" % (hx(m), f))
        # raw single calls with chosen capacities: exact fit, one short, rollback positions
        nr = 1500 if tier == "quick" else 30000
        for i in range(nr):
            v = i % 5
            ml = MAXLEN[v]
            ops = []
            cap = 0
            for _ in range(rng.choice([1, 2, 3, 4, 6])):
                r = rng.random()
                if r < 0.7:
                    n = rng.choice([1, 2, 3, ml - 2, ml - 1, ml, rng.randrange(1, 40)])
                    d = [0 if rng.random() < 0.15 else rng.choice([0x41, 0xff, 0x02, rng.randrange(1, 256)]) for _ in range(n)]
                    cap = max(0, cap + rng.choice([0, 1, 2, n, n + 1, n + 2, n + 3, ml, ml + 1, rng.randrange(0, 8)]))
                    ops += ["call", str(cap), hx(d)]
                else:
                    cap = cap + rng.choice([0, 0, 1, 2, 3])
                    ops += ["term", str(cap)]
            if rng.random() < 0.5:
                ops += ["msg"]
            cases.append(" ".join([str(v)] + ops))
        # exhaustive: all messages of length <= L over a small alphabet x every 2-way split x tight schedules
        L = 3 if tier == "quick" else 4
        alpha = [0x00, 0x01, 0x02, 0xdf, 0xe0, 0xff]
        import itertools
        for v in range(5):
            for n in range(0, L + 1):
                for m in itertools.product(alpha, repeat=n):
                    m = list(m)
                    for cut in range(0, max(1, n)):
                        ops = []
                        if n:
                            if cut:
                                ops += ["pushall", "1", hx(m[:cut]), "pushall", "1", hx(m[cut:])]
                            else:
                                ops += ["pushall", "1", hx(m)]
                        ops += ["termall", "1", "msg"]
                        cases.append(" ".join([str(v)] + ops))
        return cases

PROP = C01()
