"""C02 — message stream integrity under arbitrary segmentation (framed queues over rings)."""
from vcheck import DiffProperty

def hx(bs):
    return "".join("%02x" % b for b in bs) if bs else "-"

MAXLEN = {0: 255, 1: 255, 2: 223, 3: 223}

class C02(DiffProperty):
    pid = "C02"
    claimed = True
    rule = ("cases: a framed writer ring (mpt_queue_push, fixed capacity 8..600, start offset anywhere) and a framed reader ring "
            "(mpt_queue_recv/mpt_queue_shift/mpt_message_get, start offset anywhere, grows on demand as mpt_stream_poll does) connected by a wire "
            "the case cuts arbitrarily: histories of send / part+fin (message in pieces) / wire N (1,2,3,7,all bytes) / recv / drain over 1-8 "
            "messages (lengths 0..20 on small rings, up to MAXLEN+3 on large ones, zero runs and pairs), 4 framings; the writer makes room by "
            "delivering and receiving when a push is short. verdict: messages received so far are at every step a prefix of the messages sent "
            "completely, every operation succeeds, and after drain the two lists are equal. non-trivial = every case; distinct = distinct case text")
    modelled = ("ring level: mptcore/queue/queue_push.c (all branches: aligned, upper part, lower part, out-of-band scratch copy, align-and-retry, second "
                "push), queue_recv.c (MissingBuffer recovery with the chunked move), queue_shift.c, message_get.c transcribed in coq/Cobs/QueueCodec.v on top of "
                "the C13 ring model and the C01/C03 codec models; the transport the harness plays (wire, receive, pump, retrying push) in coq/Cobs/StreamRun.v; "
                "flat level: encoder o wire splitting o decoder loop composed in coq/Cobs/StreamProofs.v. The stream glue mptio/stream/{stream_push,stream_flush,"
                "stream_poll (POLLIN path),stream_dispatch}.c and mptcore/queue/queue_load.c are transcribed in coq/Cobs/GlueRun.v on top of the ring-level model, with the "
                "kernel as an oracle (each flush/poll carries the number of bytes the transfer moves, 0, or a failure): harness/c02_glue.c links the real mptio "
                "objects with wrapped writev/readv that obey the case, so implementation and model are compared at mechanism level after every operation (return "
                "value, delivered messages, both rings, both coder states, bytes in flight). The same functions are ALSO driven over a real socketpair and over "
                "memory streams (harness/c02_io.c: kernel-decided transfer sizes, small send buffers, all four COBS framings and the command text framing), there "
                "decided against the specification only; not modelled: the poll() system call paths of mpt_stream_poll with a timeout, POLLOUT handling, the "
                "memory-mapped (WriteMap/ReadMap) branches, the text (no encoder) mode of mpt_stream_push, error flags of the stream info")
    trusted = ["harness/c02_glue.c: writev/readv of the two stream descriptors are replaced at link time (-Wl,--wrap) by a byte pipe that moves exactly the scripted number of bytes",
               "harness/c02_io.c: the kernel socket decides how much each writev/readv moves; its pump loop stops after three rounds without progress",
               "harness/c02_stream.c plays the transport: it moves finished bytes between the rings and enlarges the reader ring when it is full or the "
               "decoder asks for buffer (as mptio/stream/stream_poll.c does with mpt_queue_prepare)"]
    assumptions = ["the reader ring can grow (realloc succeeds)", "OS-level partial writes/timeouts of mptio are outside the model"]
    level_text = ("proof (partial): SAFETY and LIVENESS are proved end to end at ring level. Flat level: C02_wire_splits_into_frames, "
                  "C02_stream_integrity_flat (all message sequences, all splits into pushes, all capacity schedules). Ring level, writer: C02_queue_push_refines (one "
                  "mpt_queue_push on a wrapped ring in any state keeps the stream-level encoder invariant, every branch: aligned, upper part, lower part, out-of-band "
                  "copy of a straddling block, second push, align-and-retry), C02_ring_writer_invariant, C02_ring_writer_total (no history faults), "
                  "C02_ring_writer_stream (transport bytes + ring contents = the frames of the completed messages). Ring level, reader, safety: C02_ring_reader_delivers (every "
                  "history of wire-ins, mpt_queue_recv incl. its MissingBuffer recovery with mpt_qpre and the chunked move, mpt_queue_shift, mpt_message_get and "
                  "enlargements by mpt_queue_prepare, on a ring of any capacity/offset, delivers the reference decodings of the frames at the front of the accepted "
                  "bytes); composition C02_stream_end_to_end, C02_ring_to_ring (any prefix of the writer's stream in any pieces: delivered = a prefix of sent, in order). "
                  "Ring level, reader, liveness: C02_ring_round_delivers (unread bytes complete a frame the reference decoder accepts => mpt_queue_recv delivers it, or "
                  "reports MissingBuffer and delivers it after ONE mpt_queue_prepare of bytes-to-delimiter+17 and a second mpt_queue_recv; never 'more input', never a "
                  "decoding error), C02_ring_reader_delivers_all (from any reachable reader state between messages whose unread bytes are the frames of ms: |ms| rounds "
                  "deliver exactly ms and empty the ring), C02_ring_to_ring_all (composed with the writer ring); call level C02_stream_delivers_all. "
                  "Stream glue (mptio): C02_glue_step_refines (every mpt_stream_push / flush / poll / dispatch step of the glue model, with ANY kernel behaviour, is a sequence "
                  "of ring-level writer and reader operations that keeps the ring invariants and the relation 'bytes accepted by the reader ring + bytes in flight = bytes "
                  "handed to the transport'), C02_glue_history_safe (every glue history from fresh streams of any capacity incl. none: the reader's decoder NEVER reports a "
                  "decoding error -- C02_queue_recv_no_error_on_stream_prefix: the bytes it is fed are always a prefix of a well-formed stream -- and what the dispatcher "
                  "handed to the handler is a prefix of the messages completed on the writer side as told by the return values of mpt_stream_push). "
                  "Tied to the code by differential execution of the same ring-level model (state compared after every operation) on rings of many capacities/offsets "
                  "with arbitrary wire cuts incl. single-byte delivery, decided against the specification 'received = sent'")
    level_note = ("partial: (1) liveness is proved for the reader side of the glue: C02_dispatch_delivers (in any reachable glue state, once a complete accepted frame is in the "
                  "input ring ONE mpt_stream_dispatch hands a message to the handler: streamRecv enlarges by 64 as often as the decoder asks, every round consumes at least 47 "
                  "bytes of the frame -- C02_ring_round_progress, C02_ring_dispatch_policy_delivers, C02_stream_recv_delivers; C02_glue_dispatch_all: when the unread bytes of the input "
                  "ring are the frames of n messages, n dispatches hand over exactly the next n completed messages and nothing is left), and per step for the transport (C02_glue_flush_all, C02_glue_poll_progress: with a kernel "
                  "that takes what it is offered a flush empties the finished part of the output ring and a poll loads at least one byte); and END TO END through the glue "
                  "(GlueDrain.v): C02_dispatch_iff_frame_arrived (any reachable state: a dispatch hands over a message iff a delimiter is unread or a message is held, "
                  "exactly one less is available afterwards), C02_quiet_world_delivered_all (nothing finished in the output ring, nothing in flight, no delimiter unread "
                  "=> handed over = completed), C02_drain_round_progress, C02_drain_delivers_all, C02_history_drain_complete (after ANY glue history from fresh streams "
                  "under ANY kernel behaviour a final drain hands over exactly the completed messages). What stays an assumption is the transport itself: that a real "
                  "writev/readv eventually takes what it is offered (two stall defects inside the glue were found by the thorough tier and by the input-object cases "
                  "before these theorems existed, and repaired: one enlargement only; the stream input returning MissingBuffer to the event loop); "
                  "(2) not modelled: poll() paths with a timeout, POLLOUT handling, memory-mapped and text-mode "
                  "streams. The glue model is tied to the code by differential execution with scripted transfers (three defects were found in the glue and repaired). "
                  "Theorems closed under the global context.")
    technique = "Coq theorems: the stream glue refines ring-level writer and reader histories, which refine the stream-level codec invariants; end-to-end safety (delivered is a prefix of sent) and ring-level liveness; mechanism-level differential check of the glue and ring models against the code"
    coq_dir = "Cobs"
    coq_deps = ("C13",)
    propfile = "Properties_C02.v"
    extract_vo = "Cobs/ExtractStream.vo"
    mlname = "stream_model"
    driver = "c02_driver.ml"
    harness_src = "c02_stream.c"
    libs = ["mptcore"]

    def compare(self, case, it, mt, st):
        """correspondence: implementation vs ring-level mechanism model, token by token (messages, status, ring
        offsets/lengths, encoder and decoder state, contents of both rings).  verdict against the specification:
        the messages received so far are, at every step, a prefix of the messages handed over completely, every
        operation succeeds, and after `drain` the lists are equal"""
        r = {"corr": None, "spec": None, "I": it, "M": mt, "S": st}
        if it is None or st is None or mt is None:
            r["corr"] = (-1, "missing output", "I=%s M=%s S=%s" % (it is not None, mt is not None, st is not None))
            return r
        io = 10 <= int(case.split()[0]) < 30 or int(case.split()[0]) >= 50     # stream glue over a real socketpair: no mechanism model, specification only
        for j in range(max(len(it), len(mt))):
            a = it[j] if j < len(it) else "<none>"
            b = mt[j] if j < len(mt) else "<none>"
            if io and b == "*":
                continue
            if a != b:
                r["corr"] = (j, a[:400], b[:400])
                break
        ops = self.split(case)[1]
        got = []
        for j in range(max(len(it), len(st))):
            a = it[j].split("#")[0] if j < len(it) else "<none>"
            b = st[j] if j < len(st) else "L:"
            sent = [x for x in b[2:].split(",") if x != ""] if b.startswith("L:") else []
            if io and case.split()[0] in ("14", "24"):
                sent = ["0420" + x for x in sent]      # the command decoder prepends its message header
            if a.startswith("F") or "|" not in a:
                r["spec"] = (j, a, "no fault; " + b)
                break
            msgs, status = a.rsplit("|", 1)
            if msgs != "-":
                got += msgs.split(",")
            if status.split("~")[0] != "ok":
                r["spec"] = (j, a, "operation succeeds (the reader is given the space it asks for)")
                break
            if got != sent[:len(got)]:
                r["spec"] = (j, "received so far: " + ",".join(got), "a prefix of the sent messages " + ",".join(sent))
                break
            if j < len(ops) and ops[j][0] in ("drain", "gdrain") and got != sent:
                r["spec"] = (j, "after drain received: " + ",".join(got), "all sent messages " + ",".join(sent))
                break
        return r

    def evaluate(self, cases, workdir, tagsuffix=""):
        """three harnesses: the ring-level one (variant 0..3), the stream glue over a socketpair (variant 10..24, specification
        only) and the stream glue with scripted transfers (variant 30..33, compared with coq/Cobs/GlueRun.v at mechanism level)"""
        import vcheck
        hq = vcheck.build_harness(self.harness_src, self.libs, extra=self.extra_harness_flags)
        hi = vcheck.build_harness("c02_io.c", ["mptio", "mptcore"])
        mx = vcheck.build_model(self.mlname, self.driver, self.extract_vo)
        ided = ["c%d %s" % (i, c) for i, c in enumerate(cases)]
        hg = vcheck.build_harness("c02_glue.c", ["mptio", "mptcore"], extra=["-Wl,--wrap=writev", "-Wl,--wrap=readv"])
        vid = lambda l: int(l.split(None, 2)[1])
        isio = lambda l: 10 <= vid(l) < 30 or vid(l) >= 50
        isglue = lambda l: 30 <= vid(l) < 40
        I, errs = {}, []
        # the stream glue cases get a short per-case time limit: a livelock in the library must not cost 10 s per case
        for exe, sub, tag, args in ((hq, [l for l in ided if vid(l) < 10], "impl", self.harness_args),
                                    (hi, [l for l in ided if isio(l)], "implio", ["3"]),
                                    (hg, [l for l in ided if isglue(l)], "implglue", ["5"])):
            if sub:
                o, e = vcheck.run_cases(exe, sub, workdir, tag + tagsuffix, env=self.harness_env, args=args)
                got = o.get("I", {})
                # a case that ran into the short time limit is run once more, alone and with a long limit: a loaded machine
                # must not look like a livelock (a real livelock still times out)
                late = [l for l in sub if any(t.startswith("F:timeout") for t in (got.get(l.split(None, 1)[0]) or []))]
                if late and len(args) == 1:
                    o2, e2_ = vcheck.run_cases(exe, late, workdir, tag + "late" + tagsuffix, env=self.harness_env, args=["30"], shards=min(4, len(late)))
                    got.update(o2.get("I", {}))
                    e += e2_
                I.update(got)
                errs += e
        M, e2 = vcheck.run_cases(mx, ided, workdir, "model" + tagsuffix)
        res = []
        for i, c in enumerate(cases):
            k = "c%d" % i
            res.append(self.compare(c, I.get(k), M.get("M", {}).get(k), M.get("S", {}).get(k)))
        return res, errs + e2

    def split(self, case):
        t = case.split()
        hdr, rest = t[:5], t[5:]
        ar = {"send": 1, "part": 1, "fin": 0, "wire": 1, "recv": 0, "drain": 0, "peek": 1, "peekn": 1,
              "gpush": 1, "gfin": 0, "gflush": 1, "gpoll": 1, "gdisp": 0, "gdrain": 0, "raw": 1, "wopen": 1}
        ops = []
        i = 0
        while i < len(rest):
            n = ar[rest[i]]
            ops.append(rest[i:i + n + 1])
            i += n + 1
        return hdr, ops

    def shrink(self, case, kind, workdir, budget=12):
        # stream glue cases run against the kernel with a per-case time limit: keep their shrinking short
        if 10 <= int(case.split()[0]) < 30 or int(case.split()[0]) >= 50:
            budget = 3
        return super().shrink(case, kind, workdir, budget)

    def shrink_candidates(self, case):
        hdr, ops = self.split(case)
        if 10 <= int(hdr[0]) < 30 or int(hdr[0]) >= 50:
            # whole operations only, at most 24 candidates per round
            n = 0
            for k in range(len(ops)):
                if not (k == len(ops) - 1 and ops[k][0] == "drain"):
                    n += 1
                    if n > 24:
                        return
                    yield self.join(hdr, ops[:k] + ops[k + 1:])
            return
        for k in range(len(ops)):
            if not (k == len(ops) - 1 and ops[k][0] in ("drain", "gdrain")):
                yield self.join(hdr, ops[:k] + ops[k + 1:])
        for k, o in enumerate(ops):
            if o[0] in ("send", "part", "gpush") and o[1] != "-" and len(o[1]) > 2:
                h = o[1]
                for cut in (h[:len(h) // 4 * 2], h[len(h) // 4 * 2:], h[2:], h[:-2]):
                    yield self.join(hdr, ops[:k] + [[o[0], cut or "-"]] + ops[k + 1:])
        v, wc, wo, rc, ro = hdr
        if int(wo):
            yield self.join([v, wc, "0", rc, ro], ops)
        if int(ro):
            yield self.join([v, wc, wo, rc, "0"], ops)

    def classify(self, case):
        hdr, ops = self.split(case)
        cl = {"variant" + hdr[0]}
        if int(hdr[1]) <= 32:
            cl.add("small-writer-ring")
        if int(hdr[3]) <= 48:
            cl.add("small-reader-ring")
        if int(hdr[2]) or int(hdr[4]):
            cl.add("wrap-offset")
        for o in ops:
            cl.add("op:" + o[0])
            if o[0] == "wire" and o[1] == "1":
                cl.add("single-byte-delivery")
        if 10 <= int(hdr[0]) < 30:
            cl.add("stream-glue")
        if 30 <= int(hdr[0]) < 40:
            cl.add("stream-glue-mechanism")
        if int(hdr[0]) >= 50:
            cl.add("stream-input-object")
        return cl

    def gen_msg(self, rng, v, maxn):
        k = rng.random()
        if k < 0.2:
            n = rng.choice([0, 1, 2])
        else:
            n = rng.randrange(0, maxn + 1)
        style = rng.random()
        if style < 0.4:
            m = [rng.choice([0x41, 0x42, 0xff, 0x01, 0x02]) for _ in range(n)]
        else:
            m = [0 if rng.random() < 0.3 else rng.randrange(1, 256) for _ in range(n)]
        if n >= 2 and rng.random() < 0.3:
            p = rng.randrange(n - 1)
            m[p] = 0; m[p + 1] = 0
        return m

    def generate(self, rng, tier):
        cases = []
        n = 15000 if tier == "quick" else 200000
        for i in range(n):
            v = i % 4
            small = rng.random() < 0.7
            if small:
                wcap = rng.choice([8, 9, 12, 16, 17, 24, 32])
                maxn = max(1, (wcap - 4) // (2 if v >= 2 else 1) - 2)
                maxn = min(maxn, 20)
            else:
                wcap = rng.choice([64, 300, 600])
                maxn = rng.choice([20, 100, MAXLEN[v] + 3]) if wcap >= 300 else 30
                maxn = min(maxn, wcap // 2 - 6)
            # reader must be able to hold one frame plus the scratch space the decoder asks for
            rcap = max(12, 2 * (maxn + 4) + rng.choice([0, 1, 5, 16]))
            woff = rng.randrange(0, wcap)
            roff = rng.randrange(0, rcap)
            ops = []
            for _ in range(rng.choice([1, 2, 3, 5, 8])):
                m = self.gen_msg(rng, v, maxn)
                k = rng.random()
                if k < 0.6 or not m:
                    ops += ["send", hx(m)]
                else:
                    cut = rng.randrange(0, len(m) + 1)
                    if m[:cut]:
                        ops += ["part", hx(m[:cut])]
                    if rng.random() < 0.3:
                        ops += ["wire", str(rng.choice([1, 2, 100]))]
                    if m[cut:]:
                        ops += ["part", hx(m[cut:])]
                    ops += ["fin"]
                for _ in range(rng.choice([0, 0, 1, 2, 4])):
                    r = rng.random()
                    if r < 0.45:
                        ops += ["wire", str(rng.choice([1, 1, 2, 3, 7, 1000]))]
                    elif r < 0.9:
                        ops += ["recv"]
                    else:
                        ops += [rng.choice(["peek", "peek", "peekn"]), str(rng.choice([0, 1, 4, 100]))]
            ops += ["drain"]
            cases.append(" ".join([str(v), str(wcap), str(woff), str(rcap), str(roff)] + ops))
        # open block straddling the ring end (placed by a raw push, op wopen): the out-of-band branch of
        # mpt_queue_push (copy of the open block into a temporary buffer, encode there, write back wrapped)
        no = 900 if tier == "quick" else 30000
        for i in range(no):
            v = i % 4
            wcap = rng.choice([8, 12, 16, 17, 32, 64, 300])
            # the writer ring of this harness does not grow: the whole message has to fit (as in the family above)
            budget = min(max(1, (wcap - 4) // (2 if v >= 2 else 1) - 2), 40)
            k = rng.randrange(0, min(budget, 30) + 1)                            # data bytes of the open block
            blk = [k + 1] + [rng.randrange(1, 256) for _ in range(k)]
            # most offsets make the block straddle: it starts 1..k bytes before the ring end
            woff = (wcap - rng.randrange(1, k + 1)) if (k and rng.random() < 0.8) else rng.randrange(0, wcap)
            rcap = rng.choice([16, 64, 2 * wcap + 64]); roff = rng.randrange(0, rcap)
            ops = []
            if rng.random() < 0.3:
                # an earlier message, completely taken by the transport: the ring is empty again, at another offset
                ops += ["send", hx(self.gen_msg(rng, v, 3)), "wire", "100000"]
            ops += ["wopen", hx(blk)]
            left = budget - k
            for _ in range(rng.choice([0, 1, 1, 2, 3])):
                m = self.gen_msg(rng, v, rng.choice([1, 2, 5, max(1, left)]))[:left]
                left -= len(m)
                if m:
                    ops += ["part", hx(m)]
                if rng.random() < 0.3:
                    ops += ["wire", str(rng.choice([1, 3, 100]))]
            ops += ["fin"] + ["recv"] * rng.choice([0, 1]) + ["send", hx([0x77]), "drain"]
            cases.append(" ".join([str(v), str(wcap), str(woff % wcap), str(rcap), str(roff)] + ops))
        # long messages: more than 256 bytes decoded when the ZPE decoder runs out of scratch space
        # (mpt_queue_recv then has to move the decoded bytes in several chunks), several maximal blocks
        nl = 600 if tier == "quick" else 20000
        for i in range(nl):
            v = i % 4
            head = rng.choice([0, 10, 250, 257, 300, 520, 600])
            m = [rng.randrange(1, 256) for _ in range(head)]
            for _ in range(rng.choice([0, 3, 12, 40])):
                m += [rng.randrange(1, 256)] * rng.choice([0, 1, 1, 2]) + [0, 0]
            m += [rng.randrange(1, 256) for _ in range(rng.choice([0, 1, 5, 230]))]
            wcap = 2 * len(m) + rng.choice([16, 64, 300])
            rcap = rng.choice([16, 64, len(m) + 8, 2 * len(m) + 64])
            ops = ["send", hx([0x68, 0x69]), "send", hx(m)]
            k = rng.random()
            if k < 0.4:
                ops += ["wire", "1000000"]
            elif k < 0.7:
                ops += ["wire", str(rng.choice([1, 7, 100, 255, 256, 257]))] * 3
            ops += ["recv"] * rng.choice([0, 1, 3])
            ops += ["send", hx([0x77]), "drain"]
            cases.append(" ".join([str(v), str(wcap), str(rng.randrange(0, wcap)), str(rcap), str(rng.randrange(0, rcap))] + ops))
        # stream glue (mptio: mpt_stream_push/flush/poll/dispatch over a socketpair): specification level only
        ns = 400 if tier == "quick" else 8000
        for i in range(ns):
            v = 10 + i % 5
            sndbuf = rng.choice([0, 0, 2304, 4608])
            ops = []
            for _ in range(rng.choice([1, 2, 3, 5, 8, 20])):
                big = rng.random() < 0.15
                m = self.gen_msg(rng, v % 10 if v < 14 else 0, rng.choice([3000, 9000, 70000]) if big else rng.choice([4, 20, 100, 300, 700]))
                if v == 14:
                    m = [b or 0x20 for b in m] or [0x61]   # command text: no zero byte, no empty command
                k = rng.random()
                if k < 0.6 or not m:
                    ops += ["send", hx(m)]
                else:
                    cut = rng.randrange(0, len(m) + 1)
                    if m[:cut]:
                        ops += ["part", hx(m[:cut])]
                    if rng.random() < 0.3:
                        ops += ["wire", "0"]
                    if m[cut:]:
                        ops += ["part", hx(m[cut:])]
                    ops += ["fin"]
                for _ in range(rng.choice([0, 0, 1, 2])):
                    ops += [rng.choice(["wire 0", "recv"])]
            ops += ["drain"]
            cases.append(" ".join([str(v), str(sndbuf), "0", "0", "0"] + " ".join(ops).split()))
        # ZPE frames that expand on decoding by more than the free input buffer space, directly behind another frame
        # (decoded by the dispatcher's look-ahead), then a quiet line
        nz = 160 if tier == "quick" else 3000
        for i in range(nz):
            v = 12 + i % 2
            ops = []
            for _ in range(rng.choice([1, 2, 3])):
                a = [rng.randrange(1, 256) for _ in range(rng.choice([1, 3, 5, 8, 9, 10, 11, 20]))]
                k = rng.choice([18, 20, 21, 24, 25, 26, 27, 28, 30, 40, 60])
                b = []
                for _ in range(k):
                    b += [rng.randrange(1, 256)] * rng.choice([0, 1, 1, 1, 2]) + [0, 0]
                ops += ["send", hx(a), "send", hx(b)]
                if rng.random() < 0.3:
                    ops += ["send", hx([rng.randrange(1, 256) for _ in range(rng.choice([1, 2, 6]))])]
                if rng.random() < 0.5:
                    ops += ["drain"]
            ops += ["drain"]
            cases.append(" ".join([str(v), "0", "0", "0", "0"] + ops))
        # memory streams (mpt_stream_memory): writer into a fixed user buffer, reader over the finished bytes;
        # COBS and COBS/R only: a memory reader cannot grow, ZPE may need scratch space and the command decoder needs
        # two bytes in front of the data for its header
        nm = 150 if tier == "quick" else 3000
        for i in range(nm):
            v = [20, 21][i % 2]
            size = rng.choice([64, 200, 1000, 5000])
            ops = []
            room = size // 2 - 8
            while room > 4 and len(ops) < 24:
                m = self.gen_msg(rng, 0, min(room - 4, rng.choice([3, 10, 60, 300])))
                if v == 24:
                    m = [b or 0x20 for b in m] or [0x61]
                room -= len(m) + len(m) // 200 + 3 + (2 if v == 24 else 0)
                if room < 0:
                    break
                if rng.random() < 0.7 or not m:
                    ops += ["send", hx(m)]
                else:
                    cut = rng.randrange(0, len(m) + 1)
                    if m[:cut]:
                        ops += ["part", hx(m[:cut])]
                    if m[cut:]:
                        ops += ["part", hx(m[cut:])]
                    ops += ["fin"]
            ops += ["drain"]
            cases.append(" ".join([str(v), str(size), "0", "0", "0"] + ops))
        # the stream INPUT object (mpt_stream_input, what the event loop holds) as reader, driven like mpt_loop does: frames that
        # need scratch space written in one piece (nothing arrives afterwards that could trigger another enlargement)
        ni = 200 if tier == "quick" else 4000
        for i in range(ni):
            v = 50 + i % 4
            ops = []
            for _ in range(rng.choice([1, 1, 2, 3])):
                m = [rng.randrange(1, 256) for _ in range(rng.choice([0, 0, 5, 60, 200, 230]))]
                for _ in range(rng.choice([0, 3, 20, 31, 33, 64, 100, 300])):
                    m += [rng.randrange(1, 256)] * rng.choice([0, 1, 1, 2]) + [0, 0]
                m += [rng.randrange(1, 256) for _ in range(rng.choice([0, 0, 3]))]
                ops += ["send", hx(m)]
                if rng.random() < 0.6:
                    ops += ["drain"]
            ops += ["drain"]
            cases.append(" ".join([str(v), "0", "0", "0", "0"] + ops))
        # stream glue at MECHANISM level (harness/c02_glue.c, coq/Cobs/GlueRun.v): the real mpt_stream_push / flush /
        # poll / dispatch with scripted transfer sizes (partial writes, writes of 0, failing writes, short reads incl.
        # single bytes, reads into full and wrapped rings), rings of small capacities and arbitrary offsets
        ng = 1500 if tier == "quick" else 30000
        for i in range(ng):
            v = i % 4
            wcap = rng.choice([0, 8, 12, 16, 17, 24, 40, 64, 300])
            rcap = rng.choice([0, 8, 12, 16, 17, 24, 40, 64, 300])
            woff = rng.randrange(0, wcap) if wcap and rng.random() < 0.7 else 0
            roff = rng.randrange(0, rcap) if rcap and rng.random() < 0.7 else 0
            ops = []
            style = rng.random()
            maxn = rng.choice([3, 10, 30, 120, MAXLEN[v] + 3, 600]) if rng.random() < 0.8 else 40
            nops = rng.choice([4, 8, 16, 30])
            pend = False
            for _ in range(nops):
                k = rng.random()
                if k < 0.35:
                    m = self.gen_msg(rng, v, maxn)
                    if v >= 2 and rng.random() < 0.3:
                        # zero pairs: frames that expand on decoding (scratch space, MissingBuffer recovery, growth)
                        m = []
                        for _ in range(rng.choice([2, 6, 20, 40])):
                            m += [rng.randrange(1, 256)] * rng.choice([0, 1, 1, 2]) + [0, 0]
                    if m and rng.random() < 0.4:
                        cut = rng.randrange(0, len(m) + 1)
                        for piece in (m[:cut], m[cut:]):
                            if piece:
                                ops += ["gpush", hx(piece)]
                    elif m:
                        ops += ["gpush", hx(m)]
                    ops += ["gfin"]
                elif k < 0.55:
                    q = rng.choice([-1, 0, 1, 1, 2, 3, 5, 8, 17, 64, 100000])
                    ops += ["gflush", str(q)]
                elif k < 0.75:
                    q = rng.choice([0, 1, 1, 2, 3, 5, 8, 17, 64, 100000])
                    ops += ["gpoll", str(q)]
                elif k < 0.95:
                    ops += ["gdisp"] * rng.choice([1, 1, 2, 3])
                else:
                    ops += ["gdrain"]
            ops += ["gdrain"]
            cases.append(" ".join([str(30 + v), str(wcap), str(woff), str(rcap), str(roff)] + ops))
        # ... and frames that expand on decoding directly behind another frame, all bytes in the input ring before the
        # dispatcher runs (its look-ahead has to make room), small input rings
        nh = 300 if tier == "quick" else 6000
        for i in range(nh):
            v = 2 + i % 2
            ops = []
            for _ in range(rng.choice([1, 2, 3])):
                a = [rng.randrange(1, 256) for _ in range(rng.choice([1, 3, 5, 8, 9, 10, 11, 20]))]
                b = []
                for _ in range(rng.choice([6, 12, 18, 20, 24, 28, 40, 60])):
                    b += [rng.randrange(1, 256)] * rng.choice([0, 1, 1, 1, 2]) + [0, 0]
                ops += ["gpush", hx(a), "gfin", "gpush", hx(b), "gfin"]
                if rng.random() < 0.3:
                    ops += ["gpush", hx([rng.randrange(1, 256) for _ in range(rng.choice([1, 2, 6]))]), "gfin"]
                ops += ["gflush", "100000", "gpoll", "100000"] + ["gdisp"] * rng.choice([1, 2, 3, 4])
            ops += ["gdrain"]
            cases.append(" ".join([str(30 + v), str(rng.choice([0, 16, 64])), "0", str(rng.choice([0, 8, 16, 24, 64, 128])),
                                   str(rng.choice([0, 0, 3, 7]))] + ops))
        return cases

PROP = C02()
