"""C17 — fragmented messages read like contiguous ones (mptcore/message/*.c, array/array_message.c)."""
import itertools
from vcheck import DiffProperty, ASAN_ENV

ALPHA = [0x00, 0x20, 0x27, 0x22, 0x5c, 0x41, 0x0a]
ARITY = {"set": 1, "read": 2, "len": 0, "argv": 1, "chr": 1, "rchr": 1, "fcn": 1, "rfcn": 1, "str": 1, "rstr": 1,
         "tok": 3, "cpy": 2, "app": 1, "get": 6, "amsg": 1}
MUTATING = ("set", "read", "argv", "get")
TOKS = [("N", "N", "N"), ("N", "N", "2722"), ("N", "41", "N"), ("N", "41", "2722"), ("N", "5c", "27"),
        ("20", "N", "N"), ("200a", "N", "2722"), ("20", "41", "2722"), ("41", "N", "27"), ("-", "41", "N"),
        ("-", "N", "2722"), ("09200a0d0b", "N", "2722"), ("N", "0a", "N"), ("N", "2041", "22")]
SEPS = [0, 32, 65, 10]


def hx(bs):
    return "".join("%02x" % b for b in bs)


def ftok(frags):
    return "n" if frags is None else "f" + ",".join(hx(f) for f in frags)


def compositions(n, k):
    """all ways to write n as an ordered sum of k parts >= 0"""
    if k == 1:
        yield (n,)
        return
    for a in range(n + 1):
        for r in compositions(n - a, k - 1):
            yield (a,) + r


def cut(s, comp):
    out, p = [], 0
    for c in comp:
        out.append(s[p:p + c])
        p += c
    return out


def static_ops(n):
    ops = [["len"]]
    for b in ALPHA + [0x42]:
        ops.append(["chr", str(b)])
        ops.append(["rchr", str(b)])
    for k in (0, 1, 2):
        ops.append(["fcn", str(k)])
        ops.append(["rfcn", str(k)])
    for s in ("-", "2741", "0a20"):
        ops.append(["str", s])
        ops.append(["rstr", s])
    for t in TOKS:
        ops.append(["tok"] + list(t))
    dests = ["n", str(n), "0,%d,0,%d" % (n // 2, n - n // 2 + 1), "1,1,0,1", str(n + 2)]
    for ln in sorted(set([-1, 0, 1, n, n + 1])):
        for d in dests:
            ops.append(["cpy", str(ln), d])
    ops.append(["app", "-"])
    ops.append(["app", "4242"])
    for s in SEPS:
        ops.append(["amsg", str(s)])
    return ops


def mutating_ops(F, n):
    ops = []
    f = ftok(F)
    for k in range(0, n + 2):
        ops += [["set", f], ["read", str(k), "1"], ["len"], ["read", "1", "1"]]
    ops += [["set", f], ["read", str(max(1, n // 2)), "0"], ["read", str(n), "1"]]
    for s in SEPS + [39]:
        ops += [["set", f], ["argv", str(s)], ["len"], ["argv", str(s)], ["read", "1", "1"]]
    return ops


def flat(ops):
    return [t for o in ops for t in o]


def full_case(F):
    n = sum(len(f) for f in F) if F is not None else 0
    return " ".join([ftok(F)] + flat(static_ops(n)) + (flat(mutating_ops(F, n)) if F is not None else
                                                       ["read", "1", "1", "argv", "32", "len"]))


def get_cases(maxcap):
    cases = []
    for mx in range(1, maxcap + 1):
        for qoff in range(0, mx + 1):
            for ln in range(0, mx + 1):
                c = hx([0x41 + i for i in range(ln)]) or "-"
                ops = []
                for off in range(0, ln + 2):
                    for take in range(0, max(0, ln - off) + 2):
                        for v in (1, 0):
                            ops += [["get", str(mx), str(qoff), c, str(off), str(take), str(v)], ["len"],
                                    ["read", "1", "1"], ["chr", "66"]]
                cases.append(" ".join(["f"] + flat(ops)))
    return cases


class C17(DiffProperty):
    pid = "C17"
    claimed = True
    coq_dir = "C17"
    extract_vo = "C17/Extract.vo"
    mlname = "c17_model"
    driver = "c17_driver.ml"
    harness_src = "c17_message.c"
    libs = ["mptcore"]
    harness_env = dict(ASAN_ENV, ASAN_OPTIONS=ASAN_ENV["ASAN_OPTIONS"] + ":symbolize=0")
    rule = ("a case = one fragmentation of one byte string + the operations run on it; quick: EVERY string of length <= 3 over "
            "{00,20,27,22,5c,41,0a} x EVERY composition of its length into 1..4 fragments (zero-length fragments included, and the "
            "message without any part) x {length; memchr/memrchr of each alphabet byte and an absent one; memfcn/memrfcn with "
            "isspace/!isspace/isgraph; memstr/memrstr with 3 sets; memtok with 14 token/comment/escape settings; memcpy with 5 "
            "lengths (-1,0,1,n,n+1) x 5 target shapes; append to an empty and a filled array; array_message with 4 separators; "
            "read of every length 0..n+1 followed by length and another read; read with NULL target; argv with 5 separators twice} "
            "(exhaustive), every ring of capacity <= 4 x offset x fill x (off,take) window for message_get, plus every string of length 4 with 5 "
            "random fragmentations and 3000 random strings of length 5..6 with all their operations; thorough: the same exhaustively up to length 4 plus random strings up "
            "to length 24 over the alphabet extended by 09,0d,23,2c; a case is non-trivial when it has >= 2 fragments or an empty one")
    modelled = ("mptcore/message/{message_read,memchr,memfcn,memstr,memtok,memcpy,message_argv,message_append,message_get}.c and "
                "array/array_message.c transcribed in coq/C17/MessageModel.v; the array is modelled as its content bytes "
                "(mpt_array_append/slice/clone assumed to succeed, buffer management is C04's subject); EOVERFLOW paths "
                "(positions > SSIZE_MAX) and NULL data/function arguments (EFAULT) are not modelled")
    trusted = ["harness/c17_message.c places every fragment, the continuation iovec array and every target part in its own exact-size "
               "heap block and reads the cursor back from (base,used,cont,clen) without library calls",
               "isspace/isgraph of the C locale are modelled as ASCII ranges"]
    level_text = ("proof: Coq theorems C17_read_flat, C17_length_flat, C17_memchr_flat, C17_memrchr_flat, C17_memfcn_flat, "
                  "C17_memrfcn_flat, C17_memstr_flat, C17_memrstr_flat, C17_memtok_flat, C17_memcpy_flat_partial (+ C17_memcpy_noparts, "
                  "C17_memcpy_noparts_refuted), C17_argv_flat, C17_append_flat, C17_get_flat, C17_array_message_flat, C17_history_flat, "
                  "C17_history_no_fault state, for every list of fragments (any number, any lengths, empty ones anywhere; induction on "
                  "the list, no bound), that each transcribed operation returns exactly what the same operation returns on the "
                  "concatenated string and leaves a cursor that denotes the flat suffix; the model is tied to the code on every run by "
                  "differential execution (exhaustive over all short strings x all fragmentations x all operations) under ASan/UBSan "
                  "with one exact-size heap block per fragment")
    level_note = ("trusted: Coq kernel; hand transcription of the C files (validated by the correspondence run, not verified); "
                  "extraction and OCaml driver; harness. PARTIAL only for mpt_memcpy: with a zero part COUNT it returns 0 before looking "
                  "at len, so 'no part' and 'one empty part' (same flat string) differ (0 vs -1/-2); C17_memcpy_flat_partial guards "
                  "both counts non-zero, C17_memcpy_noparts states the zero-count result, C17_memcpy_noparts_refuted exhibits the "
                  "witness. The theorems hold for the tree with the four fix: commits (message_append, memtok comment skip, "
                  "message_argv trim, message_argv quote state). mpt_memtok's string arguments are cut at their NUL inside the model "
                  "(strlen). Array allocation success assumed; EOVERFLOW/EFAULT paths not modelled. All 18 theorems are closed under "
                  "the global context (no axioms).")
    technique = "Coq proof (fragment list -> flat string, per operation, by induction) + differential correspondence check"
    assumptions = ["mpt_array_append / mpt_array_slice succeed (allocation)", "positions stay below SSIZE_MAX",
                   "match function passed to mpt_memfcn is pure"]

    # ---- case structure
    def split(self, case):
        t = case.split()
        hdr, rest = t[:1], t[1:]
        ops, i = [], 0
        while i < len(rest):
            n = ARITY[rest[i]]
            ops.append(rest[i:i + n + 1])
            i += n + 1
        return hdr, ops

    def project(self, tok):
        if "|" not in tok:
            return tok
        o, st = tok.rsplit("|", 1)
        if o in ("G:0", "G:1"):
            o = "G:ok"
        return o + "|" + st.replace("/", "")

    def classify(self, case):
        hdr, ops = self.split(case)
        cl = set()
        fs = [hdr[0]] + [o[1] for o in ops if o[0] == "set"]
        for f in fs:
            if f == "n":
                cl.add("no-part")
                continue
            parts = f[1:].split(",")
            if len(parts) > 1:
                cl.add("fragments>=2")
            if any(p == "" for p in parts) and len(parts) > 1:
                cl.add("empty-fragment")
            if len(parts) >= 2 and parts[0] == "":
                cl.add("empty-first")
        for o in ops:
            if o[0] != "set":
                cl.add("op:" + o[0])
        if any(o[0] == "get" for o in ops):
            cl.add("ring")
        return cl

    # ---- shrinking: cut to the failing step, then simplify
    def focus(self, case, idx):
        """keep only what the step at index idx depends on"""
        hdr, ops = self.split(case)
        if idx < 0 or idx >= len(ops):
            return case
        start = 0
        for k in range(idx, -1, -1):
            if ops[k][0] in ("set", "get"):
                start = k
                break
        if ops[start][0] == "set":
            hdr = [ops[start][1]]
            seg = ops[start + 1:idx + 1]
        else:
            seg = ops[start:idx + 1]
        keep = [o for o in seg[:-1] if o[0] in MUTATING] + [seg[-1]] if seg else []
        return self.join(hdr, keep)

    def shrink(self, case, kind, workdir, budget=12):
        res, _ = self.evaluate([case], workdir, tagsuffix="_fo")
        r = res[0][kind]
        if r is not None and r[0] >= 0:
            c2 = self.focus(case, r[0])
            rr, _ = self.evaluate([c2], workdir, tagsuffix="_fo")
            if rr[0][kind] is not None and rr[0][kind][0] >= 0:
                case = c2
        return DiffProperty.shrink(self, case, kind, workdir, budget)

    def shrink_candidates(self, case):
        hdr, ops = self.split(case)
        for k in range(len(ops)):
            yield self.join(hdr, ops[:k] + ops[k + 1:])
        f = hdr[0]
        if f != "n":
            parts = f[1:].split(",")
            # drop a fragment, merge two neighbours, drop a byte, simplify a byte
            for i in range(len(parts)):
                if len(parts) > 1:
                    yield self.join(["f" + ",".join(parts[:i] + parts[i + 1:])], ops)
                if i + 1 < len(parts):
                    yield self.join(["f" + ",".join(parts[:i] + [parts[i] + parts[i + 1]] + parts[i + 2:])], ops)
                p = parts[i]
                for j in range(0, len(p), 2):
                    yield self.join(["f" + ",".join(parts[:i] + [p[:j] + p[j + 2:]] + parts[i + 1:])], ops)
                    if p[j:j + 2] != "41":
                        yield self.join(["f" + ",".join(parts[:i] + [p[:j] + "41" + p[j + 2:]] + parts[i + 1:])], ops)
        for k, o in enumerate(ops):
            if o[0] == "read" and int(o[1]) > 0:
                yield self.join(hdr, ops[:k] + [["read", str(int(o[1]) - 1), o[2]]] + ops[k + 1:])

    # ---- generator
    def strings(self, maxlen):
        for n in range(0, maxlen + 1):
            for s in itertools.product(ALPHA, repeat=n):
                yield list(s)

    def all_frags(self, s, maxk=4):
        for k in range(1, maxk + 1):
            for comp in compositions(len(s), k):
                yield cut(s, comp)

    def generate(self, rng, tier):
        cases = [full_case(None)]
        exh = 3 if tier == "quick" else 4
        for s in self.strings(exh):
            for F in self.all_frags(s):
                cases.append(full_case(F))
        cases += get_cases(4 if tier == "quick" else 6)
        if tier == "quick":
            # every string of length 4 with 5 random fragmentations
            for s in itertools.product(ALPHA, repeat=4):
                for _ in range(5):
                    k = rng.choice([2, 3, 3, 4, 4])
                    cuts = sorted(rng.randrange(0, 5) for _ in range(k - 1))
                    cases.append(full_case([list(s[a:b]) for a, b in zip([0] + cuts, cuts + [4])]))
        # random longer strings
        nrand = 3000 if tier == "quick" else 60000
        big = ALPHA + [0x09, 0x0d, 0x23, 0x2c]
        for i in range(nrand):
            if tier == "quick":
                n = rng.choice([5, 5, 6])
                s = [rng.choice(ALPHA) for _ in range(n)]
            else:
                n = rng.choice([5, 6, 7, 8, 12, 24])
                s = [rng.choice(big) for _ in range(n)]
            k = rng.choice([1, 2, 2, 3, 3, 4, 4, 5])
            cuts = sorted(rng.randrange(0, n + 1) for _ in range(k - 1))
            F = [s[a:b] for a, b in zip([0] + cuts, cuts + [n])]
            cases.append(full_case(F))
        return cases


PROP = C17()
