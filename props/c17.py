"""C17 — fragmented messages read like contiguous ones (mptcore/message/*.c, array/array_message.c)."""
import itertools, os, zlib
from vcheck import DiffProperty, ASAN_ENV

# Patch proposed under docs/ that is NOT in /repo yet.  The model (coq/C17/MessageModel.v m_memcpy) describes the code
# WITH the patch; while the constant is False the generator and the corpus leave out exactly the cases on which the
# patched and the unpatched code differ (mpt_memcpy with a zero part count on either side and len > 0).
# After committing docs/C17_memcpy_noparts.diff in /repo set it to True - nothing else.
#   replay on the unpatched tree: ./check C17 --replay docs/C17_replay_memcpy_noparts.json  (I `C:0:ee`, S `C:-1:ee`)
PATCHED_MEMCPY_NOPARTS = True      # committed in /repo: ef03c82
SSIZE_MAX = 2 ** 63 - 1

ALPHA = [0x00, 0x20, 0x27, 0x22, 0x5c, 0x41, 0x0a]
ARITY = {"set": 1, "read": 2, "len": 0, "argv": 1, "chr": 1, "rchr": 1, "fcn": 1, "rfcn": 1, "str": 1, "rstr": 1,
         "tok": 3, "cpy": 2, "app": 1, "get": 6, "amsg": 1, "appl": 2, "amsgl": 2, "amsgle": 2, "amsgn": 0, "null": 1, "rbig": 3}
MUTATING = ("set", "read", "argv", "get")
TOKS = [("N", "N", "N"), ("N", "N", "2722"), ("N", "41", "N"), ("N", "41", "2722"), ("N", "5c", "27"),
        ("20", "N", "N"), ("200a", "N", "2722"), ("20", "41", "2722"), ("41", "N", "27"), ("-", "41", "N"),
        ("-", "N", "2722"), ("09200a0d0b", "N", "2722"), ("N", "0a", "N"), ("N", "2041", "22")]
SEPS = [0, 32, 65, 10]


def hx(bs):
    return "".join("%02x" % b for b in bs)


def ftok(frags, nulls=()):
    """fragment list as case token; an EMPTY fragment whose index is in `nulls` is written `_`: { NULL, 0 } instead of an
    empty fragment with a live address (zero-size heap block)"""
    if frags is None:
        return "n"
    return "f" + ",".join("_" if (not f and i in nulls) else hx(f) for i, f in enumerate(frags))


def empties(F):
    return [i for i, f in enumerate(F) if not f] if F is not None else []


def null_variant(F):
    """which empty fragments lose their address in the second copy of an exhaustive case: all of them for every other
    fragmentation, else a non-empty subset picked by the case's checksum (over the 7^n strings of one composition every
    subset turns up)"""
    e = empties(F)
    c = zlib.crc32(("N" + ftok(F)).encode())
    if not e or c % 2 == 0:
        return frozenset(e)
    m = (c >> 1) % (2 ** len(e) - 1) + 1
    return frozenset(i for k, i in enumerate(e) if m >> k & 1)


def fparts(f):
    """fragment tokens of a header / set argument; (`_` and the empty string are both empty fragments)"""
    return f[1:].split(",")


def fjoin(a, b):
    """two neighbouring fragment tokens merged"""
    r = a.replace("_", "") + b.replace("_", "")
    return r or ("_" if "_" in (a, b) else "")


def compositions(n, k):
    """all ways to write n as an ordered sum of k parts >= 0"""
    if k == 1:
        yield (n,)
        return
    for a in range(n + 1):
        for r in compositions(n - a, k - 1):
            yield (a,) + r


def cut(s, comp):
    out, p = [], 0
    for c in comp:
        out.append(s[p:p + c])
        p += c
    return out


def static_ops(n, noparts=False, extra=True):
    ops = [["len"]]
    for b in ALPHA + [0x42]:
        ops.append(["chr", str(b)])
        ops.append(["rchr", str(b)])
    for k in (0, 1, 2):
        ops.append(["fcn", str(k)])
        ops.append(["rfcn", str(k)])
    for s in ("-", "2741", "0a20"):
        ops.append(["str", s])
        ops.append(["rstr", s])
    for t in TOKS:
        ops.append(["tok"] + list(t))
    dests = ["n", str(n), "0,%d,0,%d" % (n // 2, n - n // 2 + 1), "1,1,0,1", str(n + 2), "_,%d,_,%d,_" % (n - n // 2, n // 2)]
    for ln in sorted(set([-1, 0, 1, n, n + 1])):
        for d in dests:
            if ln > 0 and (noparts or d == "n") and not PATCHED_MEMCPY_NOPARTS:
                continue        # zero part count and a positive length: see PATCHED_MEMCPY_NOPARTS
            ops.append(["cpy", str(ln), d])
    ops.append(["app", "-"])
    ops.append(["app", "4242"])
    for s in SEPS:
        ops.append(["amsg", str(s)])
    # arrays that refuse: typed buffer (t), the (k+1)-th allocation fails
    for pre, lim in (("5151", "t"), ("-", "t"), ("5151", "0"), ("5151", "1"), ("-", "1"), ("5151", "2"), ("5151", "3"), ("-", "N")):
        ops.append(["appl", pre, lim])
    # (amsgl: the caller's array holds a typed result of an earlier call, amsgle: it has no buffer yet)
    for k in range(0, 2 * n + 4):
        ops.append(["amsgle" if k % 2 else "amsgl", "32", str(k)])
    for s, ks in ((0, (1, 2, 3, 2 * n + 2)), (65, (0, 1, "N"))):
        for k in ks:
            ops.append(["amsgl" if k == 1 else "amsgle", str(s), str(k)])
    ops.append(["amsgn"])
    # missing arguments (the same for every message: in one case out of eight)
    if extra:
        for k in range(11):
            ops.append(["null", str(k)])
    # backward searches whose position is (not) representable: a leading part of SSIZE_MAX - d bytes
    for d in range(0, n + 2):
        ops.append(["rbig", "chr", "65", str(SSIZE_MAX - d)])
    for i, (kind, arg) in enumerate((("chr", "32"), ("chr", "0"), ("fcn", "0"), ("fcn", "1"), ("fcn", "2"), ("str", "2741"),
                                     ("str", "0a20"), ("str", "-"))):
        ops.append(["rbig", kind, arg, str(SSIZE_MAX - ((n + 1) // 2 if i % 2 else 0))])
        if extra:
            ops.append(["rbig", kind, arg, str(SSIZE_MAX - (0 if i % 2 else (n + 1) // 2))])
            ops.append(["rbig", kind, arg, "0"])
    return ops


def mutating_ops(F, n, nulls=()):
    ops = []
    f = ftok(F, nulls)
    for k in range(0, n + 2):
        ops += [["set", f], ["read", str(k), "1"], ["len"], ["read", "1", "1"]]
    ops += [["set", f], ["read", str(max(1, n // 2)), "0"], ["read", str(n), "1"]]
    for s in SEPS + [39]:
        ops += [["set", f], ["argv", str(s)], ["len"], ["argv", str(s)], ["read", "1", "1"]]
    if len(F) == 1:
        # the usual single-part message: no continuation array at all (cont = NULL)
        g = "F" + f[1:]
        for s in SEPS:
            ops += [["set", g], ["argv", str(s)], ["len"], ["read", "1", "1"], ["argv", str(s)]]
        ops += [["set", g], ["read", str(n + 1), "1"], ["len"], ["set", g], ["amsg", "32"], ["app", "4242"]]
    return ops


def flat(ops):
    return [t for o in ops for t in o]


def full_case(F, nulls=()):
    n = sum(len(f) for f in F) if F is not None else 0
    extra = F is None or (not nulls and zlib.crc32(ftok(F).encode()) % 8 == 0)
    return " ".join([ftok(F, nulls)] + flat(static_ops(n, F is None, extra)) +
                    (flat(mutating_ops(F, n, nulls)) if F is not None else ["read", "1", "1", "argv", "32", "len"]))


def both_case(F):
    """an exhaustive case; when F has zero-length fragments the whole operation list runs a second time (same process, after
    a `set`) on the fragmentation whose empty fragments have no address: { NULL, 0 }"""
    c = full_case(F)
    if not empties(F):
        return c
    nulls = null_variant(F)
    n = sum(len(f) for f in F)
    return " ".join([c, "set", ftok(F, nulls)] + flat(static_ops(n, False, False)) + flat(mutating_ops(F, n, nulls)))


def rand_nulls(rng, F):
    """random cases: every empty fragment is { NULL, 0 } with probability 1/2"""
    return frozenset(i for i in empties(F) if rng.random() < 0.5)


def get_cases(maxcap):
    cases = []
    for mx in range(1, maxcap + 1):
        for qoff in range(0, mx + 1):
            for ln in range(0, mx + 1):
                c = hx([0x41 + i for i in range(ln)]) or "-"
                ops = []
                for off in range(0, ln + 2):
                    for take in range(0, max(0, ln - off) + 2):
                        for v in (1, 0):
                            ops += [["get", str(mx), str(qoff), c, str(off), str(take), str(v)], ["len"],
                                    ["read", "1", "1"], ["chr", "66"]]
                cases.append(" ".join(["f"] + flat(ops)))
    return cases


class C17(DiffProperty):
    pid = "C17"
    claimed = True
    coq_dir = "C17"
    extract_vo = "C17/Extract.vo"
    mlname = "c17_model"
    driver = "c17_driver.ml"
    harness_src = "c17_message.c"
    libs = ["mptcore"]
    extra_harness_flags = ["-Wl,--wrap=mpt_array_append", "-Wl,--wrap=mpt_array_slice"]
    harness_env = dict(ASAN_ENV, ASAN_OPTIONS=ASAN_ENV["ASAN_OPTIONS"] + ":symbolize=0")
    rule = ("a case = one fragmentation of one byte string + the operations run on it; quick: EVERY string of length <= 3 over "
            "{00,20,27,22,5c,41,0a} x EVERY composition of its length into 1..4 fragments (zero-length fragments included, and the "
            "message without any part); every fragmentation that has zero-length fragments is run TWICE (one case, second half after a `set`): with each of them in a live "
            "zero-size heap block, and with empty fragments WITHOUT address {NULL,0} (as MPT_MESSAGE_INIT / a zeroed iovec: all of "
            "them for every other case, else a checksum-picked non-empty subset, so every position mix occurs); each "
            "x {length; memchr/memrchr of each alphabet byte and an absent one; memfcn/memrfcn with "
            "isspace/!isspace/isgraph; memstr/memrstr with 3 sets; memtok with 14 token/comment/escape settings; memcpy with 5 "
            "lengths (-1,0,1,n,n+1) x 6 target shapes (one with {NULL,0} target parts around the live ones; a zero part count with a positive length only once PATCHED_MEMCPY_NOPARTS "
            "is set); append to an empty and a filled array; append to arrays that refuse: typed buffer (the real refusal of "
            "mpt_array_append) and the 1st..4th mpt_array_append call failing (link-time seam) with an empty and a filled array; "
            "array_message with 4 separators; array_message while the k-th array call (reservation, argument, separator) fails for "
            "EVERY k up to past the last call, onto a caller's array that holds an earlier result and onto one without buffer; "
            "array_message without message; backward searches (memrchr/memrfcn/memrstr) over <a part of SSIZE_MAX-d bytes that is "
            "never looked at> + the message for every d around the overflow edge; in one case of eight the 11 NULL-argument calls; "
            "read of every length 0..n+1 followed by length and another read; read with NULL target; argv with 5 separators twice; "
            "for single parts the same cursor operations with a NULL continuation pointer} "
            "(exhaustive), every ring of capacity <= 4 x offset x fill x (off,take) window for message_get, plus every string of length 4 with 5 "
            "random fragmentations and 3000 random strings of length 5..6 with all their operations (there every empty fragment is "
            "{NULL,0} with probability 1/2); thorough: the same exhaustively up to length 4 plus random strings up "
            "to length 24 over the alphabet extended by 09,0d,23,2c; a case is non-trivial when it has >= 2 fragments or an empty one")
    modelled = ("mptcore/message/{message_read,memchr,memfcn,memstr,memtok,memcpy,message_argv,message_append,message_get}.c and "
                "array/array_message.c transcribed in coq/C17/MessageModel.v, including their refusal branches: mpt_message_append "
                "and mpt_array_message with an array that refuses after k calls (m_append_lim, m_array_message_lim: rollback "
                "`_used = olen`, BadOperation/MissingBuffer with the caller's array untouched), the NULL-argument exits (EFAULT) "
                "and the SSIZE_MAX check of the position sums (pos_acc: size_t addition mod 2^64 compared after every step; driven "
                "for the backward searches, whose leading parts are never dereferenced). mpt_memcpy is modelled WITH "
                "docs/C17_memcpy_noparts.diff. The array is modelled as its content bytes + how many further calls it grants "
                "(buffer management is C04's subject). NOT executed (5 of 338 lines): the EOVERFLOW exits of the FORWARD searches "
                "(memchr.c:41, memfcn.c:45-46, memtok.c:117: the preceding parts have all been scanned, so more than SSIZE_MAX bytes "
                "of readable memory would be needed) and memtok.c:112 (dead: C17_memtok_found_unquoted)")
    trusted = ["harness/c17_message.c places every fragment, the continuation iovec array and every target part in its own exact-size "
               "heap block (an empty fragment written `_` gets NO block: iov_base = NULL, iov_len = 0; likewise `_` target parts of "
               "memcpy) and reads the cursor back from (base,used,cont,clen) without library calls",
               "harness/c17_message.c: mpt_array_append / mpt_array_slice as called from inside the library are replaced at link time "
               "(-Wl,--wrap) by a counter that lets the first k calls through to the real functions and then returns NULL without "
               "touching the array, as a failed allocation does; typed-buffer refusals are the real ones",
               "isspace/isgraph of the C locale are modelled as ASCII ranges"]
    level_text = ("proof: Coq theorems C17_read_flat, C17_length_flat, C17_memchr_flat, C17_memrchr_flat, C17_memfcn_flat, "
                  "C17_memrfcn_flat, C17_memstr_flat, C17_memrstr_flat, C17_memtok_flat, C17_memcpy_flat (+ C17_memcpy_noparts), "
                  "C17_argv_flat, C17_append_flat, C17_get_flat, C17_array_message_flat, C17_append_refusing_flat (+ _none, "
                  "C17_append_asks_iff_text), C17_array_message_refusing_flat (+ _none), C17_array_message_fits, "
                  "C17_memtok_found_unquoted, C17_position_sum_checked, C17_rbig_flat, C17_history_flat, C17_history_no_fault, "
                  "C17_history_side_conditions state, for every list of fragments (any number, any lengths, empty ones anywhere; induction on "
                  "the list, no bound), that each transcribed operation returns exactly what the same operation returns on the "
                  "concatenated string and leaves a cursor that denotes the flat suffix - including what happens when the target "
                  "array refuses (all of the flat text or nothing, the same error at the same call as on the flat text) and when a "
                  "position is not representable (EOVERFLOW exactly then); the model is tied to the code on every run by "
                  "differential execution (exhaustive over all short strings x all fragmentations x all operations) under ASan/UBSan "
                  "with one exact-size heap block per fragment; the model has no notion of a fragment's address (a fragment is its byte "
                  "list), so the theorems say that an empty fragment contributes nothing wherever it lives - the run therefore "
                  "presents empty fragments both with a live address and as {NULL,0}")
    level_note = ("trusted: Coq kernel; hand transcription of the C files (validated by the correspondence run, not verified); "
                  "extraction and OCaml driver; harness incl. its link-time failure seam. mpt_memcpy: the theorem is now FULL "
                  "(every pair of fragment lists, zero part counts included) and holds of the code WITH docs/C17_memcpy_noparts.diff "
                  "(OPEN in /repo: without it a zero part COUNT returns 0 before len is looked at, so 'no part' and 'one empty part' "
                  "- the same flat string - give 0 resp. -1/-2; replay docs/C17_replay_memcpy_noparts.json); until the patch is "
                  "committed PATCHED_MEMCPY_NOPARTS in props/c17.py keeps exactly the differing cases (zero count, len > 0) out. "
                  "Which append of a multi-fragment message an allocation failure hits depends on the fragmentation (one call per "
                  "non-empty fragment); the specification therefore takes the accept/refuse decision from the run where the "
                  "interface allows both (0 < grants), and fixes it where it does not (empty text: accept; typed buffer: refuse "
                  "every non-empty text; unlimited: accept); mpt_array_message makes one call per ARGUMENT, so there the refusing "
                  "call is determined by the flat text alone and proved so. C17_rbig_flat / the history theorems carry the side "
                  "condition that part lengths are object sizes (<= SSIZE_MAX); under it the size_t sums cannot wrap unseen "
                  "(C17_position_sum_checked). The theorems hold for the tree with the four earlier fix: commits (message_append, "
                  "memtok comment skip, message_argv trim, message_argv quote state). mpt_memtok's string arguments are cut at their "
                  "NUL inside the model (strlen). Side observation outside the property (same for one fragment): mpt_array_message "
                  "ignores the BadType of its final mpt_array_clone, so a caller's array that already holds RAW data keeps it while "
                  "the argument count is returned. All theorems are closed under the global context (no axioms).")
    technique = "Coq proof (fragment list -> flat string, per operation, by induction) + differential correspondence check"
    assumptions = ["part lengths and the leading length of the overflow cases are object sizes (<= SSIZE_MAX)",
                   "match function passed to mpt_memfcn is pure",
                   "docs/C17_memcpy_noparts.diff for the zero-part-count cases of mpt_memcpy (left out of the run until committed)"]

    def corpus(self):
        """a corpus line `@MEMCPY_NOPARTS <case>` is used only when that PATCHED_ switch is on"""
        out = []
        for line in DiffProperty.corpus(self):
            if line.startswith("@"):
                need, line = line[1:].split(None, 1)
                if not all(globals().get("PATCHED_" + n, False) for n in need.split(",")):
                    continue
            out.append(line)
        return out

    # ---- case structure
    def split(self, case):
        t = case.split()
        hdr, rest = t[:1], t[1:]
        ops, i = [], 0
        while i < len(rest):
            n = ARITY[rest[i]]
            ops.append(rest[i:i + n + 1])
            i += n + 1
        return hdr, ops

    def project(self, tok):
        if "|" not in tok:
            return tok
        o, st = tok.rsplit("|", 1)
        if o in ("G:0", "G:1"):
            o = "G:ok"
        return o + "|" + st.replace("/", "")

    def classify(self, case):
        hdr, ops = self.split(case)
        cl = set()
        fs = [hdr[0]] + [o[1] for o in ops if o[0] == "set"]
        for f in fs:
            if f == "n":
                cl.add("no-part")
                continue
            parts = fparts(f)
            if len(parts) > 1:
                cl.add("fragments>=2")
            if any(p in ("", "_") for p in parts) and len(parts) > 1:
                cl.add("empty-fragment")
            if len(parts) >= 2 and parts[0] in ("", "_"):
                cl.add("empty-first")
            if "_" in parts:
                cl.add("null-base-fragment")
                if "_" in parts[1:-1] and any(len(p) > 1 for p in parts[parts.index("_"):]):
                    cl.add("null-base-inside")
            if "" in parts:
                cl.add("live-empty-fragment")
        for o in ops:
            if o[0] != "set":
                cl.add("op:" + o[0])
        if any(o[0] == "get" for o in ops):
            cl.add("ring")
        return cl

    # ---- shrinking: cut to the failing step, then simplify
    def focus(self, case, idx):
        """keep only what the step at index idx depends on"""
        hdr, ops = self.split(case)
        if idx < 0 or idx >= len(ops):
            return case
        start = 0
        for k in range(idx, -1, -1):
            if ops[k][0] in ("set", "get"):
                start = k
                break
        if ops[start][0] == "set":
            hdr = [ops[start][1]]
            seg = ops[start + 1:idx + 1]
        else:
            seg = ops[start:idx + 1]
        keep = [o for o in seg[:-1] if o[0] in MUTATING] + [seg[-1]] if seg else []
        return self.join(hdr, keep)

    def shrink(self, case, kind, workdir, budget=12):
        res, _ = self.evaluate([case], workdir, tagsuffix="_fo")
        r = res[0][kind]
        if r is not None and r[0] >= 0:
            c2 = self.focus(case, r[0])
            rr, _ = self.evaluate([c2], workdir, tagsuffix="_fo")
            if rr[0][kind] is not None and rr[0][kind][0] >= 0:
                case = c2
        return DiffProperty.shrink(self, case, kind, workdir, budget)

    def shrink_candidates(self, case):
        hdr, ops = self.split(case)
        for k in range(len(ops)):
            yield self.join(hdr, ops[:k] + ops[k + 1:])
        f = hdr[0]
        if f != "n":
            parts = fparts(f)
            # drop a fragment, merge two neighbours, give an empty fragment an address, drop a byte, simplify a byte
            for i in range(len(parts)):
                if len(parts) > 1:
                    yield self.join([f[0] + ",".join(parts[:i] + parts[i + 1:])], ops)
                if i + 1 < len(parts):
                    yield self.join([f[0] + ",".join(parts[:i] + [fjoin(parts[i], parts[i + 1])] + parts[i + 2:])], ops)
                p = parts[i]
                if p == "_":
                    yield self.join([f[0] + ",".join(parts[:i] + [""] + parts[i + 1:])], ops)
                    continue
                for j in range(0, len(p), 2):
                    yield self.join(["f" + ",".join(parts[:i] + [p[:j] + p[j + 2:]] + parts[i + 1:])], ops)
                    if p[j:j + 2] != "41":
                        yield self.join(["f" + ",".join(parts[:i] + [p[:j] + "41" + p[j + 2:]] + parts[i + 1:])], ops)
        for k, o in enumerate(ops):
            if o[0] == "read" and int(o[1]) > 0:
                yield self.join(hdr, ops[:k] + [["read", str(int(o[1]) - 1), o[2]]] + ops[k + 1:])

    # ---- generator
    def strings(self, maxlen):
        for n in range(0, maxlen + 1):
            for s in itertools.product(ALPHA, repeat=n):
                yield list(s)

    def all_frags(self, s, maxk=4):
        for k in range(1, maxk + 1):
            for comp in compositions(len(s), k):
                yield cut(s, comp)

    def generate(self, rng, tier):
        cases = [full_case(None)]
        exh = 3 if tier == "quick" else 4
        for s in self.strings(exh):
            for F in self.all_frags(s):
                cases.append(both_case(F))
        cases += get_cases(4 if tier == "quick" else 6)
        if tier == "quick":
            # every string of length 4 with 5 random fragmentations
            for s in itertools.product(ALPHA, repeat=4):
                for _ in range(5):
                    k = rng.choice([2, 3, 3, 4, 4])
                    cuts = sorted(rng.randrange(0, 5) for _ in range(k - 1))
                    F = [list(s[a:b]) for a, b in zip([0] + cuts, cuts + [4])]
                    cases.append(full_case(F, rand_nulls(rng, F)))
        # random longer strings
        nrand = 3000 if tier == "quick" else 60000
        big = ALPHA + [0x09, 0x0d, 0x23, 0x2c]
        for i in range(nrand):
            if tier == "quick":
                n = rng.choice([5, 5, 6])
                s = [rng.choice(ALPHA) for _ in range(n)]
            else:
                n = rng.choice([5, 6, 7, 8, 12, 24])
                s = [rng.choice(big) for _ in range(n)]
            k = rng.choice([1, 2, 2, 3, 3, 4, 4, 5])
            cuts = sorted(rng.randrange(0, n + 1) for _ in range(k - 1))
            F = [s[a:b] for a, b in zip([0] + cuts, cuts + [n])]
            cases.append(full_case(F, rand_nulls(rng, F)))
        return cases


PROP = C17()
