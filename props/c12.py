"""C12 — each request is answered at most once, to the right requester
(mptcore/message/message_id.c, mptcore/event/reply_deferrable.c, reply_set.c, context_reply.c; their mptio users
mptio/connection/connection_dispatch.c, mptio/output_remote.c, mptio/stream/stream_sync.c, stream_reply.c, stream_input.c).
Round 6: case kinds nrc (mpt_context_reply without context) and sin mode Q<n> (roll-back of mpt_stream_reply), coq/C12/SrmModel.v, SrmProofs.v."""
import itertools
from vcheck import DiffProperty

ARITY = {"req": 5, "conv": 1, "arm": 1, "armz": 1, "reply": 1, "creply": 2, "defer": 0, "hreply": 2, "ref": 0, "unref": 0,
         # connection cases (harness/c12_conn.c)
         "tx": 1, "dp": 2, "dp0": 0, "hr": 2, "aw": 1, "ps": 1, "pe": 0, "sy": 0, "cl": 0,
         # round 3: the rest of the object of mpt_output_remote()
         "a0": 1, "rf": 0, "no": 0, "nh": 0, "cv": 1, "gp": 1, "lg": 2, "as": 1, "sp": 1, "op": 1,
         # stream input items
         "rqd": 3, "rq0": 1, "scv": 1, "srf": 0}

# ---------------------------------------------------------------------------------------------
# Patches proposed under /verif/docs/C12_*.diff.  The connection model (coq/C12/ConnModel.v) describes
# the code WITH these patches.  Flip an entry to True once the patch is committed in /repo: the
# generator then emits the cases that depend on it.  Nothing else (no environment variable, no
# probing of /repo) decides this.
COMMITTED = {
    "dispatch_sw": True,          # C12_dispatch_sw.diff          connection_dispatch.c: struct _streamWrapper never filled
    "answer_once": True,          # C12_answer_once.diff          connection_dispatch.c, output_remote.c: answered request stays registered
    "dgram_nocmd_reply": True,    # C12_dgram_nocmd_reply.diff    connection_dispatch.c: discard branch answers without reply mark
    "next_size": True,            # C12_next_size.diff            output_remote.c: remoteNext compares the address length with the id length
    "stream_sync": True,          # C12_stream_sync.diff          stream_sync.c: returns on success, never consumes, short id unchecked
    "dgram_recv_slice": True,     # C12_dgram_recv_slice.diff     outdata_recv.c: mpt_array_slice(off, len) arguments swapped
    "dgram_reply_long": True,     # C12_dgram_reply_long.diff     outdata_reply.c: reply longer than 256 bytes copies from NULL
    "dgram_push_cid": True,       # C12_dgram_push_cid.diff       connection_push.c: datagram backend never clears con->cid
    "dgram_shared_buf": True,     # C12_dgram_shared_buf.diff     outdata_push.c: outgoing message appended behind the datagram received before
    "assign_stream": True,        # C12_assign_stream.diff        connection_assign.c: first stream socket goes to mpt_stream_dopen(NULL, ...)
    # round 3 (committed: 80ffd0b, ea8dff5, d6c5a3a, 4a92b48)
    "default_waiter_format": True,   # C12_default_waiter_format.diff  command_reserve.c: log_reply formats "%s (" PRIxPTR "): %s" - the id is printed as string (crash)
    "stream_input_skip": True,       # C12_stream_input_skip.diff      stream_input.c: dispatch(NULL) consumes the message twice, every later dispatch fails
    "dgram_next_pollout": True,      # C12_dgram_next_pollout.diff     output_remote.c: next(POLLOUT) sends the datagram received before back to the peer
    "close_stream_dangling": True,   # C12_close_stream_dangling.diff  connection_fini.c: closed stream stays in out.buf; a datagram socket set afterwards uses it as buffer
    # round 6 (roll-back of mpt_stream_reply, sin mode Q<n>); flip to True after the commit, nothing else
    "reply_rollback_active": True,   # C12_reply_rollback_active.diff  stream_push.c: deleting the message in progress is handled like appended data (MesgActive set for good, length arithmetic on the position: crash)
    "reply_rollback_blocks": True,   # C12_reply_rollback_blocks.diff  encode_cobs.c: deleting the message in progress keeps its finished COBS blocks (glued in front of the next frame)
    "reply_id_partial": True,        # C12_reply_id_partial.diff       stream_reply.c: an id pushed only in part is sent (truncated id on the wire)
}


def q_attempt(cap, m):
    """COBS queue of cap bytes, empty: (accepted, bytes consumed, a block was finished among them) for the frame of message m"""
    u = c = 0
    closed = False
    for k, b in enumerate(m):
        nu, nc, ncl = u, c, closed
        if nc == 0:
            nu, nc = nu + 1, 1
        if b == 0:
            nu, nc, ncl = nu + 1, 1, True
        elif nc + 1 == 255:
            nu, nc, ncl = nu + 2, 1, True
        else:
            nu, nc = nu + 1, nc + 1
        if nu > cap:
            return False, k, closed
        u, c, closed = nu, nc, ncl
    need = 2 if c == 0 else u + 1
    return need <= cap, len(m), closed


def q_needs(t):
    """sin case with a write queue of fixed size (mode Q<n>): patches the roll-back of its refused replies depends on"""
    need = set()
    il, cap = int(t[1]), int(t[2][1:])
    i = 3
    while i < len(t):
        n = ARITY.get(t[i], 0)
        o = t[i:i + n + 1]
        i += n + 1
        if o[0] not in ("req", "rqd") or not il:
            continue
        b = bytes.fromhex(o[1]) if o[1] != "-" else b""
        if len(b) < il or b[0] & 0x80 or not any(b[:il]):
            continue
        mid = bytes([b[0] | 0x80]) + b[1:il]
        if o[0] == "req":
            reps, code = [o[3], o[4]][:int(o[2])], int(o[5])
        else:
            reps, code = [o[2]], int(o[3])
        atts = [mid + (bytes.fromhex(r) if r not in ("null", "-") else b"") for r in reps]
        atts.append(mid + bytes([1, (code if code < 0 else 0) & 0xff]))
        for m in atts:
            ok, k, closed = q_attempt(cap, m)
            if ok:
                break
            if k == 0:
                continue            # refused before anything was queued: no roll-back
            need.add("reply_rollback_active")
            if closed:
                need.add("reply_rollback_blocks")
            if k < il:
                need |= {"reply_id_partial", "reply_rollback_blocks"}
    return need


def con_needs(case):
    """patches a connection / stream input case depends on (its behaviour differs between /repo as is and the patched code)"""
    t = case.split()
    if t[0] == "sin":
        items = [x for x in t[3:] if x in ("req", "rqd", "rq0", "scv", "srf")]
        need = q_needs(t) if t[2][0] == "Q" else set()
        if "rq0" in items[:-1]:
            need.add("stream_input_skip")       # a skipped message breaks every later dispatch
        return need
    if t[0] != "con":
        return set()
    dg, idl = t[1] == "d", int(t[2])
    need = set()
    if t[1] == "a":
        need.add("assign_stream")       # stream socket handed over with mpt_connection_assign
    ops, i = [], 3
    while i < len(t):
        n = ARITY.get(t[i], 0)
        ops.append(t[i:i + n + 1])
        i += n + 1
    seen_tx = marked = recvd = False
    # the backend after changes: sets of possibilities (a change is refused while an outgoing message is open, which
    # this function does not track exactly: after the first "ps" both outcomes are kept)
    dgs, gones = {dg}, {False}
    may_active = False
    names = [o[0] for o in ops]
    if "a0" in names and any(o[0] == "tx" and idl and o[1] != "-" and int(o[1][:2], 16) & 0x80 for o in ops):
        need.add("default_waiter_format")       # an answer may reach the default handler of mpt_command_reserve
    for o in ops:
        isdg = True in dgs and False in gones           # possibly an open datagram backend
        isst = False in dgs and False in gones          # possibly an open stream backend
        if o[0] == "tx":
            seen_tx = True
            if idl and o[1] != "-" and int(o[1][:2], 16) & 0x80:
                marked = True
        elif o[0] in ("dp", "dp0"):
            if not seen_tx:
                continue        # nothing to receive: the dispatcher returns before it looks at a message
            if isdg:
                recvd = True
                need |= {"dgram_recv_slice", "next_size"}
                if o[0] == "dp0":
                    need.add("dgram_nocmd_reply")
                for a in (o[1].split(",") if o[0] == "dp" else []):
                    if a.startswith("r") and a not in ("rnull", "r-") and len(a) // 2 > 256 - idl:
                        need.add("dgram_reply_long")
            if isst:
                need.add("dispatch_sw")
            if marked:
                need.add("answer_once")
        elif o[0] == "sy" and seen_tx:
            if isdg:
                recvd = True
                need.add("dgram_recv_slice")
            if isst:
                need.add("stream_sync")
            if marked:
                need.add("answer_once")
        elif o[0] in ("aw", "a0", "ps", "pe", "lg"):
            if o[0] == "ps":
                may_active = True
            if isdg:
                if o[0] in ("aw", "a0", "ps"):
                    need.add("dgram_push_cid")
                if recvd:
                    need.add("dgram_shared_buf")    # the buffer still holds the datagram received before
        elif o[0] == "hr" and isdg and o[2] not in ("null", "-") and len(o[2]) // 2 > 256 - idl:
            need.add("dgram_reply_long")
        elif o[0] == "no" and isdg and recvd:
            need.add("dgram_next_pollout")      # the datagram received before is sent back
        elif o[0] == "nh" and True in dgs:
            gones = gones | {True} if False in dgs else {True}
        elif o[0] in ("as", "sp", "op"):
            k = o[1]
            if isst and k in ("d", "D", "x"):
                need.add("close_stream_dangling")
            if k == "a":
                need.add("assign_stream")
            ng = {k == "x"}
            nd = dgs if k == "x" else {k in ("d", "D")}
            if may_active and not (o[0] == "as" and k == "x"):
                dgs, gones = dgs | nd, gones | ng
            else:
                dgs, gones = set(nd), ng
                if not (isst and k == "a" and o[0] != "op"):
                    recvd = False
                seen_tx = False
    return need


def con_enabled(case):
    return all(COMMITTED[k] for k in con_needs(case))


ID_ALPHA = [0x00, 0x01, 0x7f, 0x80, 0x81, 0xff]      # boundary values of one id byte


def hx(bs):
    return "".join("%02x" % b for b in bs) if bs else "-"


def boundary_ids():
    s = {0, 1, 2, 0x7f, 0x80, 0xff, 0x100, 2 ** 63, 2 ** 64 - 1}
    for k in range(1, 65):
        for d in (-1, 0, 1):
            v = 2 ** k + d
            if 0 <= v < 2 ** 64:
                s.add(v)
    return sorted(s)


class C12(DiffProperty):
    claimed = True
    pid = "C12"
    coq_dir = "C12"
    extract_vo = "C12/Extract.vo"
    mlname = "c12_model"
    driver = "c12_driver.ml"
    harness_src = "c12_reply.c"
    extra_harness_flags = ["-Wl,--wrap=mpt_queue_prepare"]      # write-queue limit of the sin cases (mode L<n>)
    libs = ["mptcore", "mptio"]
    rule = ("case kinds id2buf, buf2id, sin, sinx, ctx, con, rsv, nrc. id2buf: id x header width (ids 0, 2^k-1, 2^k, 2^k+1 for k=1..64, 2^63, 2^64-1 and random; "
            "widths 0..9 exhaustively for the boundary ids, 0..12 for random ones), written into an exact-size heap buffer and read "
            "back with buf2id. buf2id: arbitrary byte strings of 0..12 bytes (leading zeros, >8 significant bytes, top bits set). "
            "sin: mptio stream input over a socketpair (id width 0..9, read-only or bidirectional), 1..3 COBS-framed messages "
            "(request id / zero id / reply-marked id / too short), handler replying 0..2 times and returning a status. "
            "ctx: a reply context (id width 0..9/16, with/without send handler and target, transport script of accept/reject answers) "
            "+ history over conv/arm/armz/reply/creply/defer/hreply/ref/unref; quick: every history of length<=3 over a 12-letter "
            "alphabet x 3 transport scripts (exhaustive) plus random histories that keep one or two (sometimes more) requests "
            "outstanding. con: the object of mpt_output_remote() over a socketpair (datagram backend or COBS stream backend, id width "
            "0,1,2,3,4,8,9) + history over tx (peer sends request / zero id / answer to an awaited, unknown or unusable id / short "
            "message), dp (next+dispatch to a handler that replies 0..2 times, defers, or replies 250..700 bytes, and returns a status), "
            "dp0 (dispatch without handler), hr (reply through a deferred handle, also while an outgoing message is composed and after "
            "the connection is released), aw / ps..pe (await + push of an outgoing request, in one piece or left open), sy (sync), cl "
            "(release): 57 hand-written histories (among them the id space of a one-byte header used up and recycled) + 3000 random "
            "ones (quick). Backend letter: d = datagram socketpair handed over with mpt_connection_assign, s = stream opened with "
            "mpt_connection_open to a listening unix socket, a = stream socketpair handed over with mpt_connection_assign + default "
            "encoding. Wait table (command_reserve.c incl. compaction, command_get.c): n = 1..8 requests in flight (1..10 thorough), EVERY "
            "subset of them answered, a new await, then an answer for every id ever handed out (open ones must reach their waiter once, "
            "answered ones nobody) and one more round - 510 layouts for 2-byte ids on a stream + 126 each for 1-byte ids and datagrams + 62 "
            "for 8-byte ids; 2000 random wait-table histories (up to 8 in flight; answers oldest-first / newest-first / alternating / "
            "random; answers repeated, to ids answered earlier and to ids never handed out; delivery by dispatch or sync; awaits in "
            "between; several rounds). Incoming ids from the boundary alphabet {00,01,7f,80,81,ff} per byte: every combination for id "
            "widths 1..3 (1..4 thorough), for widths 4..9 every single position x value over a background of 00/80/ff bytes, equal bytes, "
            "first/second/last byte against the rest + random combinations; each on stream and datagram (and assigned stream), dispatched "
            "without handler, answered at once, answered twice, left to the generic answer (code 0 / not 0), deferred and answered or "
            "released later (five messages per connection); the same alphabet for stream_input.c (sin) and in the random histories. "
            "Round 3, the rest of the object of mpt_output_remote() (same con language): rf / cl (references: the last cl ends the "
            "connection), a0 (await without handler: the default handler of mpt_command_reserve, answers of every message type it "
            "distinguishes: Answer with code 0 / <0 / >0, short, Output, other, empty), answers that start with ff (the harness' answer "
            "handler returns -3: dispatch result, early end of sync with table kept / compressed), no / nh (next(POLLOUT) / next(POLLHUP) on "
            "both backends, also with a message half composed, a datagram received, a deferred handle alive), lg (mpt_log through the "
            "logger interface: types 0,1..5,8,0x20,0x7f, text 0..40 bytes, also into an open message and with a datagram pending), "
            "cv / gp (convert() for every type it knows + an unknown one, property \"\" and color), as / op / sp (another backend: "
            "mpt_connection_assign with a datagram socket / stream socket / NULL, mpt_connection_open to a stream / datagram target, "
            "the property \"\" with a socket, a target string or nothing - on an open stream, an open datagram socket, after a hang-up, "
            "with requests in flight, deferred handles alive, a message half composed): 112 hand-written histories + 2500 random ones "
            "(quick). rsv: direct calls of mpt_command_reserve(arr, max) for max = 0..9 and 16 (every arm of its switch) mixed with "
            "released slots, the 127 ids of a one-byte header used up and re-used. sin additions: stream input with a write side "
            "without queue (every reply fails), handler asking for a deferred handle (refused), dispatch without handler, convert / "
            "addref / clone, 72 argument combinations of mpt_stream_input (id width 0/2/255/256/1000, modes, coding 0 / COBS, bad "
            "descriptor). "
            "Round 6: nrc = mpt_context_reply() WITHOUT reply context (code 0 / >0 / <0 / outside char x no text, empty, short, 40 and "
            "300 bytes; result and what appears on descriptor 2). sin mode Q<n> = stream input whose write queue is given exactly n "
            "bytes and refuses to grow (mpt_queue_prepare wrapped: what a failing realloc does), so mpt_stream_reply has to roll back: "
            "id 0001 x replies of 0..6 bytes (with / without zero bytes) x every n = 0..13, replies of 248..258 bytes without zero byte "
            "(COBS block boundary) x n around the frame size, ids of 4 / 8 / 254 / 255 bytes in queues smaller than the id, 700 random "
            "cases (1..3 requests, two replies each from 0..300 bytes with 0 / 10 / 50 % zero bytes, deferred-handle request, handler "
            "status, n = frame size of one of the replies -40..+2 or 0..11): the reply fails before anything is queued / inside the id / "
            "inside the message / at the delimiter, the handler's second reply or the generic answer is the retry, a second request "
            "follows on the same stream. "
            "Only those whose behaviour does not depend on a patch of docs/C12_*.diff that is not yet committed are run "
            "(constant COMMITTED in props/c12.py). A case is non-trivial when it is an id case with id != 0, a history that arms at "
            "least one request, or a connection history; distinct = distinct case text")
    modelled = ("mptcore/message/message_id.c, mptcore/event/reply_set.c, reply_deferrable.c (contextSend/Set/Defer/Unref/Ref/Conv/"
                "Detach, deferReply, mpt_reply_deferrable), the reply-context branch of context_reply.c and mptcore/misc/refcount.c "
                "transcribed in coq/C12/ReplyModel.v; the log output of contextSend (mpt_log) and malloc failure are not modelled. "
                "coq/C12/ConnModel.v transcribes, WITH the patches docs/C12_*.diff, mptio/connection/connection_dispatch.c (both "
                "branches of mpt_connection_dispatch, streamWrapper, replyConnection), the parts of mptio/output_remote.c that deal with "
                "messages (remoteNext for the datagram backend, remoteDispatch, remotePush, remoteSync, remoteAwait, remoteUnref), "
                "mptio/stream/stream_sync.c, and what they call: connection_await.c, connection_push.c, connection_fini.c, "
                "mptcore/event/command_reserve.c, command_get.c (wait table incl. the compaction loop); the reply context is not "
                "modelled a second time: the connection drives the ReplyModel.v operations, the transport answer (sendto result / "
                "mpt_stream_reply: 0 or BadArgument while a message is composed) is computed from the connection state. Kernel objects are "
                "abstracted to queues of complete messages; mpt_stream_reply/push/flush/poll, mpt_outdata_* and the COBS codec are executed "
                "but not modelled (C01/C02/C13); the value returned by next() of the stream backend and the code for 'no message' "
                "(MissingData or 0) are not compared; the property/conversion/log functions of output_remote.c (remoteConv, remoteProperty, "
                "remoteSetProperty, remoteLog), a socket address part of datagrams (_smax, never set by the library) are outside the model; "
                "the datagram backend keeps input and output in one "
                "buffer (out.buf): modelled as two, a push while a received "
                "datagram waits for its dispatch is refused with ActiveInput and the waiter is called with NULL (modelled as is). "
                "Round 3: the whole object is in the model - remoteRef / remoteUnref (count; the last release is mpt_connection_fini), "
                "remoteAwait without handler (log_reply of command_reserve.c as handler with tag 0: returns 0, its log output is not "
                "compared), the return value of answer handlers (streamWrapper hands it on, the datagram branch turns a negative one into "
                "MissingBuffer, mpt_stream_sync ends its loop and keeps or compresses the table, remoteSync returns 0), remoteNext with "
                "POLLOUT (AS PATCHED by docs/C12_dgram_next_pollout.diff: nothing) and POLLHUP (datagram: mpt_outdata_close - the "
                "connection has no backend any more, requests in flight and reply context stay; stream: mpt_stream_poll, value not "
                "compared), remoteLog = mpt_output_vlog as push + finish of the bytes it composes (composed by the driver from the log type "
                "and text), mpt_connection_assign / mpt_connection_open / mpt_connection_set(\"\") on an open connection (re-open of the "
                "stream: everything kept, the property clears the wait table; else mpt_connection_close AS PATCHED by "
                "docs/C12_close_stream_dangling.diff: waiting handlers get NULL, the reply context is released = OUnref of ReplyModel.v with "
                "a refusing transport, new backend), remoteConv / remoteProperty as functions of the state. A connection gets ONE reply "
                "context per history: a request arriving after a backend change that released the context is outside the model (not "
                "generated). MPT_OUTFLAG(Active) survives mpt_connection_close of a stream (only mpt_connection_assign(con, NULL) gets there "
                "with a message open): modelled as is (later assign/open refused, dispatch answers Retry). "
                "mpt_command_reserve is also modelled for any id limit (reserve_max, maxid_raw = its switch) and run directly (rsv). "
                "mptio/stream/stream_input.c (streamMessage/streamReply/streamDefer/streamDispatch/streamConv + stream_reply.c) is modelled "
                "at correspondence level only (sin_request of ReplyModel.v, sin_request2 / sin_skip / sin_conv / sin_create_ok of "
                "SinModel.v, no theorem; dispatch without handler AS PATCHED by docs/C12_stream_input_skip.diff). "
                "Round 6: mptio/stream/stream_reply.c (every branch) with mptio/stream/stream_append.c and the three uses of "
                "mptio/stream/stream_push.c (data, end of message, deletion of the message in progress) is transcribed in "
                "coq/C12/SrmModel.v AS PATCHED by docs/C12_reply_rollback_active.diff, C12_reply_rollback_blocks.diff and "
                "C12_reply_id_partial.diff: the write queue is the list of complete messages it holds + the bytes of the message in "
                "progress + MPT_STREAMFLAG(MesgActive); how much a push takes is a parameter (any behaviour of realloc) for the theorems "
                "and 'COBS queue of n bytes that cannot grow' (encoder state = bytes used + code of the open block, entry check of "
                "mpt_encode_cobs for a nearly full block included) for the run; sin_request_q = stream_input.c over that transport "
                "(streamReply turns every failure into BadArgument and leaves the request open). S for these cases is computed "
                "differently: a reply is accepted iff the size of its complete frame fits (s_fits). mpt_queue_push / mpt_encode_cobs "
                "themselves stay with C01/C02 (only the deletion branch of mpt_encode_cobs is executed here and nowhere else). "
                "The branch of mptcore/event/context_reply.c without reply context is the function ctx_reply_none of ReplyModel.v "
                "(result + text on stderr when stderr is not a terminal; no theorem - there is no context it could act on): "
                "correspondence level")
    trusted = ["harness/c12_reply.c: the transport is the harness' send callback (logs rd->val[0..len) and the flattened message, "
               "answers from the script); state is read directly from the structures (reply_deferrable.c is #included), "
               "frees are observed by wrapping malloc/free of that file",
               "harness/c12_conn.c plays the peer on the other end of the socket (own COBS codec), sets con.out._idlen directly (no "
               "library function does; examples/io/mclient.c does the same), opens the backend with mpt_connection_open (listening unix "
               "socket of the harness) or mpt_connection_assign (socketpair) + mpt_connection_set(\"encoding\", default), calls "
               "next(POLLIN) while the descriptor is readable and next(POLLOUT) after operations that write (what the notifier would do), "
               "reads the reply context, the handles and the wait table straight from the structures (output_remote.c and "
               "reply_deferrable.c are #included)",
               "malloc is assumed to succeed; the harness fills reply_data.val with 0xee after creation",
               "harness/c12_conn.c (round 3): hands sockets / targets to the object through mpt_connection_assign, mpt_connection_open or a "
               "small convertable of its own for set_property(\"\"), listens on /tmp/c12conn_<pid>.sock; descriptor 1 is pointed to stderr "
               "(the default logger prints messages of type 0 to stdout), the case output goes to a duplicate; the harness' answer handler "
               "returns -3 for an answer that starts with ff; harness/c12_reply.c is linked with -Wl,--wrap=mpt_queue_prepare (refuses "
               "only in sin mode L<n>, which the generator does not use beyond one case that never hits the limit, and in mode Q<n>, "
               "where the harness sizes the write queue with mpt_queue_resize(n) and the wrapper refuses every growth of that queue); "
               "the harness calls next(POLLIN) while the input descriptor has data (the input reads 64 bytes per call), flushes the "
               "stream after every dispatch (each dispatch starts with an empty, aligned write queue) and hands a reply of more than 2 "
               "bytes over as base part + one continuation part; nrc cases: descriptor 2 is pointed to a temporary file around the call",
               "the caller protocol: a context is used only while the caller holds a reference, a deferred handle only until "
               "its reply() consumed it (other uses are use-after-free, outside the interface)"]
    level_text = ("proof: Coq theorems (coq/C12/Properties.v) over the transcribed mechanism, for every id < 2^64, every header width and "
                  "every history of conv/arm/reply/context-reply/defer/deferred-reply/addref/unref with any transport script (no bound): "
                  "C12_id_roundtrip, C12_id_accepted_when_fits, C12_id_refused_when_unfit, C12_fits_closed_form, C12_id_mark_bit_clear, "
                  "C12_buf2id_value, C12_no_fault (no access outside val[] / freed memory), C12_refcount_is_holders, "
                  "C12_log_is_accepted_calls, C12_at_most_one_reply, C12_reply_carries_id, C12_later_replies_refused, "
                  "C12_retry_after_reject, C12_released_context_default_reply, C12_released_handle_default_reply, "
                  "C12_arm_preserves_context, C12_history_refines_spec (results, transport calls, open requests and log equal the "
                  "abstract per-request specification). For the mptio users (connection_dispatch.c, output_remote.c, stream_sync.c as "
                  "patched), for every connection history (peer messages, handlers that reply/defer, deferred replies, outgoing requests, "
                  "sync, release; both backends, any id width): C12_conn_no_fault, C12_conn_at_most_one_reply, C12_conn_refcount (a handle "
                  "that outlives the connection cannot reach it), C12_conn_request_answered_once (a request dispatched to a handler that "
                  "does not defer produces exactly one message: its id marked as reply + the handler's first reply or the generic answer; "
                  "later replies are refused), C12_conn_handle_reply_id (a deferred reply carries the id the handle holds), "
                  "C12_conn_answer_routing + C12_conn_answered_once + C12_conn_reserve_fresh + C12_conn_wait_ids_distinct (an answer "
                  "reaches the handler registered under its id and releases it; mpt_command_reserve incl. its compaction loop hands out an "
                  "id no slot in use has, so the ids a connection waits for are distinct after every history and a second answer finds "
                  "nobody; C12_conn_reserve_table: after the compaction loop the table is exactly the slots that were in use, in their order, "
                  "followed by the new slot - no waiter lost, doubled or reordered), C12_conn_zero_test_per_byte + "
                  "C12_conn_request_any_nonzero_byte + C12_conn_notification_all_zero (the dispatchers treat a message as a request as "
                  "soon as ONE id byte, in any position, differs from 0 - 0x80/0xff behind the first byte are id content - and only an id "
                  "of zero bytes as a notification), C12_conn_refines_spec (the connection over the "
                  "mechanism = the connection over the abstract specification). Round 3: all of these history theorems quantify over the "
                  "additional operations of the object (references, await without handler, failing answer handlers, next(POLLOUT/POLLHUP), "
                  "log messages, another backend, convert/property) as well; per operation: C12_conn_gone_handle_silent + "
                  "C12_conn_gone_refuses (a connection without backend - hang-up, assign(NULL) - reached by any history: a deferred reply puts "
                  "nothing on any wire, nothing can be registered or pushed), C12_conn_unref_not_last, C12_conn_pollout_silent, "
                  "C12_conn_hup_keeps_waiters, C12_conn_reset_releases_waiters + C12_conn_clear_calls (another backend through "
                  "mpt_connection_close: every waiting handler gets NULL exactly once, table empty, no id pending, reply context released, "
                  "nothing sent), C12_conn_reopen_keeps_context, C12_conn_sync_end_keeps_ids (an answer handler that fails ends "
                  "mpt_stream_sync without losing a waiter), C12_conn_log_is_one_message, C12_reserve_any_limit + "
                  "C12_reserve_any_limit_table (mpt_command_reserve for every id limit of its switch). "
                  "Round 6, the stream as transport of a reply (stream_reply.c as patched): C12_stream_reply_atomic (for EVERY behaviour "
                  "of the write queue - any pattern of pushes taken in part or refused - a reply either queues exactly one complete "
                  "message 'id ++ message' behind what was queued, or returns an error and leaves the queue exactly as it was: no "
                  "partial frame, no truncated id, nothing left in progress), C12_stream_reply_busy (refused without effect while "
                  "another message is composed), C12_stream_reply_stays_idle (a refused reply does not block the next one), "
                  "C12_stream_reply_accepted_fits (queue of n bytes: an accepted reply is a frame that fits), C12_stream_replies_wire "
                  "(any sequence of replies and retries: the queue holds exactly the accepted ones, complete, each with its own id, in "
                  "order) - this is what the transport script of C12_retry_after_reject / C12_at_most_one_reply assumes of a "
                  "transport that rejects. Not proved, compared on every run instead: a reply that fits is accepted (S computes "
                  "acceptance from the frame size). "
                  "The models are tied to the code on every run by "
                  "differential execution (boundary ids x widths, exhaustive short histories, random histories, connection histories "
                  "over real sockets) under ASan/UBSan with allocation tracking")
    level_note = ("trusted: Coq kernel; hand transcription of the C files (validated by the correspondence run, not verified); "
                  "extraction and OCaml driver; harnesses. Request ids armed into a context are assumed to have the reply-mark bit clear "
                  "(hypothesis wf_op of the reply theorems; the dispatchers never hand an id with the bit set to a handler: proved for the "
                  "connection model, where the arm operation is issued only in the branch without mark). "
                  "A non-final unref of the context detaches the transport (code and specification agree; open requests are then dropped). "
                  "The connection model describes /repo WITH the patches docs/C12_*.diff (11 defects of rounds 1 and 2, committed meanwhile; "
                  "round 3 found 4 more when the rest of output_remote.c / stream_input.c / command_reserve.c was executed - "
                  "docs/C12_default_waiter_format.diff (log_reply prints the id with %s: crash on an error answer), "
                  "docs/C12_stream_input_skip.diff (dispatch without handler consumes the message twice: the input is dead afterwards), "
                  "docs/C12_dgram_next_pollout.diff (next(POLLOUT) sends the datagram received before back to the peer), "
                  "docs/C12_close_stream_dangling.diff (a closed stream stays in out.buf and is used as buffer by a datagram socket set "
                  "afterwards) - not committed yet; replays docs/C12_replay_*.json give VIOLATION on the unpatched tree); until they are "
                  "committed the generator runs only the histories that behave the same with and without them (COMMITTED in props/c12.py: no "
                  "answer for a request awaited without handler, no message behind a skipped one on a stream input, no next(POLLOUT) on a "
                  "datagram socket after a receive, no datagram socket / no close for a connection that has a stream). "
                  "One reply context per connection history (see modelled). "
                  "Round 6: when the roll-back paths of mpt_stream_reply were executed for the first time (write queue that cannot "
                  "grow) three defects showed, patches NOT committed yet, switches False: docs/C12_reply_rollback_active.diff "
                  "(stream_push.c treats the deletion call mpt_stream_push(srm,1,0) as appended data: MesgActive stays set - every "
                  "later reply refused - and the returned position is subtracted from the length: SIGSEGV for a position >= 2), "
                  "docs/C12_reply_rollback_blocks.diff (encode_cobs.c: the deletion keeps the finished COBS blocks of the deleted "
                  "message, they are glued in front of the next frame), docs/C12_reply_id_partial.diff (stream_reply.c sends a frame "
                  "with a truncated id when the id was pushed in part; ids of 254/255 bytes only); replays "
                  "docs/C12_replay_reply_*.json give VIOLATION on /repo. Until they are committed only the Q<n> cases run in which "
                  "every refused reply is refused before anything was queued, or fits (COMMITTED / q_needs in props/c12.py). "
                  "The same roll-back through the connection object (replyConnection -> mpt_stream_reply, mpt_connection_push) is not "
                  "driven: harness/c12_conn.c has no queue limit. The dead branch of stream_reply.c ('ret < mpt_message_length': "
                  "mpt_stream_append returns the full length or an error) is in the model, never taken. "
                  "C12_conn_request_answered_once needs the transport to accept (stream: no outgoing message being composed). "
                  "Kernel, COBS codec and the stream/outdata buffering below the connection are executed, not modelled (C01/C02/C13). "
                  "mpt_log output and malloc failure are not covered. "
                  "All theorems are closed under the global context (no axioms).")
    technique = ("Coq invariant + refinement proof (reply mechanism -> per-request log; connection layer parametric in the reply machine, "
                 "simulation lifted through it) + differential correspondence check with two harnesses")
    assumptions = ["malloc succeeds (except: growth of a stream write queue may be refused - sin mode Q<n>)", "the transport's send callback does not re-enter the reply context",
                   "request ids have the top bit of their first byte clear",
                   "objects are not used after the caller released them",
                   "connection cases: the patches docs/C12_*.diff marked True in COMMITTED are present in the tree under test",
                   "the peer writes complete messages (frames/datagrams); kernel buffers do not fill up"]

    # ------------------------------------------------------------------ structure
    def split(self, case):
        t = case.split()
        if t[0] not in ("ctx", "sin", "con", "rsv"):
            return t, []
        nh = 5 if t[0] == "ctx" else 3
        hdr, rest = t[:nh], t[nh:]
        ops = []
        i = 0
        while i < len(rest):
            n = ARITY.get(rest[i], 0)
            ops.append(rest[i:i + n + 1])
            i += n + 1
        return hdr, ops

    _kind = None

    def compare(self, case, it, mt, st):
        self._kind = case.split(None, 1)[0]
        return DiffProperty.compare(self, case, it, mt, st)

    def project(self, tok):
        if self._kind == "rsv":
            # <slot>:<id>|table: the slot index and the slots not in use are mechanism detail
            f = tok.split("|")
            ents = [e for e in f[1].split(",") if e != "-" and not e.endswith("=.")]
            return f[0].split(":")[-1] + "|" + (",".join(ents) or "-")
        if self._kind == "con":
            # ret|waiter calls|wire|ctx|handles|wait table: slots of the wait table that are not in use are mechanism detail
            f = tok.split("|")
            if len(f) == 6 and ":" in f[5]:
                cid, ents = f[5].split(":", 1)
                ents = [e for e in ents.split(",") if e != "-" and not e.endswith("=.")]
                f[5] = cid + ":" + (",".join(ents) or "-")
            return "|".join(f)
        if "|" in tok:
            return "|".join(tok.split("|")[:4])
        if tok.startswith("ok:"):
            return ":".join(tok.split(":")[:2])
        if tok.startswith("E"):
            return "R"
        return tok

    def shrink_candidates(self, case):
        hdr, ops = self.split(case)
        if hdr[0] == "nrc":
            if hdr[2] not in ("null", "-") and len(hdr[2]) > 2:
                yield "nrc %s %s" % (hdr[1], hdr[2][:len(hdr[2]) // 4 * 2 or 2])
                yield "nrc %s %s" % (hdr[1], hdr[2][:-2])
            if abs(int(hdr[1])) > 1:
                yield "nrc %d %s" % (int(hdr[1]) // 2, hdr[2])
            return
        if hdr[0] in ("sinx",):
            return
        if hdr[0] == "id2buf":
            v, w = int(hdr[1], 16), int(hdr[2])
            for nv in (v >> 8, v >> 1, v & (v - 1) if v else 0, v - 1 if v else 0):
                if nv != v:
                    yield "id2buf %x %d" % (nv, w)
            if w:
                yield "id2buf %x %d" % (v, w - 1)
            return
        if hdr[0] == "buf2id":
            h = hdr[1]
            if h != "-":
                yield "buf2id " + (h[2:] or "-")
                yield "buf2id " + (h[:-2] or "-")
            return
        for k in range(len(ops)):
            yield self.join(hdr, ops[:k] + ops[k + 1:])
        for k in range(1, len(ops)):
            yield self.join(hdr, ops[:k])
        if hdr[0] == "rsv":
            return
        if hdr[0] == "con":
            for k, o in enumerate(ops):
                if o[0] == "dp" and o[1] != "-":
                    a = o[1].split(",")
                    for q in range(len(a)):
                        yield self.join(hdr, ops[:k] + [["dp", ",".join(a[:q] + a[q + 1:]) or "-", o[2]]] + ops[k + 1:])
                    if o[2] != "0":
                        yield self.join(hdr, ops[:k] + [["dp", o[1], "0"]] + ops[k + 1:])
                if o[0] in ("tx", "aw", "ps") and len(o[1]) > 2 * int(hdr[2]) + 2:
                    yield self.join(hdr, ops[:k] + [[o[0], o[1][:-2]]] + ops[k + 1:])
            return
        if hdr[0] == "sin":
            for k, o in enumerate(ops):
                if o[0] != "req":
                    continue
                for j in (3, 4):
                    if hdr[2][0] == "Q" and o[j] not in ("null", "-") and len(o[j]) > 2:
                        yield self.join(hdr, ops[:k] + [o[:j] + [o[j][:-2]] + o[j + 1:]] + ops[k + 1:])
                if hdr[2][0] == "Q" and len(ops) > 1:
                    yield self.join(hdr, ops[:k] + ops[k + 1:])
                if len(o[1]) > 2 * int(hdr[1]) + 2:
                    yield self.join(hdr, ops[:k] + [[o[0], o[1][:-2]] + o[2:]] + ops[k + 1:])
                if o[2] != "0":
                    yield self.join(hdr, ops[:k] + [[o[0], o[1], str(int(o[2]) - 1)] + o[3:]] + ops[k + 1:])
                if o[5] != "0":
                    yield self.join(hdr, ops[:k] + [o[:5] + ["0"]] + ops[k + 1:])
            return
        sc = hdr[4]
        if sc != "-":
            l = sc.split(",")
            yield self.join(hdr[:4] + [",".join(l[:-1]) or "-"], ops)
            yield self.join(hdr[:4] + [",".join(l[1:]) or "-"], ops)
        for k, o in enumerate(ops):
            if o[0] in ("reply", "hreply") and o[-1] not in ("null", "41"):
                yield self.join(hdr, ops[:k] + [o[:-1] + ["41"]] + ops[k + 1:])
            if o[0] == "arm" and len(o[1]) > 2:
                yield self.join(hdr, ops[:k] + [["arm", o[1][:2]]] + ops[k + 1:])
            if o[0] == "creply" and o[2] not in ("null",):
                yield self.join(hdr, ops[:k] + [["creply", o[1], "null"]] + ops[k + 1:])

    # keep the failing operation and the kind of failure while shrinking (the framework's
    # shrinker accepts any remaining disagreement, which merges distinct defects into one replay)
    def _sig(self, case, diff):
        j, a, b = diff
        hdr, ops = self.split(case)
        opn = ops[j][0] if hdr[0] in ("ctx", "con") and 0 <= j < len(ops) else "tok%d" % j
        crash = a.startswith("F") or a == "<none>"
        return (hdr[0], opn, crash, a.split("|")[0][:1] == b.split("|")[0][:1])

    def shrink(self, case, kind, workdir, budget=12):
        res, _ = self.evaluate([case], workdir, tagsuffix="_shr0")
        if res[0][kind] is None:
            return case
        want = self._sig(case, res[0][kind])
        cur = case
        for rnd in range(budget):
            cands = []
            for c in self.shrink_candidates(cur):
                if c != cur and c not in cands:
                    cands.append(c)
                if len(cands) >= 300:
                    break
            if not cands:
                break
            res, _ = self.evaluate(cands, workdir, tagsuffix="_shr")
            better = [c for c, r in zip(cands, res)
                      if r[kind] is not None and r[kind][0] >= 0 and self._sig(c, r[kind]) == want]
            if not better:
                break
            cur = min(better, key=len)
        return cur

    def classify(self, case):
        hdr, ops = self.split(case)
        cl = set()
        if hdr[0] == "id2buf":
            v, w = int(hdr[1], 16), int(hdr[2])
            if v:
                cl.add("id2buf")
                cl.add("width=%d" % w)
                if w and v < 2 ** (8 * w - 1):
                    cl.add("id-fits")
                elif w and v < 2 ** (8 * w):
                    cl.add("id-hits-mark-bit")
                else:
                    cl.add("id-too-wide")
            return cl
        if hdr[0] == "buf2id":
            if hdr[1] != "-":
                cl.add("buf2id")
                b = bytes.fromhex(hdr[1])
                if len(b.lstrip(b"\0")) > 8:
                    cl.add("buf2id-over-8-significant")
            return cl
        if hdr[0] == "con":
            dg, il = hdr[1] == "d", int(hdr[2])
            cl.add("con:datagram" if dg else "con:stream")
            cl.add("con:idlen=%d" % il)
            names = [o[0] for o in ops]
            for n in set(names):
                cl.add("con:op:" + n)
            if hdr[1] == "a":
                cl.add("con:stream-assigned")
            open_req = most = answers = 0
            for o in ops:
                if o[0] in ("aw", "ps") and il:
                    open_req += 1
                    most = max(most, open_req)
                if o[0] == "tx" and il:
                    b = bytes.fromhex(o[1]) if o[1] != "-" else b""
                    if len(b) < il:
                        cl.add("con:short-message")
                    elif b[0] & 0x80:
                        cl.add("con:answer")
                        answers += 1
                        open_req = max(0, open_req - 1)
                        if open_req >= 3 and answers >= 2:
                            cl.add("con:answers-with-3-more-in-flight")
                    elif not any(b[:il]):
                        cl.add("con:zero-id")
                    else:
                        cl.add("con:request")
                        if any(x & 0x80 for x in b[1:il]):
                            cl.add("con:request-id-high-bit-behind-first-byte")
                        if all(x in (0, 0x80) for x in b[:il]):
                            cl.add("con:request-id-only-00-80")
                        if all(x in ID_ALPHA for x in b[:il]):
                            cl.add("con:request-id-boundary-bytes")
            if most >= 3:
                cl.add("con:in-flight>=3")
            if most >= 6:
                cl.add("con:in-flight>=6")
                if o[0] == "dp":
                    a = o[1].split(",")
                    if "d" in a:
                        cl.add("con:handler-defers")
                    if sum(1 for x in a if x.startswith("r")) > 1:
                        cl.add("con:handler-replies-twice")
                    if o[1] == "-":
                        cl.add("con:handler-silent")
            if "cl" in names and "hr" in names[names.index("cl"):]:
                cl.add("con:handle-after-close")
            for o in ops:
                if o[0] in ("as", "sp", "op"):
                    cl.add("con:backend:%s-%s" % (o[0], o[1]))
            for k, o in enumerate(ops):
                if o[0] == "tx" and il and o[1] != "-" and len(o[1]) >= 2 * il + 2 and int(o[1][:2], 16) & 0x80 and o[1][2 * il:2 * il + 2] == "ff":
                    cl.add("con:answer-handler-fails")
                if o[0] == "nh" and "hr" in names[k:]:
                    cl.add("con:handle-after-hangup")
                if o[0] in ("as", "sp", "op") and "hr" in names[k:]:
                    cl.add("con:handle-after-backend-change")
            if "a0" in names and any(c.startswith("con:answer") for c in cl):
                cl.add("con:answer-with-default-handler")
            if "ps" in names and "hr" in names[names.index("ps"):]:
                cl.add("con:reply-while-composing")
            for k in con_needs(case):
                cl.add("con:needs:" + k)
            return cl
        if hdr[0] == "sin":
            cl.add("stream-input")
            il = int(hdr[1])
            cl.add("sin:mode=" + hdr[2][:1])
            for k in con_needs(case):
                cl.add("sin:needs:" + k)
            for o in ops:
                if o[0] != "req":
                    cl.add("sin:item:" + o[0])
                if o[0] in ("scv", "srf"):
                    continue
                b = bytes.fromhex(o[1]) if o[1] != "-" else b""
                if il and len(b) >= il:
                    if b[0] & 0x80:
                        cl.add("sin:reply-marked")
                    elif not any(b[:il]):
                        cl.add("sin:zero-id")
                    else:
                        cl.add("sin:request")
                        if o[0] == "req":
                            cl.add("sin:replies=%s" % o[2])
                elif il:
                    cl.add("sin:short-message")
            if hdr[2] == "0":
                cl.add("sin:read-only")
            if hdr[2][0] == "Q":
                cap, t = int(hdr[2][1:]), case.split()
                for o in ops:
                    if o[0] not in ("req", "rqd") or not il or o[1] == "-":
                        continue
                    b = bytes.fromhex(o[1])
                    if len(b) < il or b[0] & 0x80 or not any(b[:il]):
                        continue
                    mid = bytes([b[0] | 0x80]) + b[1:il]
                    reps = [o[3], o[4]][:int(o[2])] if o[0] == "req" else [o[2]]
                    code = int(o[5] if o[0] == "req" else o[3])
                    res = [q_attempt(cap, mid + (bytes.fromhex(r) if r not in ("null", "-") else b"")) for r in reps]
                    gen = q_attempt(cap, mid + bytes([1, (code if code < 0 else 0) & 0xff]))
                    acc = [r[0] for r in res]
                    if acc[:1] == [False]:
                        cl.add("sinq:first-reply-refused")
                        if res[0][1] == 0:
                            cl.add("sinq:refused-before-anything-queued")
                        elif res[0][1] < il:
                            cl.add("sinq:id-pushed-in-part")
                        elif res[0][1] == len(mid) + len(bytes.fromhex(reps[0]) if reps[0] not in ("null", "-") else b""):
                            cl.add("sinq:only-the-delimiter-does-not-fit")
                        else:
                            cl.add("sinq:message-pushed-in-part")
                        if res[0][2]:
                            cl.add("sinq:rolled-back-with-finished-blocks")
                        if acc[1:] == [True]:
                            cl.add("sinq:retry-accepted")
                    if True not in acc:
                        cl.add("sinq:generic-answer-" + ("sent" if gen[0] else "refused"))
                    if acc[:1] == [True]:
                        cl.add("sinq:first-reply-fits")
            return cl
        if hdr[0] == "sinx":
            cl.add("stream-input-create")
            return cl
        if hdr[0] == "nrc":
            cl.add("no-context-reply")
            cl.add("nrc:" + ("code-out-of-range" if not -128 <= int(hdr[1]) <= 127 else "no-text" if hdr[2] == "null" else
                             "debug" if hdr[1] == "0" else "info" if int(hdr[1]) > 0 else "error"))
            return cl
        if hdr[0] == "rsv":
            cl.add("reserve:max=" + hdr[1])
            if any(o[0].startswith("f") for o in ops):
                cl.add("reserve:with-released-slots")
            return cl
        names = [o[0] for o in ops]
        if "arm" not in names and "armz" not in names:
            return cl
        cl.add("ctx-history")
        for n in names:
            cl.add("op:" + n)
        sc = hdr[4]
        if sc != "-" and any(int(x) < 0 for x in sc.split(",")):
            cl.add("transport-rejects")
        if hdr[2] == "0":
            cl.add("no-send-handler")
        if hdr[3] == "0":
            cl.add("no-target")
        # two outstanding requests: arm, defer, arm
        st = 0
        for n in names:
            if n in ("arm", "armz") and st == 0:
                st = 1
            elif n == "defer" and st == 1:
                st = 2
            elif n in ("arm", "armz") and st == 2:
                st = 3
        if st == 3:
            cl.add("two-outstanding")
        if "unref" in names and "defer" in names and names.index("defer") < len(names) - 1 - names[::-1].index("unref"):
            cl.add("unref-after-defer")
        for a, b in zip(names, names[1:]):
            if a in ("reply", "creply") and b in ("reply", "creply"):
                cl.add("reply-twice")
        if len(ops) > 1:
            cl.add("history")
        return cl

    # ------------------------------------------------------------------ generation
    def gen_id_cases(self, rng, tier):
        cases = []
        for v in boundary_ids():
            for w in range(0, 10):
                cases.append("id2buf %x %d" % (v, w))
        n = 400 if tier == "quick" else 20000
        for _ in range(n):
            k = rng.randrange(0, 65)
            v = rng.randrange(0, 2 ** k) if k else 0
            if rng.random() < 0.3:
                v = rng.choice([2 ** k - 1, 2 ** k, 2 ** k + 1, v]) % 2 ** 64
            need = (v.bit_length() + 8) // 8
            w = rng.choice([need, need, need - 1, need + 1, rng.randrange(0, 13)])
            cases.append("id2buf %x %d" % (v, max(0, w)))
        n = 400 if tier == "quick" else 20000
        for _ in range(n):
            ln = rng.randrange(0, 13)
            z = rng.choice([0, 0, 1, 2, 3, rng.randrange(0, ln + 1)])
            b = [0] * min(z, ln) + [rng.choice([0, 1, 0x7f, 0x80, 0xff, rng.randrange(256)]) for _ in range(ln - min(z, ln))]
            cases.append("buf2id " + hx(b))
        for ln in range(0, 13):
            cases.append("buf2id " + hx([0] * ln))
            cases.append("buf2id " + hx([1] * ln))
            cases.append("buf2id " + hx([0] * (ln - 1) + [1]) if ln else "buf2id -")
            cases.append("buf2id " + hx([0xff] * ln))
        return cases

    ALPHA = [["arm", "01"], ["arm", "0203"], ["reply", "41"], ["reply", "null"], ["creply", "-3", "6e6f"], ["defer"],
             ["hreply", "0", "4242"], ["hreply", "0", "null"], ["hreply", "1", "null"], ["ref"], ["unref"], ["conv", "8"]]
    SCRIPTS = ["-", "-1", "-4,-4,-4,-4,-4,-4"]

    def gen_exhaustive(self, maxlen):
        cases = []
        for L in range(1, maxlen + 1):
            for seq in itertools.product(self.ALPHA, repeat=L):
                names = [o[0] for o in seq]
                if "arm" not in names:
                    continue
                for sc in self.SCRIPTS:
                    cases.append(" ".join(["ctx", "2", "1", "1", sc] + [t for o in seq for t in o]))
        return cases

    def gen_id(self, rng, mx, ok=True):
        if mx == 0:
            return []
        ln = rng.choice([mx, mx, mx, max(1, mx - 1), 1])
        b = [rng.choice([0, 1, 0x7f, rng.randrange(128)])] + [rng.choice(ID_ALPHA + [rng.randrange(256)]) for _ in range(ln - 1)]
        return b

    def gen_payload(self, rng):
        r = rng.random()
        if r < 0.25:
            return "null"
        if r < 0.35:
            return "-"
        n = rng.choice([1, 2, 3, 5, 9])
        return hx([rng.randrange(256) for _ in range(n)])

    def gen_history(self, rng, big=False):
        mx = rng.choice([1, 2, 2, 3, 4, 4, 5, 8, 9, 16, 0])
        send = 0 if rng.random() < 0.07 else 1
        ptr = 0 if rng.random() < 0.07 else 1
        nsc = rng.choice([0, 1, 2, 4, 8])
        mode = rng.random()
        sc = []
        for _ in range(nsc):
            if mode < 0.3:
                sc.append(rng.choice([0, 0, 1, 7]))
            elif mode < 0.5:
                sc.append(rng.choice([-1, -2, -4, -17]))
            else:
                sc.append(rng.choice([0, 0, 3, -1, -4, -16]))
        armed = False
        hs = []          # handle liveness guess
        own = 1
        ops = []
        n = rng.choice([2, 3, 4, 6, 8, 12, 20]) if not big else rng.randrange(20, 60)
        for _ in range(n):
            r = rng.random()
            livek = [k for k, l in enumerate(hs) if l]
            if r < 0.22:
                if rng.random() < 0.06:
                    b = self.gen_id(rng, mx) + [1] * rng.choice([1, 2])     # too long
                elif rng.random() < 0.05:
                    b = []
                else:
                    b = self.gen_id(rng, mx)
                if rng.random() < 0.08:
                    ops.append(["armz", str(len(b))])
                else:
                    ops.append(["arm", hx(b)])
                armed = armed or (0 < len(b) <= mx)
            elif r < 0.42:
                ops.append(["reply", self.gen_payload(rng)])
                armed = False
            elif r < 0.50:
                code = rng.choice([0, 1, -1, -3, 127, -128, 128, -129, 300])
                t = rng.choice(["null", "-", hx([rng.randrange(0x20, 0x7f) for _ in range(rng.choice([1, 5, 20]))])])
                if rng.random() < 0.05:
                    t = hx([rng.randrange(0x20, 0x7f) for _ in range(rng.choice([254, 255, 256, 257, 300]))])
                ops.append(["creply", str(code), t])
                armed = False
            elif r < 0.66:
                ops.append(["defer"])
                if armed and own:
                    hs.append(True)
                    armed = False
            elif r < 0.86:
                k = rng.choice(livek) if livek and rng.random() < 0.85 else rng.randrange(0, len(hs) + 2)
                p = self.gen_payload(rng)
                ops.append(["hreply", str(k), p])
                if k < len(hs) and (p == "null" or rng.random() < 0.7):
                    hs[k] = False
            elif r < 0.90:
                ops.append(["ref"])
                own += 1 if own else 0
            elif r < 0.96:
                ops.append(["unref"])
                own = max(0, own - 1)
            else:
                ops.append(["conv", str(rng.choice([0, 8, 130, 1, 129, 255]))])
        return " ".join(["ctx", str(mx), str(send), str(ptr), ",".join(map(str, sc)) or "-"] + [t for o in ops for t in o])

    def corpus(self):
        # connection regressions that depend on a patch not yet committed stay out (see COMMITTED)
        return [c for c in DiffProperty.corpus(self) if con_enabled(c)]

    # ------------------------------------------------------------------ two harnesses
    def evaluate(self, cases, workdir, tagsuffix=""):
        """reply context / ids / stream input: harness/c12_reply.c; connection cases: harness/c12_conn.c"""
        import vcheck
        h1 = vcheck.build_harness(self.harness_src, self.libs, extra=self.extra_harness_flags)
        h2 = vcheck.build_harness("c12_conn.c", self.libs)
        mx = vcheck.build_model(self.mlname, self.driver, self.extract_vo)
        ided = ["c%d %s" % (i, c) for i, c in enumerate(cases)]
        iscon = lambda l: l.split(None, 2)[1] in ("con", "rsv")
        I, errs = {}, []
        for exe, sub, tag in ((h1, [l for l in ided if not iscon(l)], "impl"), (h2, [l for l in ided if iscon(l)], "implcon")):
            if sub:
                o, e = vcheck.run_cases(exe, sub, workdir, tag + tagsuffix, env=self.harness_env, args=self.harness_args)
                I.update(o.get("I", {}))
                errs += e
        M, e2 = vcheck.run_cases(mx, ided, workdir, "model" + tagsuffix)
        res = []
        for i, c in enumerate(cases):
            k = "c%d" % i
            res.append(self.compare(c, I.get(k), M.get("M", {}).get(k), M.get("S", {}).get(k)))
        return res, errs + e2

    # ------------------------------------------------------------------ connection cases
    def gen_con(self, rng, big=False):
        dg = rng.random() < 0.4
        il = rng.choice([0, 1, 1, 2, 2, 2, 3, 4, 8, 9])
        maxid = {0: 0, 1: 127, 2: 32767, 3: 8388607}.get(min(il, 4), 2147483647)
        ops = []
        out_ids = []        # ids of outgoing requests (as awaited), newest last
        nxt = 1
        active = False      # outgoing message open
        recvd = False       # datagram: something was received (no pushes afterwards: shared buffer)
        pending = 0         # messages written by the peer, not dispatched
        nh = 0
        closed = False

        def idbytes(v):
            return list(v.to_bytes(il, "big")) if il else []

        def payload(mx=9):
            return [rng.choice([0, 0x41, rng.randrange(256)]) for _ in range(rng.choice([0, 1, 2, 5, mx]))]

        def acts():
            r = rng.random()
            if r < 0.25:
                return "-"
            if r < 0.55:
                return "r" + (hx(payload()) if rng.random() < 0.8 else rng.choice(["null", "-"]))
            if r < 0.65:
                return "r" + hx(payload()) + ",r" + hx(payload())
            if r < 0.85:
                return "d"
            if r < 0.9:
                return "d,r41"
            if r < 0.95:
                return "d,d"
            n = rng.choice([250, 254, 255, 256, 257, 300, 600]) if big else 40
            return "r" + hx([rng.randrange(256) for _ in range(n)])

        n = rng.choice([2, 3, 4, 6, 8, 12]) if not big else rng.randrange(12, 40)
        for _ in range(n):
            r = rng.random()
            if closed:
                if nh and r < 0.7:
                    ops += ["hr", str(rng.randrange(nh)), rng.choice(["null", "41", hx(payload())])]
                elif r < 0.8:
                    ops += [rng.choice(["sy", "dp0", "pe"])]
                continue
            if r < 0.30:
                # incoming message
                k = rng.random()
                if il == 0:
                    m = payload() or [0x41]
                elif k < 0.25:
                    v = rng.choice([1, 2, 0x7f, 0x100, rng.randrange(1, 2 ** (8 * il - 1))]) % 2 ** (8 * il - 1) or 1
                    m = idbytes(v) + payload()
                elif k < 0.45:
                    # request id from the boundary alphabet, byte by byte (first byte without reply mark)
                    m = [rng.choice([0, 1, 0x7f])] + [rng.choice(ID_ALPHA) for _ in range(il - 1)] + payload()
                elif k < 0.55:
                    m = [0] * il + payload()
                elif k < 0.85:
                    # answer: to an awaited id, to an unknown one, or with an unusable id
                    if out_ids and rng.random() < 0.75:
                        v = rng.choice(out_ids)
                    else:
                        v = rng.choice([0, 1, 5, maxid, rng.randrange(0, 2 ** min(8 * il - 1, 62))])
                    m = idbytes(v % 2 ** (8 * il - 1))
                    m[0] |= 0x80
                    if il >= 9 and rng.random() < 0.3:
                        m = [0x81] + [rng.randrange(1, 256) for _ in range(il - 1)]
                    m += payload()
                else:
                    m = [rng.randrange(256) for _ in range(rng.randrange(0, il))] if il > 1 else [0x41] * il
                    if not m:
                        m = [0x80]
                    if dg and rng.random() < 0.5:
                        m = m[:max(0, il - 1)]
                if not dg and not m:
                    m = [0x41]
                ops += ["tx", hx(m)]
                pending += 1
            elif r < 0.55:
                if active and not dg and rng.random() < 0.8:
                    continue        # stream: dispatching while composing leaves undecoded input, rarely
                if rng.random() < 0.08:
                    ops += ["dp0"]
                else:
                    ops += ["dp", acts(), str(rng.choice([0, 0, 0, 1, 5, -1, -3, 300, -129]))]
                if not active:
                    if pending:
                        recvd = True
                    pending = max(0, pending - 1)
            elif r < 0.72:
                if dg and recvd and not COMMITTED["dgram_shared_buf"]:
                    continue
                if active:
                    ops += ["pe"]
                    active = False
                    continue
                pay = payload() or ([0x51] if il == 0 else [])
                if rng.random() < 0.75:
                    ops += ["aw", hx(pay)]
                else:
                    ops += ["ps", hx(pay or [0x51])]
                    active = True
                if il:
                    out_ids.append(nxt)
                    nxt += 1
            elif r < 0.82:
                ops += ["sy"]
                if not active and pending:
                    recvd = True
            elif r < 0.93:
                if nh or rng.random() < 0.3:
                    ops += ["hr", str(rng.randrange(nh + 1)), rng.choice(["null", "-", hx(payload())])]
            elif r < 0.97:
                ops += ["cl"]
                closed = True
            nh = sum(1 for i in range(len(ops)) if ops[i] == "dp" and "d" in ops[i + 1].split(","))
        return " ".join(["con", "d" if dg else self.stream_letter(rng), str(il)] + ops)

    def stream_letter(self, rng):
        """stream backend: s = mpt_connection_open, a = mpt_connection_assign (+ encoding property)"""
        return "a" if COMMITTED["assign_stream"] and rng.random() < 0.3 else "s"

    def gen_con_fixed(self):
        """hand-written connection histories (one per behaviour the random generator reaches rarely)"""
        cs = []
        for m in "sd":
            cs += ["con %s 2 tx 00014142 dp r6f6b 0" % m,
                   "con %s 2 tx 00014142 dp - -3" % m,
                   "con %s 2 tx 00014142 dp r6f6b,r6f6c 0" % m,
                   "con %s 2 tx 00014142 dp d 0 hr 0 4243 hr 0 4243" % m,
                   "con %s 2 tx 00014142 dp0" % m,
                   "con %s 1 tx 00 tx 0141 tx 8141 dp0 dp0 dp0" % m,
                   "con %s 2 tx 00014142 dp d 0 tx 00024344 dp d 0 hr 1 61 hr 0 62" % m,
                   "con %s 2 tx 00014142 dp d 0 cl hr 0 4243" % m,
                   "con %s 2 tx 00014142 dp d,d 0 cl" % m,
                   "con %s 2 aw 5152 tx 80017172 dp - 0 tx 80017173 dp - 0" % m,
                   "con %s 2 aw 51 aw 52 tx 80027172 tx 80017173 tx 00034142 sy sy dp r61 0" % m,
                   "con %s 2 aw 51 aw 52 tx 80057171 tx 80017171 sy" % m,
                   "con %s 2 aw 51 tx 80 sy dp - 0" % m,
                   "con %s 9 tx 810000000000000005 dp - 0" % m,
                   "con %s 9 aw 51 tx 810203040506070809 sy dp - 0" % m,
                   "con %s 9 tx 010000000000000005 dp r61 0" % m,
                   "con %s 2 ps 5152 tx 00014142 dp r61 0 pe dp r62 0" % m,
                   "con %s 2 ps 5152 cl" % m,
                   "con %s 2 aw 5152 cl hr 0 null" % m,
                   "con %s 0 aw 5152 tx 4142 dp r61 0 sy" % m,
                   "con %s 2 tx 00014142 dp r%s 0" % (m, "41" * 254),
                   "con %s 2 tx 00014142 dp r%s 0" % (m, "41" * 255),
                   "con %s 2 tx 00014142 dp r%s 0" % (m, "41" * 700),
                   "con %s 2 tx 00014142 dp d 0 hr 0 %s" % (m, "42" * 300),
                   "con %s 2 dp - 0 sy" % m]
        cs += ["con s 2 aw 51 aw 52 aw 53 tx 80027172 dp - 0 aw 54 aw 55",
               "con s 2 tx 00014142 dp d 0 ps 51 hr 0 61 pe hr 0 62",
               "con s 2 tx 00014142 dp d 0 ps 51 hr 0 null pe",
               "con s 2 aw 51 aw 52 tx 80017171 sy sy",
               "con s 2 aw 51 tx 80017171 sy sy",
               # id space of a one-byte header: 127 requests, all answered, and the ids are handed out again
               "con s 1 " + " ".join("aw 51 tx %02x61 dp - 0" % (0x80 | ((i % 127) + 1)) for i in range(130)),
               "con s 1 " + " ".join("aw 51" for i in range(129)) + " tx 8161 sy aw 52"]
        return cs

    # ------------------------------------------------------------------ wait table (command_reserve.c / command_get.c)
    def gen_con_wait_exh(self, nmax, il=2, be="s"):
        """n requests in flight (ids 1..n), EVERY subset of them answered, then a new await: the compaction loop of
        mpt_command_reserve sees every layout of free and used slots of length n; afterwards an answer for every id
        1..n+1 (the open ones must reach their waiter once, the answered ones nobody), and one more round"""
        cs = []
        for n in range(1, nmax + 1):
            for mask in range(2 ** n):
                def mk(v):
                    b = list(v.to_bytes(il, "big"))
                    b[0] |= 0x80
                    return b
                ops = []
                for i in range(n):
                    ops += ["aw", "%02x" % (0x51 + i)]
                for i in range(n):
                    if mask >> i & 1:
                        ops += ["tx", hx(mk(i + 1) + [0x71 + i]), "dp", "-", "0"]
                ops += ["aw", "60"]
                for i in range(n + 1):
                    ops += ["tx", hx(mk(i + 1) + [0x61 + i]), "dp", "-", "0"]
                ops += ["aw", "6f", "tx", hx(mk(n + 2) + [0x7a]), "dp", "-", "0"]
                cs.append(" ".join(["con", be, str(il)] + ops))
        return cs

    def gen_con_wait(self, rng, big=False):
        """random history on the wait table: up to 8 requests in flight, answers oldest-first / newest-first / in random
        order, answers to ids already answered and to ids never handed out, awaits in between; delivered through dispatch
        (one message each) or sync (all that are pending)"""
        dg = rng.random() < 0.25
        be = "d" if dg else self.stream_letter(rng)
        il = rng.choice([1, 2, 2, 2, 3, 4, 8])
        cap = rng.choice([3, 4, 5, 6, 8, 8])
        tab, hasbuf = [], False         # mirror of con->_wait: [id, in use]
        gone = []                       # ids answered before
        pend = []                       # ids of answers written by the peer, not consumed by the library yet
        ops = []

        def marked(v):
            b = list((v % 2 ** (8 * il - 1)).to_bytes(il, "big"))
            b[0] |= 0x80
            return b

        def live():
            return [e[0] for e in tab if e[1]]

        def consume(v):
            for e in tab:
                if e[1] and e[0] == v:
                    e[1] = False
                    gone.append(v)
                    return True
            return False

        def deliver_one():
            if pend:
                consume(pend.pop(0))

        def await_():
            nonlocal tab, hasbuf
            if not hasbuf:
                tab, hasbuf = [[1, True]] + [[0, False] for _ in range(7)], True
            else:
                mid = max([e[0] for e in tab] or [0])
                tab = [e for e in tab if e[1]]
                tab.append([mid + 1, True])
            ops.extend(["aw", hx([rng.randrange(0x20, 0x7f) for _ in range(rng.choice([0, 1, 1, 3]))])])

        rounds = rng.randrange(6, 14) if big else rng.choice([2, 3, 3, 4, 5])
        for _ in range(rounds):
            room = cap - len(live())
            for _ in range(rng.randrange(1, room + 1) if room > 0 else 0):
                await_()
            lv = live()
            policy = rng.choice(["oldest", "oldest", "oldest", "newest", "random", "random", "alternate"])
            na = rng.choice([0, 1, 2, 2, 3, len(lv), max(0, len(lv) - 1), max(0, len(lv) - 2), max(0, len(lv) - 3)])
            batch = rng.random() < 0.25
            sent = 0
            for j in range(min(na, len(lv))):
                r = rng.random()
                if policy == "oldest":
                    v = lv.pop(0)
                elif policy == "newest":
                    v = lv.pop()
                elif policy == "alternate":
                    v = lv.pop(0 if j % 2 == 0 else -1)
                else:
                    v = lv.pop(rng.randrange(len(lv)))
                seq = [v]
                if r < 0.15 and gone:
                    seq = [rng.choice(gone), v]                 # an id that was answered before
                elif r < 0.25:
                    seq = [v, v]                                # the same answer twice
                elif r < 0.30:
                    seq = [rng.choice([0, max(lv + [v]) + 1, 0x7f, 2 ** (8 * il - 1) - 1]), v]      # an id nobody waits for
                for x in seq:
                    # now and then an answer that makes the harness' handler fail (ff): dispatch result, early end of sync
                    ops.extend(["tx", hx(marked(x) + [0xff if rng.random() < 0.08 else rng.randrange(0x61, 0x7b)])])
                    pend.append(x)
                    sent += 1
                    if not batch:
                        ops.extend(["dp", "-", "0"])
                        deliver_one()
            if batch and sent:
                if rng.random() < 0.5 and not dg:
                    ops.append("sy")
                    cnt = len(live())
                    while pend and cnt:
                        if consume(pend.pop(0)):
                            cnt -= 1
                    if not cnt:
                        tab = []
                else:
                    for _ in range(sent):
                        ops.extend(["dp", "-", "0"])
                        deliver_one()
        return " ".join(["con", be, str(il)] + ops)

    # ------------------------------------------------------------------ request ids from the boundary alphabet, per byte
    def boundary_id_bytes(self, rng, w, full, nrand):
        ids = set()
        if full:
            ids.update(itertools.product(ID_ALPHA, repeat=w))
        else:
            for pos in range(w):
                for a in ID_ALPHA:
                    for fill in (0x00, 0x80, 0xff):
                        b = [fill] * w
                        b[pos] = a
                        ids.add(tuple(b))
            for a in ID_ALPHA:
                for b in ID_ALPHA:
                    ids.add(tuple([a] + [b] * (w - 1)))
                    ids.add(tuple([b] * (w - 1) + [a]))
                    ids.add(tuple([0, a] + [b] * (w - 2)))
            for _ in range(nrand):
                ids.add(tuple(rng.choice(ID_ALPHA) for _ in range(w)))
        return sorted(ids)

    REQ_MODES = ["h0", "imm", "gen", "gen", "dfr", "dfn", "two"]

    def gen_con_ids(self, rng, tier):
        """incoming messages whose id bytes are all taken from {00,01,7f,80,81,ff}: every combination for id widths 1..3
        (1..4 thorough), for wider ids every single byte position x value over a background of 00/80/ff bytes, equal
        bytes, first/second/last byte against the rest and random combinations; each id dispatched without handler,
        answered at once, twice, left to the generic answer (code 0 and not 0), deferred and answered / released later;
        several requests per connection"""
        cs = []
        fullw = 3 if tier == "quick" else 4
        backends = ["s", "d"] + (["a"] if COMMITTED["assign_stream"] else [])
        for w in range(1, 10):
            ids = self.boundary_id_bytes(rng, w, w <= fullw, 30 if tier == "quick" else 400)
            for be in backends:
                if be == "a" and tier == "quick" and w > 3:
                    continue
                nm = len(self.REQ_MODES) if w <= (3 if be != "a" else 2) else 3
                reqs = []
                off = rng.randrange(len(self.REQ_MODES))
                for k, b in enumerate(ids):
                    for q in range(nm):
                        reqs.append((b, self.REQ_MODES[(off + k + q * 3) % len(self.REQ_MODES)] if nm < len(self.REQ_MODES)
                                     else self.REQ_MODES[q]))
                rng.shuffle(reqs)
                per = 5
                for i in range(0, len(reqs), per):
                    ops, later, nh = [], [], 0
                    for b, mode in reqs[i:i + per]:
                        b = list(b)
                        isreq = not (b[0] & 0x80) and any(b) and w <= 255
                        ops += ["tx", hx(b + [rng.randrange(0x41, 0x5b) for _ in range(rng.choice([0, 1, 2]))])]
                        if mode == "h0":
                            ops += ["dp0"]
                        elif mode == "imm":
                            ops += ["dp", "r" + hx([rng.randrange(0x61, 0x7b)]), str(rng.choice([0, 0, 3]))]
                        elif mode == "two":
                            ops += ["dp", "r61,r62", "0"]
                        elif mode == "gen":
                            ops += ["dp", "-", str(rng.choice([0, 0, 1, -3, 5]))]
                        else:
                            ops += ["dp", "d", "0"]
                            if isreq:
                                h = ["hr", str(nh), "null" if mode == "dfn" else hx([rng.randrange(0x61, 0x7b)])]
                                nh += 1
                                if rng.random() < 0.5:
                                    ops += h
                                else:
                                    later.append(h)
                    rng.shuffle(later)
                    for h in later:
                        ops += h
                    cs.append(" ".join(["con", be, str(w)] + ops))
        return cs


    # ------------------------------------------------------------------ round 3: the whole object of mpt_output_remote()
    LOGTYPES = [0, 1, 2, 3, 4, 5, 8, 0x20, 0x7f]

    def gen_con_obj_fixed(self):
        """one history per behaviour of the operations added in round 3"""
        cs = ["con s 2 cv in cv fmt cv meta cv sock cv obj cv out cv log cv bad gp - gp color",
              "con d 2 cv in cv sock gp - rf cl aw 51 cl cl",
              "con d 2 nh cv sock gp - cl",
              "con s 2 rf rf cl tx 00014142 dp r61 0 cl aw 51 cl hr 0 null"]
        # answers for the default handler (log_reply): Answer with code 0 / <0 / >0, short, Output, other type, empty
        for m in "sd":
            for a in ("0100", "01ff", "0105", "01", "0010", "0083", "0000", "00", "0410", "04", "414243", "-"):
                cs.append("con %s 2 a0 5152 tx 8001%s dp - 0 aw 53" % (m, a if a != "-" else ""))
            cs += ["con %s 2 a0 5152 tx 80010100 sy" % m,
                   "con %s 2 a0 5152 cl" % m,
                   "con %s 2 a0 51 a0 52 aw 53 tx 800261 tx 800362 tx 800163 dp - 0 dp - 0 dp - 0" % m,
                   "con %s 1 a0 - tx 81 dp - 0" % m,
                   # the handler of an answer returns a negative value
                   "con %s 2 aw 51 tx 8001ff dp - 0 aw 52" % m,
                   "con %s 2 aw 51 aw 52 aw 53 tx 8001ff tx 800261 sy sy" % m,
                   "con %s 2 aw 51 aw 52 aw 53 aw 54 aw 55 tx 8001ff tx 800261 sy sy" % m,
                   "con %s 2 aw 51 aw 52 aw 53 aw 54 tx 800171 dp - 0 tx 800272 dp - 0 tx 8003ff tx 800461 sy sy" % m,
                   # next(POLLOUT) / next(POLLHUP)
                   "con %s 2 tx 00014142 dp r61 0 no no" % m,
                   "con %s 0 tx 4142 dp - 0 no" % m,
                   "con %s 2 no aw 51 no" % m,
                   "con %s 2 ps 5152 no pe no" % m,
                   "con %s 2 tx 00014142 no dp r61 0" % m,
                   "con %s 2 aw 51 tx 800161 sy no" % m,
                   "con %s 2 aw 51 nh aw 52 tx 800161 dp - 0 sy pe no nh" % m,
                   "con %s 2 tx 00014142 dp d 0 nh hr 0 61 hr 0 62" % m,
                   "con %s 2 ps 5152 nh pe aw 53 cl" % m,
                   "con %s 0 nh aw 51 sy" % m,
                   # log messages through the logger interface
                   "con %s 2 lg 3 414243" % m,
                   "con %s 2 lg 0 4142" % m,
                   "con %s 0 lg 3 4142" % m,
                   "con %s 2 ps 5152 lg 3 4142 pe" % m,
                   "con %s 2 tx 00014142 lg 3 4142 dp r61 0 lg 4 43" % m,
                   "con %s 2 aw 51 lg 3 4142 tx 800161 dp - 0" % m,
                   # another backend
                   "con %s 2 aw 51 as a aw 52 tx 800261 dp - 0 tx 800161 dp - 0" % m,
                   "con %s 2 aw 51 as d aw 52 tx 800161 dp - 0" % m,
                   "con %s 2 aw 51 as x aw 52 sy dp - 0 pe lg 3 41 no nh" % m,
                   "con %s 2 ps 51 as a as d as x op s op d sp a sp d sp x pe" % m,
                   "con %s 2 aw 51 op s aw 52 tx 800161 dp - 0" % m,
                   "con %s 2 aw 51 op d aw 52 aw 53" % m,
                   "con %s 2 aw 51 sp a aw 52 tx 800161 dp - 0" % m,
                   "con %s 2 aw 51 sp d aw 52 tx 800161 dp - 0" % m,
                   "con %s 2 aw 51 sp S aw 52 tx 800161 dp - 0" % m,
                   "con %s 2 aw 51 sp D aw 52" % m,
                   "con %s 2 aw 51 sp x aw 52 as a aw 53 tx 800161 dp - 0" % m,
                   "con %s 2 tx 00014142 dp d 0 as a hr 0 61" % m,
                   "con %s 2 tx 00014142 dp d 0 as d hr 0 61" % m,
                   "con %s 2 tx 00014142 dp d 0 sp a hr 0 61" % m,
                   "con %s 2 tx 00014142 dp d,d 0 as x hr 0 61 cl hr 1 62" % m,
                   "con %s 2 tx 00014142 dp d 0 nh as a hr 0 61 aw 51" % m,
                   "con %s 2 tx 00014142 tx 00024142 dp r61 0 as a dp r62 0" % m,
                   "con %s 2 as d as a as d as x as a as x as d aw 51" % m]
        return cs

    def gen_con_obj(self, rng, big=False):
        """random histories over all operations of the object; keeps to what the model covers: one reply context per
        history (no request after a backend change that released the context), nothing sent by the peer while the
        connection has no socket of the harness (assign(NULL), datagram target opened with mpt_connection_open)"""
        be = rng.choice(["d", "d", "s", "s", self.stream_letter(rng)])
        dg = be == "d"
        il = rng.choice([0, 1, 2, 2, 2, 3, 4, 8])
        ops = []
        gone = notx = noreq = stuck = False
        hasctx = False          # a request may have created the reply context
        active = False
        out_ids, nxt, nh, refs, closed = [], 1, 0, 1, False
        pend = 0

        def idbytes(v):
            return list(v.to_bytes(il, "big")) if il else []

        def payload():
            return [rng.choice([0, 0x41, 0xff, rng.randrange(256)]) for _ in range(rng.choice([0, 1, 2, 5]))]

        n = rng.choice([3, 4, 6, 8, 12]) if not big else rng.randrange(12, 40)
        for _ in range(n):
            r = rng.random()
            if closed:
                if nh and r < 0.5:
                    ops += ["hr", str(rng.randrange(nh)), rng.choice(["null", "41"])]
                elif r < 0.7:
                    ops += [rng.choice(["sy", "no", "rf", "cl", "pe", "nh"])]
                continue
            if r < 0.20:
                if notx:
                    continue
                k = rng.random()
                if il == 0:
                    m = payload() or [0x41]
                elif k < 0.35 and not noreq:
                    m = idbytes(rng.choice([1, 2, 0x7f, 0x100]) % 2 ** (8 * il - 1) or 1) + payload()
                    hasctx = True
                elif k < 0.45:
                    m = [0] * il + payload()
                elif k < 0.9:
                    v = rng.choice(out_ids) if out_ids and rng.random() < 0.8 else rng.choice([0, 1, 5])
                    m = idbytes(v % 2 ** (8 * il - 1))
                    m[0] |= 0x80
                    # what the default handler looks at: message type and code; ff: the harness' waiter fails
                    m += rng.choice([[1, 0], [1, 0xff], [1, 5], [1], [0, 0x10], [0, 0], [0], [4, 0x10], [0xff], [0xff, 0x41], payload(), []])
                else:
                    m = [0x80] if dg or il < 2 else [rng.randrange(256) for _ in range(il - 1)]
                if not dg and not m:
                    m = [0x41]
                ops += ["tx", hx(m)]
                pend += 1
            elif r < 0.36:
                if active and not dg and rng.random() < 0.8:
                    continue
                if rng.random() < 0.1:
                    ops += ["dp0"]
                else:
                    a = rng.choice(["-", "-", "r61", "r6162,r63", "d", "d,r41", "rnull"])
                    ops += ["dp", a, str(rng.choice([0, 0, 1, -3]))]
                    if "d" in a.split(","):
                        nh += 1     # upper bound: handles may not have been created
                pend = max(0, pend - 1)
            elif r < 0.50:
                if active:
                    ops += ["pe"]
                    active = False
                    continue
                pay = payload()
                k = rng.random()
                if k < 0.5:
                    ops += ["aw", hx(pay)]
                elif k < 0.75:
                    ops += ["a0", hx(pay)]
                else:
                    ops += ["ps", hx(pay or [0x51])]
                    active = not gone
                if il and not gone:
                    out_ids.append(nxt)
                    nxt += 1
            elif r < 0.56:
                ops += ["sy"]
            elif r < 0.62:
                if nh:
                    ops += ["hr", str(rng.randrange(nh)), rng.choice(["null", "-", hx(payload())])]
            elif r < 0.68:
                ops += ["lg", str(rng.choice(self.LOGTYPES)), hx([rng.randrange(0x20, 0x7f) for _ in range(rng.choice([0, 1, 3, 12, 40]))])]
                active = False
            elif r < 0.74:
                ops += [rng.choice(["no", "no", "nh"])]
                if ops[-1] == "nh" and dg and not gone:
                    gone, active = True, False
            elif r < 0.80:
                ops += rng.choice([["cv", rng.choice(["in", "fmt", "meta", "sock", "obj", "out", "log", "bad"])],
                                   ["gp", rng.choice(["-", "color"])]])
            elif r < 0.86:
                if rng.random() < 0.5:
                    ops += ["rf"]
                    refs += 1
                else:
                    ops += ["cl"]
                    refs -= 1
                    closed = refs == 0
            elif r < 0.97:
                o = rng.choice(["as", "as", "sp", "op"])
                k = rng.choice(["d", "s"]) if o == "op" else rng.choice(["d", "a", "x"] + (["D", "S"] if o == "sp" else []))
                if k == "a" and not COMMITTED["assign_stream"]:
                    continue
                ops += [o, k]
                # whether the change is refused depends on an outgoing message being open, which is only estimated here:
                # the restrictions are applied for both outcomes
                if k in ("x", "D") or (o == "op" and k == "d"):
                    notx = True         # no socket of the harness any more: stays for the rest of the history
                if hasctx and not (k == "a" and not dg and not gone and o != "op"):
                    noreq = True
                if (active or stuck) and not (o == "as" and k == "x"):
                    continue        # refused: a message is being composed (mpt_connection_assign(con, NULL) closes first)
                if active and not dg and not gone:
                    stuck = True    # a stream closed in the middle of a message: the flag of the outgoing message stays set
                if dg:
                    active = False
                reopen = k == "a" and not dg and not gone
                if not reopen:
                    out_ids, nxt = [], 1
                    if hasctx:
                        noreq = True
                    gone = k == "x"
                    if k != "x":
                        dg = k in ("d", "D") or (o == "op" and k == "d")
                elif o == "sp":
                    out_ids, nxt = [], 1
                pend = 0
        return " ".join(["con", be, str(il)] + ops)

    def gen_sin_obj(self, rng):
        il = rng.choice([0, 1, 2, 2, 3, 8])
        mode = rng.choice([0, 1, 1, 2, 2])
        toks = ["sin", str(il), str(mode)]
        for _ in range(rng.choice([1, 2, 3, 5])):
            r = rng.random()
            if r < 0.1:
                toks += ["scv", rng.choice(["in", "fmt", "meta", "sock", "bad"])]
                continue
            if r < 0.15:
                toks += ["srf"]
                continue
            k = rng.random()
            if il == 0:
                idb = []
            elif k < 0.6:
                idb = [rng.choice([0, 1, 0x7f])] + [rng.choice(ID_ALPHA) for _ in range(il - 1)]
                if not any(idb):
                    idb[-1] = 1
            elif k < 0.75:
                idb = [0] * il
            elif k < 0.9:
                idb = [0x80 | rng.randrange(128)] + [0] * (il - 1)
            else:
                idb = [1] * rng.randrange(0, il)
            msg = idb + ([rng.randrange(256) for _ in range(rng.choice([0, 1, 3]))] if len(idb) == il else [])
            if not msg:
                msg = [0x41]
            if r < 0.35:
                toks += ["rq0", hx(msg)]
            elif r < 0.55:
                toks += ["rqd", hx(msg), rng.choice(["6f6b", "null", "-"]), str(rng.choice([0, 0, 3, -1]))]
            else:
                toks += ["req", hx(msg), str(rng.choice([0, 1, 2])), rng.choice(["6f6b", "null", "-"]), rng.choice(["6f6c", "null"]),
                         str(rng.choice([0, 0, 3, -1, -16]))]
        return " ".join(toks)

    def gen_rsv(self, rng, tier):
        """direct calls of mpt_command_reserve(arr, max) for every arm of its switch (max 0..9, 16): reserve / release a slot"""
        cs = []
        for mx in (0, 1, 2, 3, 4, 5, 6, 7, 8, 9, 16):
            cs.append("rsv %d r r r f0 r f1 f2 r r" % mx)
            for _ in range(6 if tier == "quick" else 200):
                ops, n = [], 0
                for _ in range(rng.choice([3, 6, 12, 20])):
                    if n and rng.random() < 0.4:
                        ops.append("f%d" % rng.randrange(n + 1))
                    else:
                        ops.append("r")
                        n = min(n + 1, 12)
                cs.append("rsv %d %s" % (mx, " ".join(ops)))
        # the id space of a one-byte header: 127 ids, then refused; released ids are handed out again (lowest first)
        cs.append("rsv 1 " + " ".join(["r"] * 129))
        cs.append("rsv 1 " + " ".join(["r"] * 127) + " f3 f10 f126 r r r r f0 r")
        return cs

    def gen_sinx(self):
        """arguments of mpt_stream_input: id width 0 / 255 / 256 / 1000, mode Read / Write / RdWr (+ buffer flags), coding 0 / COBS, bad descriptor"""
        cs = []
        for il in ("0", "2", "255", "256", "1000", "badfd"):
            for mode in ("10", "12", "31", "32", "33", "21"):
                for code in ("0", "2"):
                    cs.append("sinx %s %s %s" % (il, mode, code))
        return cs

    def gen_sin(self, rng):
        il = rng.choice([0, 1, 2, 2, 3, 4, 8, 9])
        wr = 0 if rng.random() < 0.1 else 1
        toks = ["sin", str(il), str(wr)]
        for _ in range(rng.choice([1, 1, 2, 3])):
            r = rng.random()
            if il == 0:
                idb = []
            elif r < 0.6:
                idb = self.gen_id(rng, il)
                idb = idb + [rng.randrange(256) for _ in range(il - len(idb))]
                if not any(idb):
                    idb[-1] = 1
            elif r < 0.7:
                idb = [0] * il
            elif r < 0.9:
                idb = [0x80 | rng.randrange(128)] + [rng.choice([0, 0, rng.randrange(256)]) for _ in range(il - 1)]
            else:
                idb = [rng.randrange(128) for _ in range(rng.randrange(0, il))]      # shorter than the id
            pay = [rng.choice([0, 0x41, rng.randrange(256)]) for _ in range(rng.choice([0, 1, 2, 5, 9]))]
            if len(idb) < il and il:
                pay = []
            msg = idb + pay
            if not msg:
                msg = [0x41]
            nrep = rng.choice([0, 1, 1, 2])
            reps = [rng.choice(["null", "-", hx([rng.randrange(256) for _ in range(rng.choice([1, 2, 3, 6]))])]) for _ in range(2)]
            code = rng.choice([0, 0, 0, 1, 3, -1, -2, -16])
            toks += ["req", hx(msg), str(nrep), reps[0], reps[1], str(code)]
        return " ".join(toks)

    def gen_nrc(self, rng, tier):
        """mpt_context_reply without reply context: every code class x no text / empty / short / long text"""
        cs = []
        texts = ["null", "-", "6869", hx([0x20 + (i * 7) % 0x5f for i in range(40)]), hx([0x41] * 300)]
        for code in (0, 1, -1, 5, -5, 127, -128, 128, -129, 300, -300):
            for t in texts:
                cs.append("nrc %d %s" % (code, t))
        for _ in range(40 if tier == "quick" else 2000):
            cs.append("nrc %d %s" % (rng.choice([0, rng.randrange(1, 128), -rng.randrange(1, 129), rng.randrange(-400, 400)]),
                                     rng.choice(["null", hx([rng.randrange(1, 256) for _ in range(rng.choice([1, 3, 17, 80]))])])))
        return cs

    def gen_sin_q(self, rng, tier):
        """stream input whose write queue has exactly n bytes and cannot grow (mode Q<n>): replies that fit, that fail at the id,
        in the message, at the delimiter (roll-back of mpt_stream_reply), retries and the generic answer after a roll-back"""
        cs = []
        # small: id 0001, replies of 0..6 bytes (with and without zero bytes) x every capacity 0..13
        for cap in range(0, 14):
            for n in range(0, 7):
                for pay in ([0x41] * n, [0x41, 0] * (n // 2) + [0x42] * (n % 2)):
                    p = hx(pay) if pay else rng.choice(["-", "null"])
                    cs.append("sin 2 Q%d req 00014142 1 %s null 0 req 00024142 1 6f6b null 0" % (cap, p))
                    if n >= 3:
                        cs.append("sin 2 Q%d req 00014142 2 %s 61 -3" % (cap, p))
        # block boundary: replies of 248..258 bytes without zero byte x capacities around the frame size
        for n in range(248, 259):
            for cap in (n, n + 2, n + 3, n + 4, n + 5, n + 6) if tier == "quick" else range(n - 2, n + 8):
                cs.append("sin 2 Q%d req 00014142 2 %s 6f6b 0" % (cap, hx([0x41] * n)))
        # id pushed in part (needs a queue of fewer bytes than the id takes) / very wide ids up to the block length
        for il, cap in ((4, 3), (4, 4), (4, 5), (8, 6), (8, 9), (8, 10), (8, 12), (254, 254), (254, 255), (254, 256), (254, 257),
                        (255, 254), (255, 255), (255, 256), (255, 257), (255, 258), (255, 259)):
            for first in (1, 0):
                idb = [first] + [1] * (il - 1)
                cs.append("sin %d Q%d req %s 1 %s null 0" % (il, cap, hx(idb + [0x41, 0x42]), rng.choice(["null", "-", "61"])))
        for _ in range(700 if tier == "quick" else 30000):
            il = rng.choice([1, 2, 2, 2, 3, 4, 8])
            items, caps = [], []
            for _ in range(rng.choice([1, 2, 2, 3])):
                idb = [rng.choice([0, 1, 0x7f])] + [rng.choice(ID_ALPHA) for _ in range(il - 1)]
                if not any(idb):
                    idb[-1] = 1
                reps = []
                for _ in range(2):
                    n = rng.choice([0, 1, 2, 3, 5, 9, 20, 60, 252, 253, 254, 255, 300])
                    z = rng.random()
                    pay = [(0 if rng.random() < (0.0 if z < 0.4 else 0.1 if z < 0.8 else 0.5) else rng.randrange(1, 256)) for _ in range(n)]
                    reps.append(hx(pay) if pay else rng.choice(["null", "-"]))
                    ok, k, cl = q_attempt(10 ** 6, bytes(idb) + bytes(pay))
                    caps.append(il + len(pay) + 2 + len(pay) // 254)
                msg = hx(idb + [rng.randrange(256) for _ in range(rng.choice([0, 2]))])
                if rng.random() < 0.2:
                    items += ["rqd", msg, reps[0], str(rng.choice([0, 3, -1]))]
                else:
                    items += ["req", msg, str(rng.choice([0, 1, 1, 2, 2])), reps[0], reps[1], str(rng.choice([0, 0, 3, -1, -16]))]
            cap = max(0, rng.choice(caps) + rng.choice([-40, -5, -3, -2, -1, -1, 0, 0, 1, 2])) if rng.random() < 0.85 else rng.randrange(0, 12)
            cs.append("sin %d Q%d %s" % (il, cap, " ".join(items)))
        return cs

    def gen_sin_ids(self, rng, tier):
        """stream input (stream_input.c has its own copy of the zero test): ids from the boundary alphabet per byte"""
        cs = []
        for w in range(1, 10):
            for b in self.boundary_id_bytes(rng, w, w <= (3 if tier == "quick" else 4), 30 if tier == "quick" else 300):
                for nrep in ((0, 1) if w <= 3 else (rng.choice([0, 1, 2]),)):
                    cs.append("sin %d 1 req %s %d %s null %d" % (w, hx(list(b) + [0x41]), nrep, rng.choice(["6f6b", "null", "-"]),
                                                                 rng.choice([0, 0, 3, -1])))
        return cs

    def generate(self, rng, tier):
        cases = self.gen_id_cases(rng, tier)
        cases += self.gen_sin_ids(rng, tier)
        for _ in range(600 if tier == "quick" else 20000):
            cases.append(self.gen_sin(rng))
        cases += self.gen_sinx()
        cases += self.gen_rsv(rng, tier)
        sino = ["sin 2 1 scv in scv fmt scv meta scv sock scv bad srf req 00014142 1 6f6b null 0",
                "sin 2 1 rqd 00014142 6f6b 0 rq0 00024142 req 00034142 1 61 null 0",
                "sin 2 2 req 00014142 1 6f6b null 0 req 00024142 0 null null -3 req 00034142 2 6f6b 6f6c 0",
                "sin 2 0 rq0 00014142 req 00024142 1 61 null 0",
                "sin 0 1 rq0 4142 req 4344 0 null null 0",
                "sin 2 1 rq0 00014142 rq0 00024142 rq0 80034142 rq0 01 req 00054142 0 null null 0",
                "sin 2 L4096 req 00014142 1 6f6b null 0"]
        for _ in range(500 if tier == "quick" else 15000):
            sino.append(self.gen_sin_obj(rng))
        cases += [c for c in sino if con_enabled(c)]
        cases += self.gen_nrc(rng, tier)
        cases += [c for c in self.gen_sin_q(rng, tier) if con_enabled(c)]
        cases += self.gen_exhaustive(3 if tier == "quick" else 4)
        nh = 2500 if tier == "quick" else 80000
        for i in range(nh):
            cases.append(self.gen_history(rng, big=(i % 40 == 0)))
        con = self.gen_con_fixed()
        for i in range(3000 if tier == "quick" else 60000):
            con.append(self.gen_con(rng, big=(i % 25 == 0)))
        # wait table: every layout of up to 8 (thorough: 10) slots before the compaction, both backends, + random histories
        q = tier == "quick"
        con += self.gen_con_wait_exh(8 if q else 10, 2, "s")
        con += self.gen_con_wait_exh(6 if q else 8, 1, "s")
        con += self.gen_con_wait_exh(6 if q else 8, 2, "d")
        con += self.gen_con_wait_exh(5 if q else 8, 8, "a" if COMMITTED["assign_stream"] else "s")
        for i in range(2000 if q else 40000):
            con.append(self.gen_con_wait(rng, big=(i % 20 == 0)))
        # incoming ids from the boundary alphabet per byte
        con += self.gen_con_ids(rng, tier)
        # round 3: references, default answer handler, failing answer handlers, next(POLLOUT/POLLHUP), log messages, conversion,
        # properties, another backend (assign / open / property "")
        con += self.gen_con_obj_fixed()
        for i in range(2500 if q else 50000):
            con.append(self.gen_con_obj(rng, big=(i % 20 == 0)))
        # cases that depend on a patch which is not committed in /repo stay out (see COMMITTED)
        cases += [c for c in con if con_enabled(c)]
        # creation refused
        cases.append("ctx 65536 1 1 - arm 01 reply null unref")
        cases.append("ctx 65535 1 1 - arm 01 reply null unref")
        return cases


PROP = C12()
