"""C12 — each request is answered at most once, to the right requester
(mptcore/message/message_id.c, mptcore/event/reply_deferrable.c, reply_set.c, context_reply.c)."""
import itertools
from vcheck import DiffProperty

ARITY = {"req": 5, "conv": 1, "arm": 1, "armz": 1, "reply": 1, "creply": 2, "defer": 0, "hreply": 2, "ref": 0, "unref": 0}


def hx(bs):
    return "".join("%02x" % b for b in bs) if bs else "-"


def boundary_ids():
    s = {0, 1, 2, 0x7f, 0x80, 0xff, 0x100, 2 ** 63, 2 ** 64 - 1}
    for k in range(1, 65):
        for d in (-1, 0, 1):
            v = 2 ** k + d
            if 0 <= v < 2 ** 64:
                s.add(v)
    return sorted(s)


class C12(DiffProperty):
    claimed = True
    pid = "C12"
    coq_dir = "C12"
    extract_vo = "C12/Extract.vo"
    mlname = "c12_model"
    driver = "c12_driver.ml"
    harness_src = "c12_reply.c"
    libs = ["mptcore", "mptio"]
    rule = ("three case kinds. id2buf: id x header width (ids 0, 2^k-1, 2^k, 2^k+1 for k=1..64, 2^63, 2^64-1 and random; "
            "widths 0..9 exhaustively for the boundary ids, 0..12 for random ones), written into an exact-size heap buffer and read "
            "back with buf2id. buf2id: arbitrary byte strings of 0..12 bytes (leading zeros, >8 significant bytes, top bits set). "
            "sin: mptio stream input over a socketpair (id width 0..9, read-only or bidirectional), 1..3 COBS-framed messages "
            "(request id / zero id / reply-marked id / too short), handler replying 0..2 times and returning a status. "
            "ctx: a reply context (id width 0..9/16, with/without send handler and target, transport script of accept/reject answers) "
            "+ history over conv/arm/armz/reply/creply/defer/hreply/ref/unref; quick: every history of length<=3 over a 12-letter "
            "alphabet x 3 transport scripts (exhaustive) plus random histories that keep one or two (sometimes more) requests "
            "outstanding; a case is non-trivial when it is an id case with id != 0 or a history that arms at least one request; "
            "distinct = distinct case text")
    modelled = ("mptcore/message/message_id.c, mptcore/event/reply_set.c, reply_deferrable.c (contextSend/Set/Defer/Unref/Ref/Conv/"
                "Detach, deferReply, mpt_reply_deferrable), the reply-context branch of context_reply.c and mptcore/misc/refcount.c "
                "transcribed in coq/C12/ReplyModel.v; the log output of contextSend (mpt_log) and malloc failure are not modelled; "
                "mptio/stream/stream_input.c (streamMessage/streamReply + stream_reply.c) is modelled at correspondence level "
                "only (sin_request, no theorem); connection_dispatch.c, output_remote.c and stream_sync.c are neither modelled "
                "nor exercised")
    trusted = ["harness/c12_reply.c: the transport is the harness' send callback (logs rd->val[0..len) and the flattened message, "
               "answers from the script); state is read directly from the structures (reply_deferrable.c is #included), "
               "frees are observed by wrapping malloc/free of that file",
               "malloc is assumed to succeed; the harness fills reply_data.val with 0xee after creation",
               "the caller protocol: a context is used only while the caller holds a reference, a deferred handle only until "
               "its reply() consumed it (other uses are use-after-free, outside the interface)"]
    level_text = ("proof: Coq theorems (coq/C12/Properties.v) over the transcribed mechanism, for every id < 2^64, every header width and "
                  "every history of conv/arm/reply/context-reply/defer/deferred-reply/addref/unref with any transport script (no bound): "
                  "C12_id_roundtrip, C12_id_accepted_when_fits, C12_id_refused_when_unfit, C12_fits_closed_form, C12_id_mark_bit_clear, "
                  "C12_buf2id_value, C12_no_fault (no access outside val[] / freed memory), C12_refcount_is_holders, "
                  "C12_log_is_accepted_calls, C12_at_most_one_reply, C12_reply_carries_id, C12_later_replies_refused, "
                  "C12_retry_after_reject, C12_released_context_default_reply, C12_released_handle_default_reply, "
                  "C12_arm_preserves_context, C12_history_refines_spec (results, transport calls, open requests and log equal the "
                  "abstract per-request specification); the model is tied to the code on every run by differential execution "
                  "(boundary ids x widths, exhaustive short histories, random histories) under ASan/UBSan with allocation tracking")
    level_note = ("trusted: Coq kernel; hand transcription of the C files (validated by the correspondence run, not verified); "
                  "extraction and OCaml driver; harness. Request ids armed into a context are assumed to have the reply-mark bit clear "
                  "(hypothesis wf_op of the reply theorems; ids with the bit set are never handed to a handler by the dispatchers). "
                  "A non-final unref of the context detaches the transport (code and specification agree; open requests are then dropped). "
                  "mpt_log output, malloc failure and the mptio users of the reply context are not covered. "
                  "All theorems are closed under the global context (no axioms).")
    technique = "Coq invariant + refinement proof (reply mechanism -> per-request log) + differential correspondence check"
    assumptions = ["malloc succeeds", "the transport's send callback does not re-enter the reply context",
                   "request ids have the top bit of their first byte clear",
                   "objects are not used after the caller released them"]

    # ------------------------------------------------------------------ structure
    def split(self, case):
        t = case.split()
        if t[0] not in ("ctx", "sin"):
            return t, []
        nh = 5 if t[0] == "ctx" else 3
        hdr, rest = t[:nh], t[nh:]
        ops = []
        i = 0
        while i < len(rest):
            n = ARITY.get(rest[i], 0)
            ops.append(rest[i:i + n + 1])
            i += n + 1
        return hdr, ops

    def project(self, tok):
        if "|" in tok:
            return "|".join(tok.split("|")[:4])
        if tok.startswith("ok:"):
            return ":".join(tok.split(":")[:2])
        if tok.startswith("E"):
            return "R"
        return tok

    def shrink_candidates(self, case):
        hdr, ops = self.split(case)
        if hdr[0] == "id2buf":
            v, w = int(hdr[1], 16), int(hdr[2])
            for nv in (v >> 8, v >> 1, v & (v - 1) if v else 0, v - 1 if v else 0):
                if nv != v:
                    yield "id2buf %x %d" % (nv, w)
            if w:
                yield "id2buf %x %d" % (v, w - 1)
            return
        if hdr[0] == "buf2id":
            h = hdr[1]
            if h != "-":
                yield "buf2id " + (h[2:] or "-")
                yield "buf2id " + (h[:-2] or "-")
            return
        for k in range(len(ops)):
            yield self.join(hdr, ops[:k] + ops[k + 1:])
        for k in range(1, len(ops)):
            yield self.join(hdr, ops[:k])
        if hdr[0] == "sin":
            for k, o in enumerate(ops):
                if len(o[1]) > 2 * int(hdr[1]) + 2:
                    yield self.join(hdr, ops[:k] + [[o[0], o[1][:-2]] + o[2:]] + ops[k + 1:])
                if o[2] != "0":
                    yield self.join(hdr, ops[:k] + [[o[0], o[1], str(int(o[2]) - 1)] + o[3:]] + ops[k + 1:])
                if o[5] != "0":
                    yield self.join(hdr, ops[:k] + [o[:5] + ["0"]] + ops[k + 1:])
            return
        sc = hdr[4]
        if sc != "-":
            l = sc.split(",")
            yield self.join(hdr[:4] + [",".join(l[:-1]) or "-"], ops)
            yield self.join(hdr[:4] + [",".join(l[1:]) or "-"], ops)
        for k, o in enumerate(ops):
            if o[0] in ("reply", "hreply") and o[-1] not in ("null", "41"):
                yield self.join(hdr, ops[:k] + [o[:-1] + ["41"]] + ops[k + 1:])
            if o[0] == "arm" and len(o[1]) > 2:
                yield self.join(hdr, ops[:k] + [["arm", o[1][:2]]] + ops[k + 1:])
            if o[0] == "creply" and o[2] not in ("null",):
                yield self.join(hdr, ops[:k] + [["creply", o[1], "null"]] + ops[k + 1:])

    # keep the failing operation and the kind of failure while shrinking (the framework's
    # shrinker accepts any remaining disagreement, which merges distinct defects into one replay)
    def _sig(self, case, diff):
        j, a, b = diff
        hdr, ops = self.split(case)
        opn = ops[j][0] if hdr[0] == "ctx" and 0 <= j < len(ops) else "tok%d" % j
        crash = a.startswith("F") or a == "<none>"
        return (hdr[0], opn, crash, a.split("|")[0][:1] == b.split("|")[0][:1])

    def shrink(self, case, kind, workdir, budget=12):
        res, _ = self.evaluate([case], workdir, tagsuffix="_shr0")
        if res[0][kind] is None:
            return case
        want = self._sig(case, res[0][kind])
        cur = case
        for rnd in range(budget):
            cands = []
            for c in self.shrink_candidates(cur):
                if c != cur and c not in cands:
                    cands.append(c)
                if len(cands) >= 300:
                    break
            if not cands:
                break
            res, _ = self.evaluate(cands, workdir, tagsuffix="_shr")
            better = [c for c, r in zip(cands, res)
                      if r[kind] is not None and r[kind][0] >= 0 and self._sig(c, r[kind]) == want]
            if not better:
                break
            cur = min(better, key=len)
        return cur

    def classify(self, case):
        hdr, ops = self.split(case)
        cl = set()
        if hdr[0] == "id2buf":
            v, w = int(hdr[1], 16), int(hdr[2])
            if v:
                cl.add("id2buf")
                cl.add("width=%d" % w)
                if w and v < 2 ** (8 * w - 1):
                    cl.add("id-fits")
                elif w and v < 2 ** (8 * w):
                    cl.add("id-hits-mark-bit")
                else:
                    cl.add("id-too-wide")
            return cl
        if hdr[0] == "buf2id":
            if hdr[1] != "-":
                cl.add("buf2id")
                b = bytes.fromhex(hdr[1])
                if len(b.lstrip(b"\0")) > 8:
                    cl.add("buf2id-over-8-significant")
            return cl
        if hdr[0] == "sin":
            cl.add("stream-input")
            il = int(hdr[1])
            for o in ops:
                b = bytes.fromhex(o[1]) if o[1] != "-" else b""
                if il and len(b) >= il:
                    if b[0] & 0x80:
                        cl.add("sin:reply-marked")
                    elif not any(b[:il]):
                        cl.add("sin:zero-id")
                    else:
                        cl.add("sin:request")
                        cl.add("sin:replies=%s" % o[2])
                elif il:
                    cl.add("sin:short-message")
            if hdr[2] == "0":
                cl.add("sin:read-only")
            return cl
        names = [o[0] for o in ops]
        if "arm" not in names and "armz" not in names:
            return cl
        cl.add("ctx-history")
        for n in names:
            cl.add("op:" + n)
        sc = hdr[4]
        if sc != "-" and any(int(x) < 0 for x in sc.split(",")):
            cl.add("transport-rejects")
        if hdr[2] == "0":
            cl.add("no-send-handler")
        if hdr[3] == "0":
            cl.add("no-target")
        # two outstanding requests: arm, defer, arm
        st = 0
        for n in names:
            if n in ("arm", "armz") and st == 0:
                st = 1
            elif n == "defer" and st == 1:
                st = 2
            elif n in ("arm", "armz") and st == 2:
                st = 3
        if st == 3:
            cl.add("two-outstanding")
        if "unref" in names and "defer" in names and names.index("defer") < len(names) - 1 - names[::-1].index("unref"):
            cl.add("unref-after-defer")
        for a, b in zip(names, names[1:]):
            if a in ("reply", "creply") and b in ("reply", "creply"):
                cl.add("reply-twice")
        if len(ops) > 1:
            cl.add("history")
        return cl

    # ------------------------------------------------------------------ generation
    def gen_id_cases(self, rng, tier):
        cases = []
        for v in boundary_ids():
            for w in range(0, 10):
                cases.append("id2buf %x %d" % (v, w))
        n = 400 if tier == "quick" else 20000
        for _ in range(n):
            k = rng.randrange(0, 65)
            v = rng.randrange(0, 2 ** k) if k else 0
            if rng.random() < 0.3:
                v = rng.choice([2 ** k - 1, 2 ** k, 2 ** k + 1, v]) % 2 ** 64
            need = (v.bit_length() + 8) // 8
            w = rng.choice([need, need, need - 1, need + 1, rng.randrange(0, 13)])
            cases.append("id2buf %x %d" % (v, max(0, w)))
        n = 400 if tier == "quick" else 20000
        for _ in range(n):
            ln = rng.randrange(0, 13)
            z = rng.choice([0, 0, 1, 2, 3, rng.randrange(0, ln + 1)])
            b = [0] * min(z, ln) + [rng.choice([0, 1, 0x7f, 0x80, 0xff, rng.randrange(256)]) for _ in range(ln - min(z, ln))]
            cases.append("buf2id " + hx(b))
        for ln in range(0, 13):
            cases.append("buf2id " + hx([0] * ln))
            cases.append("buf2id " + hx([1] * ln))
            cases.append("buf2id " + hx([0] * (ln - 1) + [1]) if ln else "buf2id -")
            cases.append("buf2id " + hx([0xff] * ln))
        return cases

    ALPHA = [["arm", "01"], ["arm", "0203"], ["reply", "41"], ["reply", "null"], ["creply", "-3", "6e6f"], ["defer"],
             ["hreply", "0", "4242"], ["hreply", "0", "null"], ["hreply", "1", "null"], ["ref"], ["unref"], ["conv", "8"]]
    SCRIPTS = ["-", "-1", "-4,-4,-4,-4,-4,-4"]

    def gen_exhaustive(self, maxlen):
        cases = []
        for L in range(1, maxlen + 1):
            for seq in itertools.product(self.ALPHA, repeat=L):
                names = [o[0] for o in seq]
                if "arm" not in names:
                    continue
                for sc in self.SCRIPTS:
                    cases.append(" ".join(["ctx", "2", "1", "1", sc] + [t for o in seq for t in o]))
        return cases

    def gen_id(self, rng, mx, ok=True):
        if mx == 0:
            return []
        ln = rng.choice([mx, mx, mx, max(1, mx - 1), 1])
        b = [rng.choice([0, 1, 0x7f, rng.randrange(128)])] + [rng.choice([0, 0xff, rng.randrange(256)]) for _ in range(ln - 1)]
        return b

    def gen_payload(self, rng):
        r = rng.random()
        if r < 0.25:
            return "null"
        if r < 0.35:
            return "-"
        n = rng.choice([1, 2, 3, 5, 9])
        return hx([rng.randrange(256) for _ in range(n)])

    def gen_history(self, rng, big=False):
        mx = rng.choice([1, 2, 2, 3, 4, 4, 5, 8, 9, 16, 0])
        send = 0 if rng.random() < 0.07 else 1
        ptr = 0 if rng.random() < 0.07 else 1
        nsc = rng.choice([0, 1, 2, 4, 8])
        mode = rng.random()
        sc = []
        for _ in range(nsc):
            if mode < 0.3:
                sc.append(rng.choice([0, 0, 1, 7]))
            elif mode < 0.5:
                sc.append(rng.choice([-1, -2, -4, -17]))
            else:
                sc.append(rng.choice([0, 0, 3, -1, -4, -16]))
        armed = False
        hs = []          # handle liveness guess
        own = 1
        ops = []
        n = rng.choice([2, 3, 4, 6, 8, 12, 20]) if not big else rng.randrange(20, 60)
        for _ in range(n):
            r = rng.random()
            livek = [k for k, l in enumerate(hs) if l]
            if r < 0.22:
                if rng.random() < 0.06:
                    b = self.gen_id(rng, mx) + [1] * rng.choice([1, 2])     # too long
                elif rng.random() < 0.05:
                    b = []
                else:
                    b = self.gen_id(rng, mx)
                if rng.random() < 0.08:
                    ops.append(["armz", str(len(b))])
                else:
                    ops.append(["arm", hx(b)])
                armed = armed or (0 < len(b) <= mx)
            elif r < 0.42:
                ops.append(["reply", self.gen_payload(rng)])
                armed = False
            elif r < 0.50:
                code = rng.choice([0, 1, -1, -3, 127, -128, 128, -129, 300])
                t = rng.choice(["null", "-", hx([rng.randrange(0x20, 0x7f) for _ in range(rng.choice([1, 5, 20]))])])
                if rng.random() < 0.05:
                    t = hx([rng.randrange(0x20, 0x7f) for _ in range(rng.choice([254, 255, 256, 257, 300]))])
                ops.append(["creply", str(code), t])
                armed = False
            elif r < 0.66:
                ops.append(["defer"])
                if armed and own:
                    hs.append(True)
                    armed = False
            elif r < 0.86:
                k = rng.choice(livek) if livek and rng.random() < 0.85 else rng.randrange(0, len(hs) + 2)
                p = self.gen_payload(rng)
                ops.append(["hreply", str(k), p])
                if k < len(hs) and (p == "null" or rng.random() < 0.7):
                    hs[k] = False
            elif r < 0.90:
                ops.append(["ref"])
                own += 1 if own else 0
            elif r < 0.96:
                ops.append(["unref"])
                own = max(0, own - 1)
            else:
                ops.append(["conv", str(rng.choice([0, 8, 130, 1, 129, 255]))])
        return " ".join(["ctx", str(mx), str(send), str(ptr), ",".join(map(str, sc)) or "-"] + [t for o in ops for t in o])

    def gen_sin(self, rng):
        il = rng.choice([0, 1, 2, 2, 3, 4, 8, 9])
        wr = 0 if rng.random() < 0.1 else 1
        toks = ["sin", str(il), str(wr)]
        for _ in range(rng.choice([1, 1, 2, 3])):
            r = rng.random()
            if il == 0:
                idb = []
            elif r < 0.6:
                idb = self.gen_id(rng, il)
                idb = idb + [rng.randrange(256) for _ in range(il - len(idb))]
                if not any(idb):
                    idb[-1] = 1
            elif r < 0.7:
                idb = [0] * il
            elif r < 0.9:
                idb = [0x80 | rng.randrange(128)] + [rng.choice([0, 0, rng.randrange(256)]) for _ in range(il - 1)]
            else:
                idb = [rng.randrange(128) for _ in range(rng.randrange(0, il))]      # shorter than the id
            pay = [rng.choice([0, 0x41, rng.randrange(256)]) for _ in range(rng.choice([0, 1, 2, 5, 9]))]
            if len(idb) < il and il:
                pay = []
            msg = idb + pay
            if not msg:
                msg = [0x41]
            nrep = rng.choice([0, 1, 1, 2])
            reps = [rng.choice(["null", "-", hx([rng.randrange(256) for _ in range(rng.choice([1, 2, 3, 6]))])]) for _ in range(2)]
            code = rng.choice([0, 0, 0, 1, 3, -1, -2, -16])
            toks += ["req", hx(msg), str(nrep), reps[0], reps[1], str(code)]
        return " ".join(toks)

    def generate(self, rng, tier):
        cases = self.gen_id_cases(rng, tier)
        for _ in range(600 if tier == "quick" else 20000):
            cases.append(self.gen_sin(rng))
        cases += self.gen_exhaustive(3 if tier == "quick" else 4)
        nh = 2500 if tier == "quick" else 80000
        for i in range(nh):
            cases.append(self.gen_history(rng, big=(i % 40 == 0)))
        # creation refused
        cases.append("ctx 65536 1 1 - arm 01 reply null unref")
        cases.append("ctx 65535 1 1 - arm 01 reply null unref")
        return cases


PROP = C12()
