"""C19 — value generators follow the iterator protocol and their formulas
(mptplot/values/iterator_*.c, values_linear.c, values_bound.c, range_set.c, mptcore/meta/iterator_string.c,
mptcore/array/meta_buffer.c, mptcore/types/iterator_consume.c)."""
import ctypes, math, re, struct
from fractions import Fraction
import vcheck
from vcheck import DiffProperty, ASAN_ENV

# ------------------------------------------------------------------ libc oracle (strtod / strtoumax per offset)
_libc = ctypes.CDLL(None, use_errno=True)
_libc.strtod.restype = ctypes.c_double
_libc.strtod.argtypes = [ctypes.c_void_p, ctypes.POINTER(ctypes.c_void_p)]
_libc.strtoumax.restype = ctypes.c_uint64
_libc.strtoumax.argtypes = [ctypes.c_void_p, ctypes.POINTER(ctypes.c_void_p), ctypes.c_int]
ERANGE = 34


def bits(d):
    if d != d:
        return "nan"
    if d == math.inf:
        return "+inf"
    if d == -math.inf:
        return "-inf"
    if d == 0:
        d = 0.0
    return "%016x" % struct.unpack(">Q", struct.pack(">d", d))[0]


_orc_cache = {}


def oracle(text):
    """text: bytes without NUL; returns the oracle token"""
    if text in _orc_cache:
        return _orc_cache[text]
    buf = ctypes.create_string_buffer(text + b"\0")
    base = ctypes.addressof(buf)
    out = []
    for i in range(len(text) + 1):
        end = ctypes.c_void_p()
        ctypes.set_errno(0)
        d = _libc.strtod(base + i, ctypes.byref(end))
        dl = (end.value or base + i) - (base + i)
        dov = 1 if (ctypes.get_errno() == ERANGE and abs(d) == math.inf) else 0
        end = ctypes.c_void_p()
        ctypes.set_errno(0)
        u = _libc.strtoumax(base + i, ctypes.byref(end), 0)
        ul = (end.value or base + i) - (base + i)
        ur = 1 if ctypes.get_errno() == ERANGE else 0
        out.append("%d,%d,%s,%d,%d,%x" % (dl, dov, bits(d), ul, ur, u))
    r = ";".join(out)
    if len(_orc_cache) < 200000:
        _orc_cache[text] = r
    return r


def hx(b):
    return b.hex() if b else "-"


def unhx(h):
    return b"" if h == "-" else bytes.fromhex(h)


# ------------------------------------------------------------------ switches for proposed patches
# Each constant belongs to ONE patch file under docs/.  False = the patch is not committed in /repo yet: the
# generator then keeps the operations that need the patched behaviour to texts on which patched and unpatched
# code agree (the model follows the PATCHED code).  Set to True after committing the patch; nothing else changes.
PATCH_STRING_VECTOR = True         # docs/C19_string_vector.diff  (element of a text iterator as 'c' vector)
PATCH_STRING_KEY_SEPARATOR = True  # docs/C19_string_key_separator.diff  (keyword element ending in a separator)
PATCH_STRING_META_TARGET = True    # docs/C19_string_meta_target.diff  (text iterator metatype to 's' without target: op n)

PATCH_VALUES_TEXT = True           # docs/C19_values_text.diff  (value list metatype to 's': description text; op d on value lists)

PATCH_SPAN_NEGATIVE_LENGTH = True   # docs/C19_span_negative_length.diff  (mpt::span / mpt::source<T> created with a negative length)

TEXT_KINDS = ("create", "values", "string")
CXX_KINDS = ("csrc", "cdef")       # cases run by harness/c19_src.cpp
GRID_KINDS = ("poly", "profile")


def mk_sep_case(sep, text, ops):
    """mpt_iterator_string(text, sep); sep: None (null pointer) or bytes"""
    if sep is None:
        return mk_text_case("string", text, ops)
    arg = (hx(sep) if sep else "-") + ";" + ("n" if text is None else hx(text))
    return " ".join(["strsep", arg, "-" if text is None else oracle(text)] + list(ops))


def mk_text_case(kind, text, ops, grid=None):
    """text: bytes or None (null pointer)"""
    if kind in TEXT_KINDS:
        arg = "n" if text is None else hx(text)
    else:
        arg = ("n" if text is None else hx(text)) + ";" + grid
    orc = "-" if text is None else oracle(text)
    return " ".join([kind, arg, orc] + list(ops))


# ------------------------------------------------------------------ generator material
NUMS = ["0", "1", "-1", "2", "10", "0.5", "0.1", "0.25", "1e3", "1e-3", "3.25", "-2.5", "7", "100", "3", "1e-7", "1e6",
        "1e308", "1.7976931348623157e308", "-1e308", "5e-324", "2.2250738585072014e-308", "1e-310", "1e16", "0.3",
        "1e400", "-1e400", "inf", "-inf", "nan", "infinity", "0x10", "0x1p-3", "1e", "+5", ".5", "5.", "1e+2", "00012",
        "123456789012345678901234567890", "4294967295", "1e-400", "-0", "NAN", "Inf", "-nan"]
GOODNUMS = NUMS[:25]
COUNTS = ["0", "1", "2", "3", "4", "5", "7", "10", "12", "30", "39", "40", "41", "100", "2147483646", "2147483647",
          "2147483648", "4294967294", "4294967295", "4294967296", "-1", "-0", "+3", "0x10", "010", "1e2", "3.5",
          "99999999999999999999", "18446744073709551615", "18446744073709551616", "", "x"]
GOODCOUNTS = COUNTS[:14]
MUTCH = "():,; \t\nabxyz0159.-+eE"
OPS = "vvvaaarckwsVVAARCKWSzmZMdD"
KEY_OPS = "yyyqaaaarcjmzsYYQAARCJZ"
VEC_OPS = "xxxoaaaarclmzsXXOAARCLZ"
MIX_OPS = "vyxuqoaaaarckwsjlmzVYXUAARCKWJLZ"
if PATCH_STRING_META_TARGET:
    KEY_OPS, VEC_OPS, MIX_OPS = KEY_OPS + "nN", VEC_OPS + "nN", MIX_OPS + "nN"


def restrict_values_text(kind, arg, ops):
    """while docs/C19_values_text.diff is not committed: the description a value list hands out is not used
    (op d on sources that may be value lists is dropped; the other generators answer alike with and without it;
    op m reports result codes and whether a text was handed out, not the text)"""
    if PATCH_VALUES_TEXT:
        return ops
    maybe_list = False
    if kind == "values":
        maybe_list = True
    elif kind == "create":
        maybe_list = arg is not None and not re.match(rb"\s*(lin|fac|range)", arg, re.I)
    elif kind == "rset":
        maybe_list = ";values;" in arg
    if not maybe_list:
        return ops
    return [o for o in ops if o not in "dD"] or ["v"]


SRC_OPS = "vvvaaaarcwVVAARCW"


def gen_csrc(rng):
    """mpt::source<T>(block, len, step): T,len,step;values"""
    ty = rng.choice("diy")
    n = rng.choice([0, 1, 2, 3, 3, 5, 5, 8, 12, 45])
    lo, hi = {"d": (-1000, 1000), "i": (-2**31, 2**31 - 1), "y": (0, 255)}[ty]
    vals = [rng.choice([0, 1, lo, hi, rng.randint(lo, hi), rng.randint(-9, 9) if ty != "y" else rng.randint(0, 9)]) for _ in range(n)]
    ln = rng.choice([n, n, n, n, 0, max(0, n - 1), n // 2, 1 if n else 0, -1, -1, -2, -n - 1, -2**31, -2**62])
    if ln < 0 and not PATCH_SPAN_NEGATIVE_LENGTH:
        ln = rng.choice([n, 0, n // 2])
    step = rng.choice([1, 1, 1, 1, -1, -1, 2, -2, 3, -3, 5, n or 1, -(n or 1), n + 1, 1000, -1000, 2**31 - 1, -2**31, 0])
    ops = [rng.choice(SRC_OPS) for _ in range(rng.choice([1, 2, 3, 5, 8, 12, 20, 30]))] if rng.random() < 0.7 else \
        list(rng.choice(["vavavavavavaava", "wrw", "wcWrW", "vacVAvaVA", "aaavrv", "vavrvavcWw", "wwrwcW", "arw", "rvw"]))
    if step == 0:
        # never ends: keep the history short (every documented loop runs to its limit of 40)
        ops = ops[:8]
    return "csrc %s,%d,%d;%s - %s" % (ty, ln, step, ",".join(str(v) for v in vals) or "-", " ".join(ops))


def no_desc(ops):
    """text and buffer iterators: re-creation from the description (op d) is specified for the generators only"""
    return [o for o in ops if o not in "dD"] or ["v"]


def rnd_ops(rng, maxlen=30, alphabet=OPS):
    n = rng.choice([1, 2, 3, 5, 8, 12, 20, 30]) if maxlen >= 30 else rng.randrange(1, maxlen + 1)
    return [rng.choice(alphabet) for _ in range(min(n, maxlen))]


CANNED = [list("vavavavavavaava"), list("wrw"), list("wcWrW"), list("vacVAvaVA"), list("aaavrv"), list("kkkkkk"),
          list("vavrvavcWw"), list("wavakr"), list("vcVCVAvava"), list("wwrwc" "W"), list("vvaavvrvvcVV"),
          list("kkckKKrk"), list("vsavsa"), list("vavcSVAva")]


def pick_ops(rng):
    if rng.random() < 0.3:
        return list(rng.choice(CANNED))
    return rnd_ops(rng)


def sp(rng):
    return rng.choice(["", "", " ", " ", "\t", "  "]) if rng.random() < 0.15 else rng.choice(["", " "])


def num(rng, good=0.7):
    return rng.choice(GOODNUMS) if rng.random() < good else rng.choice(NUMS)


def cnt(rng, good=0.75):
    return rng.choice(GOODCOUNTS) if rng.random() < good else rng.choice(COUNTS)


def gen_lin(rng):
    name = rng.choice(["lin", "linear", "LIN", "Linear", "lIn", "lin", "linear"])
    s = name + sp(rng) + "(" + sp(rng) + cnt(rng)
    if rng.random() < 0.8:
        s += sp(rng) + ":" + sp(rng) + num(rng) + rng.choice([" ", " ", "  ", ","]) + num(rng)
    return s + sp(rng) + ")"


def gen_fac(rng):
    name = rng.choice(["fac", "fact", "factor", "FAC", "Factor"])
    s = name + sp(rng) + "(" + sp(rng) + cnt(rng)
    k = rng.choice([0, 1, 2, 2, 3, 3, 4])
    if k >= 1:
        s += sp(rng) + ":" + sp(rng) + num(rng)
    if k >= 2:
        s += sp(rng) + ":" + ("" if k == 4 else sp(rng) + num(rng))
    if k >= 3:
        s += sp(rng) + ":" + sp(rng) + num(rng)
    return s + sp(rng) + ")"


def gen_range(rng):
    name = rng.choice(["range", "RANGE", "Range"])
    a, b = num(rng), num(rng)
    if rng.random() < 0.6:
        a, b = rng.choice([("0", "1"), ("1", "2"), ("-1", "1"), ("0", "10"), ("0.5", "3.25"), ("0", "100"), ("1", "1"),
                           ("0", "1e-3"), ("2", "1"), ("0", "inf"), ("-inf", "inf"), ("nan", "1"), ("0", "1e308")])
    s = name + sp(rng) + "(" + sp(rng) + a + " " + b
    if rng.random() < 0.7:
        s += sp(rng) + ":" + sp(rng) + rng.choice(["0.25", "0.1", "1", "0.5", "3", "1e-3", "1e-6", "1e-7", "0", "-1", "nan",
                                                  "inf", "2", "0.3", "1e-5", num(rng)])
    return s + sp(rng) + ")"


def gen_vals(rng):
    n = rng.choice([1, 1, 2, 3, 3, 4, 6])
    s = rng.choice(["", "", " ", "\t "]) + num(rng, 0.85)
    for _ in range(n - 1):
        s += rng.choice([" ", " ", " ", "  ", "\t", ",", " ,", "\n"]) + num(rng, 0.85)
    return s + rng.choice(["", "", "", " ", "  ", " x", ",", " nan", "\n"])


def mutate(rng, s):
    k = rng.choice([1, 1, 1, 2, 3])
    for _ in range(k):
        m = rng.randrange(7)
        i = rng.randrange(len(s) + 1)
        if m == 0 and s:
            i = min(i, len(s) - 1)
            s = s[:i] + s[i + 1:]
        elif m == 1:
            s = s[:i] + rng.choice(MUTCH) + s[i:]
        elif m == 2 and s:
            i = min(i, len(s) - 1)
            s = s[:i] + s[i] + s[i:]
        elif m == 3:
            s = s[:i]
        elif m == 4 and s:
            i = min(i, len(s) - 1)
            s = s[:i] + rng.choice(MUTCH) + s[i + 1:]
        elif m == 5:
            s = rng.choice([" ", "  ", "\t", "\n "]) + s
        else:
            s = s + rng.choice([")", "x", " ", "(", ":", " 1"])
    return s


def gen_create(rng):
    r = rng.random()
    if r < 0.30:
        s = gen_lin(rng)
    elif r < 0.55:
        s = gen_fac(rng)
    elif r < 0.78:
        s = gen_range(rng)
    elif r < 0.93:
        s = gen_vals(rng)
    else:
        s = rng.choice(["", " ", "  \t", "lin", "linear(", "range", "range()", "fac()", "lin()", "poly(1 2)", "bound(1 2 3)",
                        "x" * 30 + "(3)", "x" * 31 + "(3)", "lin" + "x" * 28 + "(3)", "lin 3", "lin((3))", "lin(3))",
                        "fac(3::)", "fac(3:::1)", "fac(3:0)", "fac(3:-1)", "fac(3:2:0)", "fac(3:1e-320)", "range(0 1 :)",
                        "lin(3 : 1)", "lin(3 :)", "lin(3 : 1 2 3)", "values", "1", "(1)", "linear (5)", "lin\t(5)"])
    if rng.random() < 0.3:
        s = mutate(rng, s)
    return s.replace("\0", "")


def dpool(rng):
    v = rng.choice([0.0, 1.0, -1.0, 0.5, 0.1, 3.0, 2.0, 10.0, 1e308, -1e308, 1.7976931348623157e308, 5e-324, 2.2250738585072014e-308,
                    1e-310, math.inf, -math.inf, math.nan, 1e16, 1 / 3, -2.5, 100.0, 1e-3, 7.0, rng.uniform(-10, 10),
                    rng.uniform(-1, 1) * 10 ** rng.randrange(-20, 20)])
    return bits(v) if v != v or abs(v) == math.inf else "%016x" % struct.unpack(">Q", struct.pack(">d", v + 0.0))[0]


def dgood(rng):
    v = rng.choice([0.0, 1.0, -1.0, 0.5, 0.1, 3.0, 2.0, 10.0, 1 / 3, -2.5, 100.0, 1e-3, 7.0, rng.uniform(-10, 10)])
    return "%016x" % struct.unpack(">Q", struct.pack(">d", v + 0.0))[0]


def gen_grid(rng, allow_none):
    if allow_none and rng.random() < 0.25:
        return "n"
    n = rng.choice([1, 2, 3, 3, 4, 5, 6])
    return ",".join(dgood(rng) if rng.random() < 0.85 else dpool(rng) for _ in range(n))


def gen_polydesc(rng):
    r = rng.random()
    if r < 0.05:
        return None
    if r < 0.1:
        return rng.choice(["", " ", "x", ": 1", "1 2 :", "1 2 : x", "1 2 : 3 : 4", "1,2"])
    if r < 0.13:
        return " ".join(rng.choice(["1", "0.5", "2"]) for _ in range(rng.choice([127, 128, 129, 131])))
    nc = rng.choice([1, 2, 2, 3, 3, 4, 5])
    s = " ".join(num(rng, 0.9) for _ in range(nc))
    if rng.random() < 0.5:
        s += rng.choice([" : ", ":", " :"]) + " ".join(num(rng, 0.9) for _ in range(rng.randrange(0, nc + 1)))
    return s


def gen_profdesc(rng):
    r = rng.random()
    if r < 0.3:
        s = rng.choice(["lin", "linear", "line", "LIN", "Linear", "lin:", "linear :", "linea"]) + rng.choice([" ", ":", " : ", "", "  "]) \
            + num(rng, 0.85) + " " + num(rng, 0.85)
    elif r < 0.55:
        s = rng.choice(["bound", "boundary", "bounda", "BOUND", "bound:", "boundary:"]) + rng.choice([" ", ":", " : ", ""]) \
            + " ".join(num(rng, 0.85) for _ in range(rng.choice([3, 3, 3, 2, 4])))
    elif r < 0.85:
        p = gen_polydesc(rng)
        if p is not None and len(p) > 150:
            p = p[:9]
        s = rng.choice(["poly", "POLY", "poly:", "polynom"]) + rng.choice([" ", ":", " : ", ""]) + (p or "")
    else:
        s = rng.choice(["", "lin", "bound", "poly", "linear", "x", "lin 1", "bound 1 2", "poly x", "linearx 1 2", "linear1 2",
                        "lineaR 0 1", "lin:0:1", " lin 0 1", "polyx 1"])
    if rng.random() < 0.2:
        s = mutate(rng, s)
    s = s.replace("\0", "")
    if s.strip().lower().startswith("file"):
        s = "x" + s
    return s


def gen_string(rng):
    n = rng.choice([0, 1, 1, 2, 3, 3, 4])
    s = rng.choice(["", "", " "])
    for i in range(n):
        if i:
            s += rng.choice([" ", " ", " ", ",", ";", "/", ":", "  ", " ,", "\t"])
        s += num(rng, 0.85)
    if rng.random() < 0.08:
        return rng.choice([" ", "  ", "\t", " \n ", "1  ", "1   2", "  1", "1 \t", ",", " ,", "1,  2"])
    return s + rng.choice(["", "", "", " ", "  ", "   ", ",", " x", "x"])


WORDS = ["ab", "c", "key", "xyz", "q", "12", "7", "345", "0"]
SEPS = [None, None, None, b"", b":", b",;", b" ", b": ", b"=", b"\t,", b"b", b" ,;/:"]


def gen_wordtext(rng, need_vec, need_key):
    """text for keyword / vector reads; returns (sep, text)"""
    sep = rng.choice(SEPS)
    n = rng.choice([1, 2, 2, 3, 3, 4, 6])
    strict = need_vec and not PATCH_STRING_VECTOR                      # words, one blank behind each
    blanks = not strict and need_key and not PATCH_STRING_KEY_SEPARATOR  # no separator characters
    full = not strict and not blanks
    s = ""
    if not strict and rng.random() < 0.2:
        s = rng.choice([" ", "  ", ",", "\t"]) if full else rng.choice([" ", "  ", "\t"])
    for i in range(n):
        if i:
            s += (rng.choice([" ", " ", ",", ";", "/", ":", "  ", " ,", ", ", "\t", "=", ";;", " : "]) if full else
                  rng.choice([" ", " ", "  ", "\t", "\n "]) if blanks else " ")
        s += (rng.choice(WORDS + ["1.5", "a-b", "-3", "1e3", "x1", "1x", "nan", ""]) if full else
              rng.choice(WORDS + ["1.5", "a-b", "-3", "1e3", "x1", "1x", "nan"]) if blanks else rng.choice(WORDS))
    s += (rng.choice(["", "", " ", "  ", ",", " ,", ";", "\n"]) if full else
          rng.choice(["", "", " ", "  ", "\n"]) if blanks else " ")
    if full and rng.random() < 0.15:
        s = mutate(rng, s).replace("\0", "")
    if blanks and sep and any(ch in s.encode() for ch in sep.replace(b" ", b"").replace(b"\t", b"")):
        sep = None
    return sep, s.encode()


def restrict_unpatched(sep, text, ops):
    """while a patch is not committed: keep the operations that need it to texts on which the patched and the
    unpatched code agree (see the switches at the top); returns (sep, ops)"""
    o = "".join(ops).lower()
    vec = any(c in o for c in "xol")
    key = any(c in o for c in "yqj")
    if vec and not PATCH_STRING_VECTOR:
        # every position a history can reach must be followed by a word and a blank inside the text:
        # words of WORDS separated and followed by exactly one blank, separators that do not occur in the text
        if not re.fullmatch(rb"((ab|c|key|xyz|q|[0-9]+) )+", text):
            ops = [c for c in ops if c.lower() not in "xol"] or ["a"]
        if sep is not None and re.search(rb"[0-9a-z]", sep):
            sep = None
    if key and not PATCH_STRING_KEY_SEPARATOR:
        eff = b" ,;/:" if sep is None else sep
        if any(ch in text for ch in eff.replace(b" ", b"").replace(b"\t", b"")):
            ops = [c for c in ops if c.lower() not in "yqj"] or ["a"]
    return sep, ops


def gen_rset(rng):
    r = rng.random()
    if r < 0.45:
        sk = rng.choice(["string", "values"])
        n = rng.choice([0, 1, 2, 2, 3, 4])
        t = rng.choice([" ", " ", ","] if sk == "string" else [" "]).join(num(rng, 0.9) for _ in range(n))
        if rng.random() < 0.2:
            t = gen_string(rng) if sk == "string" else gen_vals(rng)
        t = t.encode() or b" "
        ops = pick_ops(rng)[:8]
        return " ".join(["rset", "it;%s;%s" % (sk, hx(t)), oracle(t)]
                        + (no_desc(ops) if sk == "string" else restrict_values_text("rset", ";%s;" % sk, ops)))
    if r < 0.5:
        return "rset itn -"
    if r < 0.85:
        n = rng.choice([0, 1, 2, 2, 2, 3])
        nb = rng.choice([8 * n, 8 * n, 8 * n, 8 * n + 1, 8 * n + 7, max(0, 8 * n - 1), max(0, 8 * n - 8)])
        ds = ",".join(dpool(rng) for _ in range(n)) or "-"
        return "rset vec;%d;%s -" % (nb, ds)
    if r < 0.92:
        return "rset vecb;%d -" % rng.choice([0, 8, 15, 16, 17, 23, 24, 32])
    if r < 0.95:
        return "rset vecn -"
    return "rset type;%s -" % rng.choice("sd")


def gen_buffer(rng):
    n = rng.choice([0, 1, 1, 2, 3, 3, 4])
    b = b""
    for _ in range(n):
        b += rng.choice([b"ab", b"c", b"", b"12", b"1.5", b"xyz "]) + b"\0"
    if rng.random() < 0.25:
        b += rng.choice([b"t", b"tail", b"7"])
    return b


def ok_consume_string(text):
    return not (re.search(rb"[ \t\n\v\f\r]{2}", text) or (text and not text.strip(b" \t\n\v\f\r")))


def strip_consume(ops):
    return [{"k": "v", "K": "V"}.get(o, o) for o in ops]


class C19(DiffProperty):
    pid = "C19"
    claimed = True
    coq_dir = "C19"
    extract_vo = "C19/Extract.vo"
    mlname = "c19_model"
    driver = "c19_driver.ml"
    harness_src = "c19_iter.c"
    libs = ["mptplot", "mptcore"]
    harness_env = dict(ASAN_ENV, ASAN_OPTIONS=ASAN_ENV["ASAN_OPTIONS"] + ":symbolize=0")
    quick_n = 3200
    thorough_n = 200000
    rule = ("a case = one source (description text for mpt_iterator_create / _values / _string / _poly / _profile, or the arguments of "
            "mpt_iterator_linear / _boundary / mpt_meta_buffer / _arguments / mpt_values_linear / _bound, or a text/value-list iterator handed as "
            "TypeIteratorPtr value to _mpt_iterator_linear/_range/_factor - kind from, with the next value of the source observed) + an interleaving of up to 30 calls "
            "of value / advance / reset / clone / mpt_iterator_consume ('d', and type 0 = skip) / documented loop (<= 40 elements) / "
            "read-as-string / conversions of the metatype itself (op m; text and buffer iterators: type list, iterator, buffer, vector, string, "
            "unsupported type, with and without target, addref; the generators of mptplot/values - linear, range, factor, boundary, polynomial, "
            "value list: type list, iterator, 'd', 's' with and without target, addref) / re-creation of a generator from the description it hands "
            "out (op d: slot 1 := mpt_iterator_values(text of the 's' conversion); offered by value lists only) on the source (lower case) and on its clone (upper case). Text iterators "
            "(mpt_iterator_string with separator configurations NULL, empty, ':', ',;', ' ', ': ', '=', tab+',', 'b', the default) are also "
            "read element by element as keyword ('k'), as 'c' vector, as uint32 and without target, and walked with the documented loop "
            "reading keywords / vectors; histories of ONE reader are compared with the cursor of that reader, histories mixing readers "
            "with the mechanism model only. Buffer/argument iterators are also consumed as numbers (refused). mpt_range_set is also "
            "called directly (kind rset: iterator value over a text/value-list source, null iterator pointer, vector of doubles with "
            "0..3 elements and byte lengths 8n-8..8n+7, null base, null vector, other types) on a range preset to 7..9. Descriptions are generated from the grammar (lin|linear, fac|fact|factor, range, value "
            "lists; profile lin/bound/poly) with counts 0,1,2,..,2^31-1,2^31,2^32-2,2^32-1,2^32,negative, hex/octal, overlong, and bounds "
            "including 1e308, DBL_MAX, denormals, inf, nan, 1e400, hex floats; 30% are mutated (delete/insert/duplicate/replace a character, "
            "truncate, extra blanks, extra separators). COMPARISON: I (code) against M (mechanism model, binary64 arithmetic modelled exactly "
            "in Coq): every token must be identical - creation verdict, every return code, every value as binary64 bit pattern and 17-digit "
            "decimal, non-finite values as class (nan/+inf/-inf; -0 printed as 0). I against S (denoted sequence + cursor): result classes "
            "(value/none/error; advance more/end/refused; reset ok; clone offered; consume ok+value/refused; walk count+end+values) exactly; for "
            "linear sources with finite bounds every value must additionally lie within 4 ulp (binary64, ulp taken at |a|+|b|) of the exact "
            "rational closed form a + i*(b-a)/n computed by the specification (applied where b-a does not overflow and the exact step "
            "(b-a)/n is zero or a normal binary64 number). A case is non-trivial when it runs at least one call. While "
            "PATCH_STRING_VECTOR / PATCH_STRING_KEY_SEPARATOR (top of props/c19.py) are False the generator keeps vector reads to texts "
            "'(word blank)+' and keyword reads to texts without separator characters, where patched and unpatched code agree; the "
            "conversion of the text-iterator metatype to 's' WITHOUT target (op n) is generated only with PATCH_STRING_META_TARGET; "
            "while PATCH_VALUES_TEXT is False op d is not generated on sources that may be value lists (kinds values, rset it;values, "
            "create with a text that does not start with lin/fac/range) - op m, which reports result codes and whether a text was handed "
            "out but not the text, runs everywhere. Kinds csrc / cdef are run by a second binary (harness/c19_src.cpp, C++): "
            "mpt::source<T>(block, len, step) for T = double, int32_t, uint8_t over exact-size heap blocks of 0..45 elements, len = 0, "
            "part, all and - only with PATCH_SPAN_NEGATIVE_LENGTH - negative (-1, -2, -n-1, -2^31, -2^62), steps +-1, +-2, +-3, 5, +-n, n+1, "
            "+-1000, INT_MAX, INT_MIN and 0, histories of value / advance / reset / copy construction / documented loop on the source and its "
            "copy; cdef = an iterator subclass that only implements value() (default advance()/reset() of types.h).")
    modelled = ("mptplot/values/{iterator_linear,iterator_factor,iterator_boundary,iterator_poly,iterator_values,iterator_create,"
                "iterator_profile,values_linear,values_bound,range_set}.c, mptcore/meta/iterator_string.c (element conversions to double, "
                "uint32, string, keyword incl. mpt_convert_key with separator configurations, 'c' vector; clone; result codes of the "
                "metatype conversions), mptcore/array/meta_buffer.c + slice_next.c for 'c' arrays (iterator, clone, all metatype "
                "conversions incl. the command string of the argument iterator), mptcore/types/iterator_consume.c (target 'd' and type 0), "
                "mptcore/misc/string_nextvis.c, the control flow of mpt_cdouble / mpt_cuint32 transcribed in coq/C19/IterModel.v; "
                "binary64 arithmetic is modelled exactly (round-to-nearest-even on rationals; sign of zero not represented); strtod / "
                "strtoumax are oracles; mpt_range_set and the constructors fed from another iterator (consume 'u'/'d' from a text iterator or a "
                "value list) are modelled. The keyword and vector element conversions are modelled AS PATCHED "
                "(docs/C19_string_key_separator.diff, docs/C19_string_vector.diff); the metatype conversions of the five generator files "
                "(iterConv, iterFactorConv, iterBoundaryConv, iterPolyConv, iterValueConv) are result-code tables, the description a value "
                "list hands out is modelled AS PATCHED (docs/C19_values_text.diff: the text kept behind the object) and used by op d. "
                "mpt::source<T> of mptcore/types.h is modelled as an eighth kind SSrc (csrc: elements of the span, position, step, type id; "
                "mk_csrc = the constructor AS PATCHED by docs/C19_span_negative_length.diff: negative length = empty span); the default "
                "iterator::advance()/reset() are two constants (MissingData, BadOperation) compared with the code by the driver, not in Coq. "
                "NOT modelled: the 'file' profile, the CONTENT of the "
                "'s'/vector conversions of the text-iterator METATYPE (they hand out the separator configuration, see notes), typed "
                "(non-char) buffers (harness syntax <hex>@<type> exists, generator does not emit it), errno values, allocation failure")
    trusted = ["harness/c19_src.cpp reads the element through value()->type()/data() (type must be the id of T) instead of the conversion layer; "
               "the copy of a source (op c) is C++ copy construction; element blocks are exact-size heap blocks",
               "libc strtod / strtoumax (value, consumed length, ERANGE) are an oracle: the generator asks the same libc through ctypes for every "
               "offset of every text and the model consumes the table; isspace/isgraph/isalpha of the 'C' locale are ASCII tables in the model",
               "IEEE-754 binary64 round-to-nearest-even of the host (SSE2, no contraction at -O1) is what rnd64 in IterModel.v computes; this is "
               "validated by the bit-exact comparison of every value, not proved",
               "harness/c19_iter.c reads values the way examples/iter.c does (value(), mpt_value_convert to 'd'); texts live in exact-size heap blocks; "
               "keywords are read as C strings up to the terminator the iterator wrote, vectors by base and length (lengths above 100000 are printed as 'wild')"]
    level_text = ("proof: 44 Coq theorems (coq/C19/Properties.v), all for EVERY arithmetic rnd : Q -> fv, every count in N and every history, no "
                  "bound. Protocol: C19_walk_visits_exactly / C19_walk_of_nothing / C19_text_walk_visits_exactly (documented loop yields exactly "
                  "the remaining denoted sequence and stops), C19_past_end_reported, C19_reset_replays + C19_denoted_stable, C19_clone_replays / "
                  "C19_clone_refines, C19_history_refines (any interleaving of value/advance/reset/clone/skip on source and clone, all seven kinds), "
                  "C19_history_refines_desc (the same with re-creation of a generator from the description it hands out: a value list re-created from "
                  "its own text stands at the start of the same denoted sequence whatever position it was described at, the other generators refuse), "
                  "C19_values_reset_total (the reset of a value list cannot fail: both error branches of iterValueReset are unreachable), "
                  "C19_source_fresh (mpt::source<T>: for every element list, every length - negative, 0, up to the number of elements - and every "
                  "step but 0 the constructor result satisfies the invariant, is numeric and stands at the start of what it denotes; a negative "
                  "length denotes nothing; step 1 denotes the first len elements in order - so C19_walk_visits_exactly, C19_walk_of_nothing, "
                  "C19_past_end_reported, C19_reset_replays, C19_denoted_stable, C19_clone_replays and C19_history_refines hold for this kind as "
                  "they stand: coq/C19/IterSource.v proves that position/step arithmetic refines the cursor over the visited elements), "
                  "C19_build_fresh / C19_buffer_fresh / C19_text_fresh (any separators). Text iterator read as keywords / 'c' vectors, every "
                  "separator configuration: C19_byte_history_refines (any interleaving of such reads with and without target, advance, reset, "
                  "clone on source and clone refines the cursor over the elements the text denotes for that reader), "
                  "C19_byte_walk_visits_exactly, C19_byte_text_fresh, C19_key_element / C19_vector_element (what the readers hand out and "
                  "which single byte ends an element, stated without the scanning loops), C19_buffer_no_numbers. Descriptions: C19_accepted_iff_in_grammar (mpt_iterator_create accepts "
                  "EXACTLY the grammar, with count/bounds at the named positions), C19_malformed_refused, C19_grammar_unambiguous, "
                  "C19_profile_iff_in_grammar, C19_poly_accepted_in_grammar / C19_poly_in_grammar_accepted, C19_build_denotes / "
                  "C19_created_denotes / C19_profile_denotes (accepted => denotes exactly the sequence given by count and formula, iterator "
                  "at its start). Formulas: C19_linear_closed_form + _first/_last/_equal_steps, C19_poly_exact (exact arithmetic), "
                  "C19_values_linear_spec / C19_values_bound_spec / C19_values_small / C19_values_linear_exact. Feeding: C19_range_from_numbers, "
                  "C19_count_from_numbers_refused, C19_range_set_from_numbers / C19_range_set_vector / C19_range_set_other (mpt_range_set for "
                  "every value type). The model is tied to the code on every run by differential execution under ASan/UBSan; "
                  "binary64 arithmetic is modelled exactly, every value compared bit for bit")
    level_note = ("trusted: Coq kernel; hand transcription of the C files (validated by the correspondence run, not verified); extraction and "
                  "OCaml driver; harness; libc strtod/strtoumax as oracle (table per text offset; the grammar tokens are defined as what the "
                  "table answers through mpt_cdouble/mpt_cuint32, so the grammar theorems need no hypothesis on the table); rnd64 = IEEE "
                  "round-to-nearest-even is validated by bit-exact comparison, not proved. PARTIAL: (1) the closed forms (linear, polynomial, "
                  "mpt_values_linear) are proved for exact arithmetic; their distance to the binary64 evaluation is checked by the stated "
                  "4-ulp rule on every explored case, not proved; (2) constructors fed from a TEXT iterator are modelled and compared only "
                  "(theorems cover sources that serve numbers); the name tails of the profile keywords (next_vis_cont/next_vis0) enter the "
                  "profile grammar as the model's lexical functions; (3) the 'file' profile is not modelled; (4) histories that MIX the "
                  "readers of a text iterator (numbers, keywords, vectors, uint32) are compared with the mechanism model only - the cursor "
                  "theorems hold per reader; the metatype conversions (parseConv / bufferConv / bufferConvArgs) are result-code tables "
                  "compared with the code, not subject of a theorem (this includes the result codes of the five generator files). OPEN DEFECT in "
                  "mptplot/values/iterator_values.c: the 's' conversion hands out `(char *) d + 1` (one byte into the object) instead of the text "
                  "behind it - replay docs/C19_replay_values_text.json (`create \"3 4\"` | a d: re-creation refused, D:0 vs D:1), patch "
                  "docs/C19_values_text.diff, switch PATCH_VALUES_TEXT (False: op d is kept off value lists); model and theorems describe the code "
                  "WITH the patch (committed as 8cf6121, switch True). OPEN DEFECT in mptcore/types.h: mpt::span<T>(ptr, negative length) keeps "
                  "len * sizeof(T) as byte length (2^61-1 elements for a double), so mpt::source<T>(ptr, -1) reports a further element after none, "
                  "hands out a value at address 8 (ASan SEGV on reading it) and reset() returns -1 - replay docs/C19_replay_span_negative_length.json "
                  "(`csrc d,-1,1;1,-4,78` | v a v: N A:100 F vs N A:- N), patch docs/C19_span_negative_length.diff, switch "
                  "PATCH_SPAN_NEGATIVE_LENGTH (False: negative lengths are not generated, corpus/C19/patched_span_negative_length.cases not loaded); "
                  "model and theorem describe the code WITH the patch. A source with step 0 never ends (advance keeps answering the type): compared "
                  "with the mechanism model only, the cursor theorems need step <> 0. The three defects in mptcore/meta/iterator_string.c are committed (replays "
                  "docs/C19_replay_string_vector*.json, docs/C19_replay_string_key_separator*.json, docs/C19_replay_string_meta_target.json; "
                  "patches docs/C19_string_vector.diff, docs/C19_string_key_separator.diff, docs/C19_string_meta_target.diff): the model and "
                  "the theorems describe the code with these patches (switches PATCH_STRING_VECTOR / PATCH_STRING_KEY_SEPARATOR / "
                  "PATCH_STRING_META_TARGET are True). Unreachable in the anchored files (not "
                  "driven): iterator_values.c lines 114/115/118 (reset failure: C19_values_reset_total), bufferConvertEntry and the converter branch of bufferGet (entry.converter is never set), the failure branch of "
                  "mpt_meta_buffer (bufferReset never returns < 0), iterator_string.c lines 51/82/149 (a pending terminator implies a "
                  "non-blank element; no NUL inside the text without one); the failure branch of mpt_meta_arguments needs a typed buffer "
                  "with a partial last element (not modelled). All theorems are closed under "
                  "the global context (no axioms). The model follows /repo main including 70bd00b (white-space-only element = MissingData). See docs/notes_C19.md.")
    technique = "Coq proof (state machines refine a cursor over the denoted sequence) + differential correspondence check with exact binary64 model"
    assumptions = ["malloc succeeds", "texts contain no byte >= 0x80 (the C code passes plain char to isspace)",
                   "|b-a| does not overflow binary64 and (b-a)/n is not subnormal where the closed form is compared"]

    # corpus files named patched_<switch>.cases hold cases that need the proposed patch
    def corpus(self):
        import os
        d = os.path.join(os.path.dirname(os.path.dirname(os.path.abspath(__file__))), "corpus", self.pid)
        skip = set()
        if not PATCH_STRING_VECTOR:
            skip.add("patched_string_vector.cases")
        if not PATCH_STRING_KEY_SEPARATOR:
            skip.add("patched_string_key_separator.cases")
        if not PATCH_STRING_META_TARGET:
            skip.add("patched_string_meta_target.cases")
        if not PATCH_VALUES_TEXT:
            skip.add("patched_values_text.cases")
        if not PATCH_SPAN_NEGATIVE_LENGTH:
            skip.add("patched_span_negative_length.cases")
        cs = []
        for f in sorted(os.listdir(d)):
            if f in skip or not f.endswith(".cases"):
                continue
            for line in open(os.path.join(d, f)):
                line = line.strip()
                if line and not line.startswith("#"):
                    t = line.split()
                    if not PATCH_VALUES_TEXT and t[0] in ("values", "create", "rset") and len(t) > 3:
                        arg = None if t[0] != "create" else (None if t[1] == "n" else unhx(t[1]))
                        if t[0] == "rset":
                            arg = t[1]
                        line = " ".join(t[:3] + restrict_values_text(t[0], arg, t[3:]))
                    cs.append(line)
        return cs

    # ---- two harness binaries: cases of kind csrc / cdef are run by the C++ harness harness/c19_src.cpp
    cxx_harness_src = "c19_src.cpp"
    cxx_libs = ["mpt++", "mptcore"]     # value's copy constructor (copy of a source) lives in mpt++/value.cpp

    def warm(self):
        vcheck.build_harness(self.harness_src, self.libs, extra=self.extra_harness_flags)
        vcheck.build_model(self.mlname, self.driver, self.extract_vo)
        vcheck.build_harness(self.cxx_harness_src, self.cxx_libs)

    def evaluate(self, cases, workdir, tagsuffix=""):
        hx = vcheck.build_harness(self.harness_src, self.libs, extra=self.extra_harness_flags)
        mx = vcheck.build_model(self.mlname, self.driver, self.extract_vo)
        ided = ["c%d %s" % (i, c) for i, c in enumerate(cases)]
        is_cxx = [c.split()[:1][0] in CXX_KINDS if c.split() else False for c in cases]
        c_cases = [l for l, x in zip(ided, is_cxx) if not x]
        x_cases = [l for l, x in zip(ided, is_cxx) if x]
        I, errs = {"I": {}}, []
        if c_cases:
            r, e = vcheck.run_cases(hx, c_cases, workdir, "impl" + tagsuffix, env=self.harness_env, args=self.harness_args)
            I["I"].update(r.get("I", {})); errs += e
            late = [l for l in c_cases if any(t.startswith("F:timeout") for t in (I["I"].get(l.split(None, 1)[0]) or []))]
            if late and not self.harness_args:
                r, e = vcheck.run_cases(hx, late, workdir, "implate" + tagsuffix, env=self.harness_env, args=["60"], shards=min(4, len(late)))
                I["I"].update(r.get("I", {})); errs += e
        if x_cases:
            cx = vcheck.build_harness(self.cxx_harness_src, self.cxx_libs)
            r, e = vcheck.run_cases(cx, x_cases, workdir, "implcxx" + tagsuffix, env=self.harness_env, args=self.harness_args)
            I["I"].update(r.get("I", {})); errs += e
        M, e2 = vcheck.run_cases(mx, ided, workdir, "model" + tagsuffix)
        res = []
        for i, c in enumerate(cases):
            k = "c%d" % i
            res.append(self.compare(c, I["I"].get(k), M.get("M", {}).get(k), M.get("S", {}).get(k)))
        return res, errs + e2

    # ---- case structure
    def split(self, case):
        t = case.split()
        return t[:3], [[x] for x in t[3:]]

    def project(self, tok):
        if tok.startswith("V:"):
            p = tok[2:].split(":")
            if p[0] in ("s", "v"):
                return tok
            v = p[-1]
            return "V:" + v.split("/")[0]
        if tok.startswith("E:"):
            return "E"
        if tok.startswith("A:"):
            n = int(tok[2:])
            return "A:+" if n > 0 else ("A:0" if n == 0 else "A:-")
        if tok.startswith("R:"):
            return "R:ok" if int(tok[2:]) >= 0 else "R:err"
        if tok.startswith("Q:"):
            p = tok.split(":")
            return "Q:-" if int(p[1]) < 0 else "Q:+:" + p[2].split("/")[0]
        if tok[:2] in ("W:", "J:", "H:"):
            p = tok.split(":")
            e = p[2]
            e = e[0] if e[0] in "Ee" else e
            return ":".join([p[0], p[1], e, p[3]])
        if tok[:2] in ("Y:", "X:"):
            p = tok.split(":")
            return p[0] + ":-" if int(p[1]) < 0 else p[0] + ":" + p[2]
        if tok[:3] in ("Yn:", "Xn:"):
            return tok[:3] + ("-" if int(tok[3:]) < 0 else "+")
        if tok.startswith("Sn:"):
            return "Sn:" + ("-" if int(tok[3:]) < 0 else "+")
        if tok.startswith("D:"):
            return "D:-" if tok[2:].startswith("-") else tok
        if tok.startswith("Z:"):
            n = int(tok[2:])
            return "Z:+" if n > 0 else ("Z:0" if n == 0 else "Z:-")
        return tok

    @staticmethod
    def tolerance_ok(itok, ann):
        m = re.match(r"^(-?[0-9a-f]+)/([0-9a-f]+)@([0-9a-f]+)/([0-9a-f]+)$", ann)
        if not m or not re.match(r"^[0-9a-f]{16}$", itok):
            return False
        exact = Fraction(int(m.group(1), 16), int(m.group(2), 16))
        scale = Fraction(int(m.group(3), 16), int(m.group(4), 16))
        val = Fraction(struct.unpack(">d", bytes.fromhex(itok))[0])
        if scale == 0:
            e = -1022
        else:
            e = scale.numerator.bit_length() - scale.denominator.bit_length()
            if Fraction(2) ** e > scale:
                e -= 1
            e = max(e, -1022)
        ulp = Fraction(2) ** (e - 52)
        return abs(val - exact) <= 4 * ulp

    def compare(self, case, it, mt, st):
        r = {"corr": None, "spec": None, "I": it, "M": mt, "S": st}
        if it is None or mt is None or st is None:
            r["corr"] = (-1, "missing output", "I=%s M=%s S=%s" % (it is not None, mt is not None, st is not None))
            return r
        for j in range(max(len(it), len(mt))):
            a = it[j] if j < len(it) else "<none>"
            b = mt[j] if j < len(mt) else "<none>"
            if a != b:
                r["corr"] = (j, a, b)
                break
        for j in range(max(len(it), len(st))):
            a = self.project(it[j]) if j < len(it) else "<none>"
            b = st[j] if j < len(st) else "<none>"
            ann = None
            if "~" in b:
                b, ann = b.split("~", 1)
            if b == "*":
                continue
            if b == "A:<=0" and a in ("A:0", "A:-"):
                continue
            if b == "Z:<=0" and a in ("Z:0", "Z:-"):
                continue
            if a != b:
                r["spec"] = (j, a, b)
                break
            if ann is not None:
                v = a.split(":")[-1]
                if not self.tolerance_ok(v, ann):
                    r["spec"] = (j, a, b + " within 4 ulp of ~" + ann)
                    break
        return r

    def classify(self, case):
        hdr, ops = self.split(case)
        cl = {"kind:" + hdr[0]}
        o = "".join(x[0] for x in ops)
        if not o and hdr[0] not in ("vlin", "vbound", "rset"):
            return set()
        if hdr[0] == "rset":
            cl.add("rset:" + hdr[1].split(";")[0])
            return cl
        if hdr[0] in ("string", "strsep"):
            lo = o.lower()
            for name, letters in (("read-key", "yqj"), ("read-vector", "xol"), ("read-uint", "u")):
                if any(c in lo for c in letters):
                    cl.add(name)
            if hdr[0] == "strsep":
                cl.add("separators:" + hdr[1].split(";")[0])
        if "m" in o.lower():
            cl.add("metatype-conversions:" + hdr[0])
        if "d" in o.lower() and hdr[0] not in ("string", "strsep", "buffer", "args"):
            cl.add("re-created-from-description:" + hdr[0])
        if "z" in o.lower():
            cl.add("skip")
        if hdr[0] in ("buffer", "args") and ("k" in o.lower() or "w" in o.lower()):
            cl.add("buffer-as-number")
        if "c" in o or "C" in o:
            cl.add("clone")
        if "r" in o or "R" in o:
            cl.add("reset")
        if "k" in o.lower():
            cl.add("consume")
        if "w" in o.lower():
            cl.add("walk")
        if len(o) >= 20:
            cl.add("history>=20")
        if hdr[0] == "from":
            cl.add("from:" + hdr[1].split(";")[0] + ":" + hdr[1].split(";")[1])
        if hdr[0] in TEXT_KINDS + GRID_KINDS:
            th = hdr[1].split(";")[0]
            if th != "n":
                t = unhx(th).lower()
                if re.search(rb"inf|nan|1e400", t):
                    cl.add("nonfinite-text")
                if re.search(rb"\d{10}", t):
                    cl.add("huge-number")
            else:
                cl.add("null-text")
        return cl

    # ---- shrinking: drop calls, then shorten the text (the oracle is recomputed)
    def shrink(self, case, kind, workdir, budget=12):
        return DiffProperty.shrink(self, case, kind, workdir, budget=8)

    def shrink_candidates(self, case):
        n = 0
        for c in self._shrink_candidates(case):
            yield c
            n += 1
            if n >= 150:
                return

    def _shrink_candidates(self, case):
        hdr, ops = self.split(case)
        flat = [o[0] for o in ops]
        for k in range(len(flat)):
            yield " ".join(hdr + flat[:k] + flat[k + 1:])
        if hdr[0] in TEXT_KINDS + GRID_KINDS:
            parts = hdr[1].split(";")
            if parts[0] != "n":
                t = unhx(parts[0])
                for i in range(len(t)):
                    t2 = t[:i] + t[i + 1:]
                    if hdr[0] == "profile" and t2.strip().lower().startswith(b"file"):
                        continue
                    yield mk_text_case(hdr[0], t2, flat, parts[1] if len(parts) > 1 else None)
        if hdr[0] == "strsep":
            sp, tx = hdr[1].split(";")
            if tx != "n":
                t = unhx(tx)
                for i in range(len(t)):
                    t2 = t[:i] + t[i + 1:]
                    yield " ".join(["strsep", sp + ";" + hx(t2), oracle(t2)] + flat)
        if hdr[0] in TEXT_KINDS + GRID_KINDS:
            parts = hdr[1].split(";")
            if len(parts) > 1 and "," in parts[1]:
                g = parts[1].split(",")
                for i in range(len(g)):
                    yield " ".join([hdr[0], parts[0] + ";" + ",".join(g[:i] + g[i + 1:]), hdr[2]] + flat)

    # ---- generator
    def generate(self, rng, tier):
        n = self.quick_n if tier == "quick" else self.thorough_n
        cases = []
        # fixed probes: every canned history on a few well-formed sources
        for d in ["lin(3 : 0 1)", "fac(3 : 2 : 3 : 1)", "range(0 1 : 0.25)", "1 2 3", "lin(1)", "fac(0)", "", "lin(4294967294 : 0 1)",
                  "fac(4294967295)", "range(0 1)", "1 nan 2", "1 2 x"]:
            for o in CANNED + [list("mavdVAmMDV"), list("wdWmrcMD")]:
                cases.append(mk_text_case("create", d.encode(), restrict_values_text("create", d.encode(), o)))
        cases.append(mk_text_case("create", None, list("wrwc" "WmdM")))
        cases.append("linear 3,0000000000000000,3ff0000000000000 - m a d c M D")
        cases.append("boundary 3,0000000000000000,3ff0000000000000,4000000000000000 - m a d c M D")
        cases.append("poly %s;3ff0000000000000,4000000000000000 %s m a d c M D" % (hx(b"1 2 3"), oracle(b"1 2 3")))
        cases.append("poly %s;n %s m a d" % (hx(b"1 2"), oracle(b"1 2")))
        # text iterator read as keywords / vectors / mixed; metatype conversions and numbers-from-buffers
        for d in [b"ab cd ef ", b"12 7 "]:
            for o in ["jrj", "lrl", "yaxauaz", "mcMzZ", "xacXALrx", "qaoasaya", "ycYAJ"]:
                cases.append(mk_sep_case(None, d, list(o)))
        cases.append(mk_sep_case(b"", b"a b:c d", list("jrycYAJ")))
        for k, b in [("buffer", b"ab\0cd\0"), ("args", b"ab\0cd\0"), ("args", b"abc"), ("buffer", b"12\0t"), ("args", b"x\0")]:
            cases.append(" ".join([k, hx(b), "-"] + list("mkwzmazcMKWZ")))
        # the C++ value source mpt::source<T> and the default iterator::advance()/reset() of mptcore/types.h
        for hdr in ["d,3,1;1,-4,78", "i,5,-2;1,2,3,4,5", "y,4,1;0,255,7,9", "d,0,1;-", "d,0,-1;1", "i,1,1;7", "i,1,-1;7", "y,3,3;1,2,3",
                    "y,3,4;1,2,3", "d,2,1;1,2,3", "i,4,-3;1,2,3,4", "d,3,0;1,2,3"]:
            for o in ["vavavavavava", "wrw", "wcWrW", "aaavrv", "rvavcVAW"]:
                cases.append("csrc %s - %s" % (hdr, " ".join(o)))
        if PATCH_SPAN_NEGATIVE_LENGTH:
            for hdr in ["d,-1,1;1,2,3", "d,-1,-1;1,2,3", "i,-5,2;1", "y,-1,1;-", "d,-4611686018427387904,1;1", "i,-2147483648,-1;1,2"]:
                for o in ["vavav", "avav", "wrw", "rvaw", "cVAVW"]:
                    cases.append("csrc %s - %s" % (hdr, " ".join(o)))
        cases += ["cdef 7 - v a v a r v w w", "cdef -3 - w r a v"]
        for i in range(n // 16):
            cases.append(gen_csrc(rng))
        cases += ["buffer n - m z k w", "args n - m z k w", "rset itn -", "rset vecn -", "rset vecb;16 -",
                  "rset vec;16;3ff0000000000000,4000000000000000 -", "rset vec;24;3ff0000000000000,4000000000000000,4008000000000000 -",
                  "rset type;s -", "rset type;d -"]
        for i in range(n):
            r = rng.random()
            ops = pick_ops(rng)
            if r < 0.40:
                t = gen_create(rng).encode()
                cases.append(mk_text_case("create", t, restrict_values_text("create", t, ops)))
            elif r < 0.46:
                cases.append(mk_text_case("values", gen_vals(rng).encode() if rng.random() < 0.95 else None,
                                          restrict_values_text("values", None, ops)))
            elif r < 0.50:
                t = gen_string(rng).encode() if rng.random() < 0.97 else None
                cases.append(mk_text_case("string", t, no_desc(ops)))
            elif r < 0.56:
                # text iterator read as keywords / 'c' vectors / everything mixed, with separator configurations
                mode = rng.choice(["key", "key", "vec", "vec", "mix"])
                alphabet = {"key": KEY_OPS, "vec": VEC_OPS, "mix": MIX_OPS}[mode]
                ops = rnd_ops(rng, 30, alphabet)
                if rng.random() < 0.06:
                    sep, t = rng.choice(SEPS), rng.choice([None, b"", b" ", b"  "])
                else:
                    sep, t = gen_wordtext(rng, mode != "key", mode != "vec")
                if t is not None:
                    sep, ops = restrict_unpatched(sep, t, ops)
                cases.append(mk_sep_case(sep, t, ops))
            elif r < 0.62:
                ln = rng.choice([0, 1, 2, 2, 3, 4, 5, 7, 40, 41, 1000, 2147483648, 4294967295])
                cases.append(" ".join(["linear", "%d,%s,%s" % (ln, dpool(rng), dpool(rng)), "-"] + ops))
            elif r < 0.67:
                ln = rng.choice([0, 1, 2, 2, 3, 4, 5, 7, 4294967295])
                cases.append(" ".join(["boundary", "%d,%s,%s,%s" % (ln, dpool(rng), dpool(rng), dpool(rng)), "-"] + ops))
            elif r < 0.77:
                d = gen_polydesc(rng)
                g = gen_grid(rng, True)
                if d is not None and len(d) > 150:
                    # 127..131 coefficients: O(n^2) products per value; keep the history short
                    ops = [o for o in ops if o not in "wWkK"][:6] or ["v"]
                    g = g.split(",")[0]
                cases.append(mk_text_case("poly", None if d is None else d.encode(), ops, g))
            elif r < 0.87:
                cases.append(mk_text_case("profile", gen_profdesc(rng).encode() if rng.random() < 0.97 else None, ops,
                                          gen_grid(rng, rng.random() < 0.1)))
            elif r < 0.94:
                b = gen_buffer(rng)
                kind = rng.choice(["buffer", "args"])
                cases.append(" ".join([kind, hx(b) if (b and rng.random() < 0.95) else "n", "-"] + no_desc(ops)))
            elif r < 0.975:
                # constructors fed from another iterator
                ctor = rng.choice(["lin", "range", "fac"])
                sk = rng.choice(["string", "string", "string", "values"])
                if rng.random() < 0.7:
                    n = rng.choice([0, 1, 2, 3, 4, 5])
                    first = cnt(rng, 0.8) if (ctor != "range" and rng.random() < 0.85) else num(rng, 0.9)
                    toks = ([first] if n else []) + [num(rng, 0.9) for _ in range(max(0, n - 1))]
                    t = rng.choice([" ", " ", ","]).join(toks) if sk == "string" else " ".join(toks)
                else:
                    t = gen_string(rng) if sk == "string" else gen_vals(rng)
                t = t.encode()
                if not t:
                    t = rng.choice([b" ", b"  ", b"3  ", b"3 0  1"])
                cases.append(" ".join(["from", "%s;%s;%s" % (ctor, sk, hx(t)), oracle(t)] + ops))
            elif r < 0.985:
                cases.append(gen_rset(rng))
            else:
                pts = rng.choice([-1, 0, 1, 2, 3, 4, 6])
                ld = rng.choice([1, 1, 2, 3])
                if rng.random() < 0.5:
                    cases.append("vlin %d,%d,%s,%s -" % (pts, ld, dpool(rng), dpool(rng)))
                else:
                    cases.append("vbound %d,%d,%s,%s,%s -" % (pts, ld, dpool(rng), dpool(rng), dpool(rng)))
        return cases


PROP = C19()
